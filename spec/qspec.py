"""Independent specification library (the oracle).

Plain mathematical definitions written from the property statements and the
textbook formulas, NOT from the code bodies.  Every function is written against
an array module `np` (the symbolic model or real numpy), so the same definition
is used symbolically (to state VCs) and natively (to evaluate a clause on a
concrete replayed input).  Only dense linear algebra primitives are used; the
basis is taken as the list of dense basis matrices of the composite system,
never from the cached sparse conversion tables.
"""
import itertools


class Spec:
    def __init__(self, W):
        self.W = W
        self.np = W.np

    # ------------------------------------------------------------ logic usable in both worlds
    def eqv(self, a, b, tol=1e-9):
        if self.W.symbolic:
            return a == b
        return abs(a - b) <= tol * max(1.0, abs(a), abs(b))

    def And(self, *xs):
        if self.W.symbolic:
            from qverif.symtwin import scalar as SC
            out = True
            for x in xs:
                out = SC.band(out, x)
            return out
        return all(bool(x) for x in xs)

    def Or(self, *xs):
        if self.W.symbolic:
            from qverif.symtwin import scalar as SC
            out = False
            for x in xs:
                out = SC.bor(out, x)
            return out
        return any(bool(x) for x in xs)

    def Not(self, x):
        if self.W.symbolic:
            from qverif.symtwin import scalar as SC
            return SC.bnot(x)
        return not bool(x)

    def Iff(self, a, b):
        return self.Or(self.And(a, b), self.And(self.Not(a), self.Not(b)))

    def Implies(self, a, b):
        return self.Or(self.Not(a), b)

    def abs(self, x):
        if self.W.symbolic:
            from qverif.symtwin import scalar as SC
            return SC.sabs(x)
        return abs(x)

    def re(self, x):
        return x.real

    def im(self, x):
        return x.imag

    def flat(self, a):
        """list of the scalar entries of an array (row-major)"""
        if self.W.symbolic:
            a = self.np.asarray(a)
            return a.a.reshape(-1).tolist()
        import numpy
        return numpy.asarray(a).reshape(-1).tolist()

    def truncated(self, out, exact, eps):
        """entrywise:  out == exact  or  (out == 0 and |exact| < eps)   -- the documented truncation rule"""
        conds = []
        for o, x in zip(self.flat(out), self.flat(exact)):
            xr = x.real if hasattr(x, "real") else x
            conds.append(self.Or(self.eqv(o, xr), self.And(self.eqv(o, 0), self.abs(xr) < eps)))
        return self.And(*conds)

    # ------------------------------------------------------------ bases
    def dense(self, m):
        return m.toarray() if hasattr(m, "toarray") and not isinstance(m, self.np.ndarray) else m

    def basis(self, c_sys):
        return [self.dense(b) for b in c_sys.basis()]

    def dim(self, c_sys):
        return self.basis(c_sys)[0].shape[0]

    def zeros_c(self, shape):
        return self.np.zeros(shape, dtype=self.np.complex128)

    def dagger(self, m):
        return self.np.conjugate(m).T

    def hs_inner(self, a, b):
        """<A,B> = Tr(A^dagger B)"""
        return self.np.trace(self.dagger(a) @ b)

    def is_orthonormal(self, c_sys):
        bs = self.basis(c_sys)
        for i, a in enumerate(bs):
            for j, b in enumerate(bs):
                v = self.hs_inner(a, b)
                if not self.exact_eq(v, 1 if i == j else 0):
                    return False
        return True

    def exact_eq(self, v, c):
        if self.W.symbolic:
            r = (v == c)
            return r is True
        return abs(v - c) < 1e-12

    # ------------------------------------------------------------ operators from coefficients
    def op_from_vec(self, c_sys, vec):
        """sum_alpha v_alpha B_alpha"""
        bs = self.basis(c_sys)
        d = bs[0].shape[0]
        out = self.zeros_c((d, d))
        for k, b in enumerate(bs):
            out = out + vec[k] * b
        return out

    def vec_from_op(self, c_sys, op):
        """v_alpha = <B_alpha, op>  (orthonormal basis)"""
        np = self.np
        bs = self.basis(c_sys)
        out = self.zeros_c((len(bs),))
        for k, b in enumerate(bs):
            out[k] = self.hs_inner(b, op)
        return out

    # ------------------------------------------------------------ gate representations
    def choi_from_hs(self, c_sys, hs):
        """C = sum_{a,b} HS_{ab} B_a (x) conj(B_b)"""
        np = self.np
        bs = self.basis(c_sys)
        n = len(bs)
        d = bs[0].shape[0]
        out = self.zeros_c((d * d, d * d))
        for a in range(n):
            for b in range(n):
                out = out + hs[a, b] * np.kron(bs[a], np.conjugate(bs[b]))
        return out

    def hs_from_choi(self, c_sys, choi):
        """HS_{ab} = Tr[(B_a (x) conj B_b)^dagger C]   (orthonormal basis)"""
        np = self.np
        bs = self.basis(c_sys)
        n = len(bs)
        out = self.zeros_c((n, n))
        for a in range(n):
            for b in range(n):
                out[a, b] = self.hs_inner(np.kron(bs[a], np.conjugate(bs[b])), choi)
        return out

    def apply_hs(self, c_sys, hs, rho):
        """the operator  Lambda(rho)  for the map with HS matrix `hs` in the basis of c_sys"""
        v = self.vec_from_op(c_sys, rho)
        return self.op_from_vec(c_sys, hs @ v)

    def hs_from_kraus(self, c_sys, kraus):
        """HS_{ab} = <B_a, sum_k K B_b K^dagger>"""
        bs = self.basis(c_sys)
        n = len(bs)
        out = self.zeros_c((n, n))
        for b in range(n):
            img = self.zeros_c(bs[0].shape)
            for k in kraus:
                img = img + k @ bs[b] @ self.dagger(k)
            for a in range(n):
                out[a, b] = self.hs_inner(bs[a], img)
        return out

    def comp_basis(self, d, mode="row_major"):
        """|i><j| in row-major (i fastest last) or column-major order"""
        np = self.np
        out = []
        rng = itertools.product(range(d), range(d))
        for i, j in rng:
            m = self.zeros_c((d, d))
            if mode == "row_major":
                m[i, j] = 1
            else:
                m[j, i] = 1
            out.append(m)
        return out

    def hs_in_basis(self, c_sys, hs, new_basis):
        """HS matrix of the same map w.r.t. another orthonormal basis list"""
        n = len(new_basis)
        out = self.zeros_c((n, n))
        for b in range(n):
            img = self.apply_hs(c_sys, hs, new_basis[b])
            for a in range(n):
                out[a, b] = self.hs_inner(new_basis[a], img)
        return out

    def process_matrix_from_hs(self, c_sys, hs):
        """chi_{ab} with  Lambda(rho) = sum chi_{ab} B_a rho B_b^dagger.
        chi = (1/d^2-normalisation aside) obtained from Choi: chi_{ab} = <<B_a| C' |B_b>> where C' = sum HS_{cd} |B_c>> <<B_d| reshuffled.
        Stated through its defining action instead (checked by the contract on a basis of inputs)."""
        raise NotImplementedError

    # ------------------------------------------------------------ states / povms
    def born(self, povm_ops, rho):
        return [self.np.trace(m @ rho) for m in povm_ops]

    def trace(self, m):
        return self.np.trace(m)


def factory(W):
    return Spec(W)


def _hs_of_map(self, c_sys, fn):
    """HS_ab = <B_a, fn(B_b)> for a linear map fn on operators (orthonormal basis)"""
    bs = self.basis(c_sys)
    n = len(bs)
    out = self.zeros_c((n, n))
    for b in range(n):
        img = fn(bs[b])
        for a in range(n):
            out[a, b] = self.hs_inner(bs[a], img)
    return out


Spec.hs_of_map = _hs_of_map

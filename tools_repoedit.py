#!/usr/bin/env python3
"""newline-preserving exact replacement in a /repo file:  tools_repoedit.py <path> <old-file> <new-file> [--after <marker>]"""
import sys


def edit(path, old, new, after=None):
    s = open(path, newline="").read()
    nl = "\r\n" if "\r\n" in s else "\n"
    old = old.replace("\r\n", "\n").replace("\n", nl)
    new = new.replace("\r\n", "\n").replace("\n", nl)
    start = 0
    if after:
        start = s.index(after.replace("\n", nl))
    i = s.index(old, start)
    if after is None:
        assert s.count(old) == 1, f"{s.count(old)} occurrences"
    s = s[:i] + new + s[i + len(old):]
    open(path, "w", newline="").write(s)


if __name__ == "__main__":
    a = sys.argv[1:]
    after = None
    if "--after" in a:
        k = a.index("--after")
        after = a[k + 1]
        a = a[:k] + a[k + 2:]
    edit(a[0], open(a[1]).read(), open(a[2]).read(), after)

#!/usr/bin/env python3
"""Fill seeded/<id>/meta.json `what_i_ran` / `source` from seeded_results.json (only rows that were actually evaluated)."""
import json, os
HERE = os.path.dirname(os.path.abspath(__file__))
rows = {r["tag"]: r for r in json.load(open(os.path.join(HERE, "seeded_results.json")))}
n = 0
for tag in sorted(os.listdir(os.path.join(HERE, "seeded"))):
    p = os.path.join(HERE, "seeded", tag, "meta.json")
    if not os.path.exists(p) or tag not in rows:
        continue
    m = json.load(open(p))
    r = rows[tag]
    ran = [
        f"demo.py on the unchanged tree (exit {r.get('demo_unchanged')}) and with patch.diff applied to a scratch copy (exit {r.get('demo_changed')})",
        f"pinned pytest suite with the patch: {str(r.get('tests', 'not run')).split(' in ')[0]}",
        f"./vcheck {r.get('prop')} --tier quick with QVERIF_REPO=<scratch copy> (exit {r.get('check_exit')}, {r.get('n_violation_lines')} VIOLATION lines)",
    ]
    changed = False
    if m.get("what_i_ran") != ran and "what_i_ran" not in m:
        m["what_i_ran"] = ran
        changed = True
    if "source" not in m:
        m["source"] = "independent sub-agent given only the property text and a scratch worktree"
        changed = True
    if changed:
        json.dump(m, open(p, "w"), indent=1)
        n += 1
print("updated", n)

#!/bin/bash
# MANIFEST.setup_cmd: build the check interpreter offline (idempotent).
set -e
cd "$(dirname "$0")"
if [ ! -x .venv/bin/python ] || ! .venv/bin/python -c "import z3, cvc5, jsonschema, numpy, scipy" 2>/dev/null; then
  rm -rf .venv
  PY=$(readlink -f /venv/bin/python)
  "$PY" -m venv .venv
  PIP_NO_INDEX=1 .venv/bin/pip install -q --no-index --find-links /opt/veriftools/wheels z3-solver cvc5 jsonschema >/dev/null
  SP=$(.venv/bin/python -c "import site; print(site.getsitepackages()[0])")
  echo "import site; site.addsitedir('/venv/lib/python3.12/site-packages')" > "$SP/zz_repo_deps.pth"
fi
.venv/bin/python -c "import z3, cvc5, jsonschema, numpy, scipy; print('venv ok', z3.get_version_string(), numpy.__version__, scipy.__version__)"

#!/bin/bash
# usage: tools_mutant.sh <file relative to repo> <old text> <new text> <property> [tier]
# applies one textual change to a scratch copy of /repo under /tmp and runs the property's check against it
set -e
D=$(mktemp -d /tmp/qvm.XXXXXX)
rsync -a --exclude .git /repo/ $D/
python3 - "$D/$1" "$2" "$3" <<'PY'
import sys
p=sys.argv[1]
s=open(p,newline='').read()
assert sys.argv[2] in s, "anchor not found"
s=s.replace(sys.argv[2],sys.argv[3],1)
open(p,'w',newline='').write(s)
PY
cd /verif
QVERIF_REPO=$D QVERIF_NO_EVIDENCE=1 timeout 1500 ./vcheck $4 --tier ${5:-quick} 2>&1 | grep "^VIOLATION\|tier=\|FAULT" | sed 's/.*replay\/C[0-9]*\///' | cut -c1-220 | tail -${6:-8}
rm -rf $D

#!/usr/bin/env python3
"""Evaluate seeded changes: for every seeded/<id>/patch.diff (or a source dir given as argv[1]):
   apply it to a scratch copy of /repo (outside /repo and /verif), confirm the demonstration (passes unchanged, fails changed),
   optionally the pinned test-suite, then run the property's quick check against the scratch copy and record the exit code."""
import glob
import json
import os
import shutil
import subprocess
import sys
import tempfile

VERIF = os.path.dirname(os.path.abspath(__file__))
src = os.path.abspath(sys.argv[1]) if len(sys.argv) > 1 else os.path.join(VERIF, "seeded")
run_tests = "--tests" in sys.argv
only = [a for a in sys.argv[2:] if not a.startswith("--")]
rows = []
for meta_path in sorted(glob.glob(os.path.join(src, "*", "*", "meta.json")) + glob.glob(os.path.join(src, "*", "meta.json"))):
    d = os.path.dirname(meta_path)
    meta = json.load(open(meta_path))
    prop = meta["property"]
    tag = os.path.relpath(d, src)
    if only and not any(o in tag for o in only):
        continue
    scratch = tempfile.mkdtemp(prefix="seedchk-")
    try:
        subprocess.run(["git", "-C", "/repo", "worktree", "add", "-q", "--detach", scratch + "/wt", "HEAD"], check=True, capture_output=True)
        wt = scratch + "/wt"
        env = dict(os.environ, PYTHONPATH=wt)
        demo = os.path.join(d, "demo.py")
        r0 = subprocess.run(["/venv/bin/python", demo], env=env, capture_output=True, text=True, timeout=600)
        ap = subprocess.run(["git", "-C", wt, "apply", os.path.join(d, "patch.diff")], capture_output=True, text=True)
        if ap.returncode != 0:
            rows.append(dict(tag=tag, prop=prop, error="patch does not apply: " + ap.stderr[:200]))
            continue
        r1 = subprocess.run(["/venv/bin/python", demo], env=env, capture_output=True, text=True, timeout=600)
        tests = None
        if run_tests:
            t = subprocess.run("cd %s && /venv/bin/python -m pytest -q -p no:cacheprovider --timeout=900 --continue-on-collection-errors 2>&1 | tail -1" % wt,
                               shell=True, capture_output=True, text=True)
            tests = t.stdout.strip()
        env2 = dict(os.environ, QVERIF_REPO=wt)
        try:
            chk = subprocess.run([os.path.join(VERIF, "vcheck"), prop, "--tier", "quick"], env=env2, capture_output=True, text=True, timeout=2400, cwd=VERIF)
        except subprocess.TimeoutExpired:
            rows.append(dict(tag=tag, prop=prop, demo_unchanged=r0.returncode, demo_changed=r1.returncode, tests=tests, check_exit="timeout", n_violation_lines=0,
                             obligations=[], tail=["the check did not finish within 2400 s"]))
            print(json.dumps(rows[-1]), flush=True)
            continue
        viol = [l for l in chk.stdout.splitlines() if l.startswith("VIOLATION")]
        obs = sorted({l.strip().replace("refuted obligation: ", "") for l in chk.stdout.splitlines() if "refuted obligation" in l})
        rows.append(dict(tag=tag, prop=prop, demo_unchanged=r0.returncode, demo_changed=r1.returncode, tests=tests,
                         check_exit=chk.returncode, n_violation_lines=len(viol), obligations=obs[:6], tail=chk.stdout.strip().splitlines()[-1:]))
        print(json.dumps(rows[-1]), flush=True)
    finally:
        subprocess.run(["git", "-C", "/repo", "worktree", "remove", "--force", scratch + "/wt"], capture_output=True)
        shutil.rmtree(scratch, ignore_errors=True)
if src.endswith("seeded"):
    # merge into the committed table (one row per seeded change, latest evaluation wins)
    path = os.path.join(VERIF, "seeded_results.json")
    old = json.load(open(path)) if os.path.exists(path) else []
    by = {r["tag"]: r for r in old}
    for r in rows:
        by[r["tag"]] = r
    json.dump([by[k] for k in sorted(by)], open(path, "w"), indent=1)
else:
    json.dump(rows, open("/tmp/seeded_results_tmp.json", "w"), indent=1)

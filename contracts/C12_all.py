"""C12: loss values, derivatives and fast paths agree.

The affine model (A, b) is fully symbolic (any affine model: a duck-typed tomography object hands A and b to the
loss functions through their public configuration path), data, weights and the variable point are symbolic.
gradient == d value / d var and hessian == d gradient / d var are checked by symbolic differentiation of the
executed code's own result (chain rule through log), value == the defining formula, fast == generic."""
from qverif.symtwin.verify import E2Contract, eq, true, Raised
from qverif.symtwin import scalar as SC

LF = "quara.loss_function."
EPS = 1e-10


class FakeQt:
    """an arbitrary affine model: the only members the loss functions read from a tomography object"""

    def __init__(self, A, b, num_schedules):
        self._A, self._b = A, b
        self.num_variables = A.shape[1]
        self.num_schedules = num_schedules

    def calc_matA(self):
        return self._A

    def calc_vecB(self):
        return self._b


def sym_inputs(W, mk, S, m, n, weight_kind):
    np = W.np
    A = mk.array("A", (S * m, n))
    b = mk.array("b", S * m)
    q = [mk.array(f"q{j}_", m) for j in range(S)]
    var = mk.array("var", n)
    nd = [mk.real(f"n{j}") for j in range(S)]
    for x in nd:
        mk.require(x >= 2)
    ws = None
    if weight_kind == "matrix":
        ws = []
        for j in range(S):
            w = np.zeros((m, m))
            for a in range(m):
                for c in range(a, m):
                    w[a, c] = mk.real(f"w{j}_{a}_{c}")
                    w[c, a] = w[a, c]
            ws.append(w)
    elif weight_kind == "vector":
        ws = [mk.real(f"w{j}") for j in range(S)]
    return dict(A=A, b=b, q=q, var=var, nd=nd, ws=ws, S=S, m=m, n=n)


def fd_clauses(W, loss, var, out, h=1e-5, tol=1e-4):
    """native world: the derivative clauses by central differences of the real value / gradient (so that a refuted derivative obligation
    has a failing input to replay); relative tolerance 1e-4"""
    from qverif.symtwin.verify import Clause
    import numpy as np
    var = np.asarray(var, dtype=float)
    n = len(var)
    g, H = [], []
    for i in range(n):
        e = np.zeros(n)
        e[i] = h
        g.append((loss.value(var + e) - loss.value(var - e)) / (2 * h))
        H.append((np.asarray(loss.gradient(var + e)) - np.asarray(loss.gradient(var - e))) / (2 * h))
    return [Clause("gradient==d(value)", "eq", np.asarray(out["gradient"]), np.array(g), "gradient_i == d value / d var_i (native: central differences)", tol),
            Clause("hessian==d(gradient)", "eq", np.asarray(out["hessian"]), np.array(H).T, "hessian_ij == d gradient_i / d var_j (native: central differences)", tol)]


def grad_of(W, value, var, names):
    """symbolic gradient of a scalar w.r.t. the variable symbols; native world: None (derivative clauses are symbolic-only)"""
    if not W.symbolic:
        return None
    out = []
    for nm in names:
        out.append(SC.diff(value, SC.T.by_name[nm]))
    return out


class SquaredError(E2Contract):
    name = "WeightedProbabilityBasedSquaredError"
    prop = "C12"
    targets = (LF + "weighted_probability_based_squared_error:WeightedProbabilityBasedSquaredError.value",
               LF + "weighted_probability_based_squared_error:WeightedProbabilityBasedSquaredError.gradient",
               LF + "weighted_probability_based_squared_error:WeightedProbabilityBasedSquaredError.hessian",
               LF + "weighted_probability_based_squared_error:WeightedProbabilityBasedSquaredError._set_weights_by_mode",
               LF + "standard_qtomography_based_weighted_probability_based_squared_error:StandardQTomographyBasedWeightedProbabilityBasedSquaredError.value",
               LF + "standard_qtomography_based_weighted_probability_based_squared_error:StandardQTomographyBasedWeightedProbabilityBasedSquaredError.gradient",
               LF + "probability_based_loss_function:ProbabilityBasedLossFunction.set_from_standard_qtomography_option_data",
               "quara.math.matrix:multiply_veca_vecb", "quara.math.matrix:multiply_veca_vecb_matc",
               "quara.utils.matrix_util:calc_covariance_mat", "quara.utils.matrix_util:replace_prob_dist")
    n_conformance = 2
    max_paths = 32

    def configs(self, tier):
        out = [("identity", 2, 2), ("identity", 2, 3), ("custom", 2, 2), ("custom", 2, 3), ("inverse_sample_covariance", 2, 2),
               ("inverse_sample_covariance", 2, 3), ("inverse_unbiased_covariance", 2, 3)]
        if tier == "thorough":
            out += [("identity", 3, 4), ("custom", 2, 4), ("custom", 3, 5), ("inverse_sample_covariance", 2, 4), ("inverse_unbiased_covariance", 2, 2)]
        return out

    def inputs(self, W, cfg, mk):
        mode, S, m = cfg
        inp = sym_inputs(W, mk, S, m, 1 if mode.startswith("inverse") else 3, "matrix" if mode == "custom" else None)
        if mode.startswith("inverse"):
            # data away from the clipping threshold of replace_prob_dist (1e-8) and normalised by parametrisation
            for j in range(S):
                qj = inp["q"][j]
                tot = 0
                for k in range(m - 1):
                    mk.require(qj[k] >= 1e-6)
                    tot = tot + qj[k]
                qj[m - 1] = 1 - tot
                mk.require(qj[m - 1] >= 1e-6)
        return inp

    def sample(self, cfg, names, rng):
        mode, S, m = cfg
        vals = {n: rng.uniform(-1, 1) for n in names}
        for j in range(S):
            vals[f"n{j}"] = float(rng.randint(10, 1000))
            if mode.startswith("inverse"):
                w = [rng.uniform(0.2, 1) for _ in range(m)]
                for k in range(m - 1):
                    vals[f"q{j}__{k}"] = w[k] / sum(w)
        return vals

    def _mk(self, W, cfg, inp, fast):
        mode, S, m = cfg
        if fast:
            mod = W.mod(LF + "standard_qtomography_based_weighted_probability_based_squared_error")
            loss = mod.StandardQTomographyBasedWeightedProbabilityBasedSquaredError()
            opt = mod.StandardQTomographyBasedWeightedProbabilityBasedSquaredErrorOption(mode, weights=inp["ws"] if mode == "custom" else None)
        else:
            mod = W.mod(LF + "weighted_probability_based_squared_error")
            loss = mod.WeightedProbabilityBasedSquaredError()
            opt = mod.WeightedProbabilityBasedSquaredErrorOption(mode, weights=inp["ws"] if mode == "custom" else None)
        qt = FakeQt(inp["A"], inp["b"], S)
        data = [(inp["nd"][j], inp["q"][j]) for j in range(S)]
        loss.set_from_standard_qtomography_option_data(qt, opt, data, True, not fast)
        return loss

    def run(self, W, cfg, inp):
        g = self._mk(W, cfg, inp, False)
        f = self._mk(W, cfg, inp, True)
        var = inp["var"]
        return dict(value=g.value(var), gradient=g.gradient(var), hessian=g.hessian(var), fvalue=f.value(var), fgradient=f.gradient(var),
                    weights=g.weight_matrices)

    def spec_weights(self, W, cfg, inp):
        mode, S, m = cfg
        np = W.np
        if mode == "identity":
            return [np.eye(m) for _ in range(S)]
        if mode == "custom":
            return inp["ws"]
        out = []
        for j in range(S):
            q = inp["q"][j]          # regular regime: replace_prob_dist leaves q unchanged
            nn = inp["nd"][j] if mode == "inverse_sample_covariance" else inp["nd"][j] - 1
            cov = (np.diag(q) - np.outer(q, q)) / nn
            ext = cov[:m - 1, :m - 1] + np.eye(m - 1) / (inp["nd"][j] ** 1.5 if not W.symbolic else inp["nd"][j] * np.sqrt(inp["nd"][j]))
            inv = np.linalg.inv(ext)
            w = np.zeros((m, m))
            w[:m - 1, :m - 1] = inv
            out.append(w)
        return out

    def post(self, W, cfg, inp, out):
        mode, S, m = cfg
        np = W.np
        var = inp["var"]
        ws = self.spec_weights(W, cfg, inp)
        cl = []
        if mode.startswith("inverse"):
            # two steps: the weights the code installed are the specified ones; the value is the quadratic form in THOSE weights
            cl.append(eq("weights==specified", out["weights"], ws,
                         "weight matrix j == inv(cov(q_j, n_j)[:m-1,:m-1] + I/n_j^(3/2)) embedded in the leading block (n_j-1 for the unbiased mode)"))
            ws = out["weights"]
        tot = 0
        for j in range(S):
            p = inp["A"][j * m:(j + 1) * m] @ var + inp["b"][j * m:(j + 1) * m]
            r = p - inp["q"][j]
            tot = tot + np.dot(r, ws[j] @ r)
        cl += [eq("value==defining-formula", out["value"], tot, "value == sum_j (p_j - q_j)^T W_j (p_j - q_j) with the weights the mode specifies"),
              eq("fast-value==generic-value", out["fvalue"], out["value"], "the tomography-specialised implementation returns the same value"),
              eq("fast-gradient==generic-gradient", out["fgradient"], out["gradient"], "and the same gradient")]
        names = [f"var_{k}" for k in range(inp["n"])]
        g = grad_of(W, out["value"], var, names) if not mode.startswith("inverse") else None
        if g is not None:
            cl.append(eq("gradient==d(value)", out["gradient"], g, "gradient_i == d value / d var_i (symbolic differentiation of the reported value)"))
            H = [grad_of(W, out["gradient"][i], var, names) for i in range(inp["n"])]
            cl.append(eq("hessian==d(gradient)", out["hessian"], H, "hessian_ij == d gradient_i / d var_j"))
        elif not W.symbolic and not mode.startswith("inverse"):
            cl += fd_clauses(W, self._mk(W, cfg, inp, False), var, out)
        return cl

    def canary(self, W, cfg, inp, out):
        return [eq("canary", out["fvalue"], 2 * out["value"] + 1, "(false)")]


class RelativeEntropy(E2Contract):
    name = "WeightedRelativeEntropy"
    prop = "C12"
    targets = (LF + "weighted_relative_entropy:WeightedRelativeEntropy.value", LF + "weighted_relative_entropy:WeightedRelativeEntropy.gradient",
               LF + "weighted_relative_entropy:WeightedRelativeEntropy.hessian",
               LF + "standard_qtomography_based_weighted_relative_entropy:StandardQTomographyBasedWeightedRelativeEntropy.value",
               LF + "standard_qtomography_based_weighted_relative_entropy:StandardQTomographyBasedWeightedRelativeEntropy.gradient",
               "quara.math.entropy:relative_entropy", "quara.math.entropy:gradient_relative_entropy_2nd", "quara.math.entropy:hessian_relative_entropy_2nd",
               "quara.math.entropy:relative_entropy_vector", "quara.math.entropy:gradient_relative_entropy_2nd_vector", "quara.math.entropy:round_varz",
               "quara.math.entropy:round_varz_vector")
    n_conformance = 2
    max_paths = 32

    def configs(self, tier):
        out = [("identity", 2, 2), ("identity", 2, 3), ("custom", 2, 2), ("custom", 2, 3)]
        # "q0": empirical distributions with entries that are exactly zero (outcomes never observed): 0 log 0 = 0 by the usual convention
        out += [("identity", 2, 3, "q0"), ("custom", 2, 2, "q0")]
        if tier == "thorough":
            out += [("identity", 2, 4), ("custom", 2, 4)]      # (3 schedules x 3+ outcomes, 5 outcomes: single-fraction normal form out of budget)
            out += [("identity", 2, 2, "q0"), ("custom", 2, 3, "q0")]
        return out

    @staticmethod
    def _zeros(cfg):
        """positions (schedule, outcome) of the exactly-zero empirical entries"""
        return {(0, 0), (1, cfg[2] - 1)} if len(cfg) > 3 else set()

    def inputs(self, W, cfg, mk):
        mode, S, m = cfg[:3]
        # number of variables: 3 for two outcomes; 1 for more outcomes (the single-fraction normal form of sums over
        # outcomes grows with prod_x p_x: the chain-rule structure is exercised at n=3, the outcome count at n=1)
        inp = sym_inputs(W, mk, S, m, 2 if m == 2 else 1, "vector" if mode == "custom" else None)
        var = inp["var"]
        zeros = self._zeros(cfg)
        for (j, k) in zeros:
            inp["q"][j][k] = 0.0
        # away from the documented clipping thresholds: q >= 1e-6 (or exactly 0), model probabilities in [1e-6, 2]
        for j in range(S):
            p = inp["A"][j * m:(j + 1) * m] @ var + inp["b"][j * m:(j + 1) * m]
            for k in range(m):
                if (j, k) not in zeros:
                    mk.require(inp["q"][j][k] >= 1e-6)
                    mk.require(inp["q"][j][k] <= 2)
                mk.require(p[k] >= 1e-6)
                mk.require(p[k] <= 2)
        return inp

    def sample(self, cfg, names, rng):
        mode, S, m = cfg[:3]
        vals = {n: rng.uniform(-0.1, 0.1) for n in names}
        for n in names:
            if n.startswith("q"):
                vals[n] = rng.uniform(0.1, 0.9)
            if n.startswith("b_"):
                vals[n] = rng.uniform(0.4, 0.9)
            if n.startswith("w"):
                vals[n] = rng.uniform(0.5, 2.0)
            if n.startswith("n"):
                vals[n] = 100.0
        return vals

    def _mk(self, W, cfg, inp, fast):
        mode, S, m = cfg[:3]
        if fast:
            mod = W.mod(LF + "standard_qtomography_based_weighted_relative_entropy")
            loss = mod.StandardQTomographyBasedWeightedRelativeEntropy()
            opt = mod.StandardQTomographyBasedWeightedRelativeEntropyOption(mode, weights=inp["ws"] if mode == "custom" else None)
        else:
            mod = W.mod(LF + "weighted_relative_entropy")
            loss = mod.WeightedRelativeEntropy()
            opt = mod.WeightedRelativeEntropyOption(mode, weights=inp["ws"] if mode == "custom" else None)
        qt = FakeQt(inp["A"], inp["b"], S)
        data = [(inp["nd"][j], inp["q"][j]) for j in range(S)]
        loss.set_from_standard_qtomography_option_data(qt, opt, data, True, not fast)
        return loss

    def run(self, W, cfg, inp):
        g = self._mk(W, cfg, inp, False)
        f = self._mk(W, cfg, inp, True)
        var = inp["var"]
        return dict(value=g.value(var), gradient=g.gradient(var), hessian=g.hessian(var), fvalue=f.value(var), fgradient=f.gradient(var))

    def post(self, W, cfg, inp, out):
        mode, S, m = cfg[:3]
        np = W.np
        var = inp["var"]
        tot = 0
        for j in range(S):
            p = inp["A"][j * m:(j + 1) * m] @ var + inp["b"][j * m:(j + 1) * m]
            wj = inp["ws"][j] if mode == "custom" else 1
            for k in range(m):
                if (j, k) in self._zeros(cfg):
                    continue            # 0 log 0 = 0
                qk = inp["q"][j][k]
                tot = tot + wj * qk * np.log(qk / p[k])
        cl = [eq("value==defining-formula", out["value"], tot, "value == sum_j w_j sum_x q_jx log(q_jx / p_jx) with the weights the option specifies"),
              eq("fast-value==generic-value", out["fvalue"], out["value"], "the tomography-specialised implementation returns the same value"),
              eq("fast-gradient==generic-gradient", out["fgradient"], out["gradient"], "and the same gradient")]
        names = [f"var_{k}" for k in range(inp["n"])]
        g = grad_of(W, out["value"], var, names)
        if g is not None:
            cl.append(eq("gradient==d(value)", out["gradient"], g, "gradient_i == d value / d var_i (d log u = du / u)"))
            H = [grad_of(W, out["gradient"][i], var, names) for i in range(inp["n"])]
            cl.append(eq("hessian==d(gradient)", out["hessian"], H, "hessian_ij == d gradient_i / d var_j"))
        elif not W.symbolic:
            cl += fd_clauses(W, self._mk(W, cfg, inp, False), var, out)
        return cl


class NonAffineModel(E2Contract):
    """the generic loss classes with a model that is NOT affine in the variables (user-supplied probability / gradient / Hessian functions of a
    quadratic model p_j(v) = A_j v + b_j + 1/2 sum_ab v_a v_b C_j[:, a, b]): the curvature term of the Hessian is exercised, which every tomography
    model (zero second derivative) leaves at zero"""
    name = "generic losses on a non-affine model"
    prop = "C12"
    targets = (LF + "weighted_probability_based_squared_error:WeightedProbabilityBasedSquaredError.value",
               LF + "weighted_probability_based_squared_error:WeightedProbabilityBasedSquaredError.gradient",
               LF + "weighted_probability_based_squared_error:WeightedProbabilityBasedSquaredError.hessian",
               LF + "weighted_relative_entropy:WeightedRelativeEntropy.value", LF + "weighted_relative_entropy:WeightedRelativeEntropy.gradient",
               LF + "weighted_relative_entropy:WeightedRelativeEntropy.hessian",
               "quara.math.matrix:multiply_veca_vecb", "quara.math.matrix:multiply_veca_vecb_matc", "quara.math.entropy:hessian_relative_entropy_2nd")
    n_conformance = 2
    max_paths = 32

    def configs(self, tier):
        out = [("squared", "matrix", 2, 2), ("squared", None, 2, 3), ("squared", "matrix", 2, 3), ("entropy", "vector", 2, 2), ("entropy", None, 1, 2)]
        if tier == "thorough":
            out += [("squared", "matrix", 3, 4), ("entropy", None, 1, 3)]      # (("entropy", "vector", 2, 3): single-fraction normal form out of budget)
        return out

    def inputs(self, W, cfg, mk):
        kind, wk, S, m = cfg
        # the single-fraction normal form of the entropy's derivatives grows with the product of all model probabilities: one variable there
        n = 2 if (kind == "squared" or S == 1) else 1
        inp = sym_inputs(W, mk, S, m, n, wk)
        C = []
        for j in range(S):
            c = W.np.zeros((m, n, n))
            for k in range(m):
                for a in range(n):
                    for b in range(a, n):
                        c[k, a, b] = mk.real(f"c{j}_{k}_{a}{b}")
                        c[k, b, a] = c[k, a, b]
            C.append(c)
        inp["C"] = C
        if kind == "entropy":
            var = inp["var"]
            for j in range(S):
                p = self._p(W, inp, j, var)
                for k in range(m):
                    mk.require(inp["q"][j][k] >= 1e-6)
                    mk.require(inp["q"][j][k] <= 2)
                    mk.require(p[k] >= 1e-6)
                    mk.require(p[k] <= 2)
        return inp

    def sample(self, cfg, names, rng):
        kind, wk, S, m = cfg
        vals = {n: rng.uniform(-0.1, 0.1) for n in names}
        for n in names:
            if n.startswith("q"):
                vals[n] = rng.uniform(0.1, 0.9)
            if n.startswith("b_"):
                vals[n] = rng.uniform(0.4, 0.9)
            if n.startswith("w"):
                vals[n] = rng.uniform(0.5, 2.0)
            if n.startswith("n"):
                vals[n] = 100.0
        return vals

    @staticmethod
    def _p(W, inp, j, var):
        m, n = inp["m"], inp["n"]
        p = inp["A"][j * m:(j + 1) * m] @ var + inp["b"][j * m:(j + 1) * m]
        quad = [sum(inp["C"][j][k, a, b] * var[a] * var[b] for a in range(n) for b in range(n)) / 2 for k in range(m)]
        return p + W.np.array(quad)

    def _loss(self, W, cfg, inp):
        kind, wk, S, m = cfg
        np = W.np
        n = inp["n"]

        def fp(j):
            return lambda var: self._p(W, inp, j, var)

        def fg(j):
            return lambda alpha, var: inp["A"][j * m:(j + 1) * m, alpha] + np.array([sum(inp["C"][j][k, alpha, b] * var[b] for b in range(n)) for k in range(m)])

        def fh(j):
            return lambda alpha, beta, var: np.array([inp["C"][j][k, alpha, beta] for k in range(m)])
        fps, fgs, fhs = [fp(j) for j in range(S)], [fg(j) for j in range(S)], [fh(j) for j in range(S)]
        if kind == "squared":
            mod = W.mod(LF + "weighted_probability_based_squared_error")
            loss = mod.WeightedProbabilityBasedSquaredError(n, fps, fgs, fhs, inp["q"], inp["ws"])
        else:
            mod = W.mod(LF + "weighted_relative_entropy")
            loss = mod.WeightedRelativeEntropy(n, fps, fgs, fhs, inp["q"], inp["ws"])
        return loss

    def run(self, W, cfg, inp):
        loss = self._loss(W, cfg, inp)
        var = inp["var"]
        return dict(value=loss.value(var), gradient=loss.gradient(var), hessian=loss.hessian(var))

    def post(self, W, cfg, inp, out):
        kind, wk, S, m = cfg
        np = W.np
        var = inp["var"]
        tot = 0
        for j in range(S):
            p = self._p(W, inp, j, var)
            q = inp["q"][j]
            if kind == "squared":
                r = p - q
                tot = tot + (np.dot(r, inp["ws"][j] @ r) if wk else np.dot(r, r))
            else:
                wj = inp["ws"][j] if wk else 1
                for k in range(m):
                    tot = tot + wj * q[k] * np.log(q[k] / p[k])
        cl = [eq("value==defining-formula", out["value"], tot, "value == the loss's defining formula on the model's predicted distributions, the data and the weights")]
        names = [f"var_{k}" for k in range(inp["n"])]
        g = grad_of(W, out["value"], var, names)
        if g is not None:
            cl.append(eq("gradient==d(value)", out["gradient"], g, "gradient_i == d value / d var_i"))
            H = [grad_of(W, out["gradient"][i], var, names) for i in range(inp["n"])]
            cl.append(eq("hessian==d(gradient)", out["hessian"], H, "hessian_ij == d gradient_i / d var_j (curvature term of the model included)"))
        elif not W.symbolic:
            cl += fd_clauses(W, self._loss(W, cfg, inp), var, out)
        return cl

    def canary(self, W, cfg, inp, out):
        return [eq("canary", out["hessian"], 2 * out["hessian"] + 1, "(false)")]


class EntropyHelpers(E2Contract):
    """math.entropy scalar / vector variants agree and compute q log(q/p) term-wise away from the thresholds"""
    name = "math.entropy"
    prop = "C12"
    targets = ("quara.math.entropy:relative_entropy", "quara.math.entropy:relative_entropy_vector",
               "quara.math.entropy:gradient_relative_entropy_2nd", "quara.math.entropy:gradient_relative_entropy_2nd_vector")
    max_paths = 16

    def configs(self, tier):
        # negative count: the first empirical entry is exactly zero (0 log 0 = 0, no contribution to the gradient)
        return [2, 3, -2, -3] + ([5, -4] if tier == "thorough" else [])

    def inputs(self, W, cfg, mk):
        n = abs(cfg)
        q, p = mk.array("q", n), mk.array("p", n)
        g = mk.array("g", (n, 2))
        if cfg < 0:
            q[0] = 0.0
        for k in range(n):
            for v in ((p[k],) if (cfg < 0 and k == 0) else (q[k], p[k])):
                mk.require(v >= 1e-6)
                mk.require(v <= 2)
        return dict(q=q, p=p, g=g)

    def sample(self, cfg, names, rng):
        return {n: (rng.uniform(0.1, 0.9) if n[0] in "qp" else rng.uniform(-1, 1)) for n in names}

    def run(self, W, cfg, inp):
        e = W.mod("quara.math.entropy")
        return dict(s=e.relative_entropy(inp["q"], inp["p"]), v=e.relative_entropy_vector(inp["q"], inp["p"]),
                    gs=e.gradient_relative_entropy_2nd(inp["q"], inp["p"], inp["g"]),
                    gv=e.gradient_relative_entropy_2nd_vector(inp["q"], inp["p"], inp["g"]))

    def post(self, W, cfg, inp, out):
        np = W.np
        q, p, g = inp["q"], inp["p"], inp["g"]
        n = abs(cfg)
        terms = [(0 * p[k] if (cfg < 0 and k == 0) else q[k] * np.log(q[k] / p[k])) for k in range(n)]
        tot = 0
        for t in terms:
            tot = tot + t
        gsum = [sum((-q[k] * g[k, a] / p[k] for k in range(n) if not (cfg < 0 and k == 0)), 0 * p[0]) for a in range(2)]
        return [eq("scalar", out["s"], tot, "relative_entropy == sum q log(q/p)"),
                eq("vector", out["v"], terms, "relative_entropy_vector entries == q log(q/p)"),
                eq("gradient-scalar", out["gs"], gsum, "gradient_relative_entropy_2nd == sum_x -q_x grad p_x / p_x"),
                eq("gradient-vector", np.sum(out["gv"], axis=0), gsum, "the vector variant sums to the scalar variant")]


class RoundVarz(E2Contract):
    """math.entropy.round_varz / round_varz_vector: max(z, eps) entry-wise - below the threshold the result is eps itself (not some other small
    number), above it the entry; the scalar and the vector variant agree.  Regimes fixed by requires (entries at least 1e-9 away from eps)."""
    name = "math.entropy.round_varz"
    prop = "C12"
    targets = ("quara.math.entropy:round_varz", "quara.math.entropy:round_varz_vector")
    max_paths = 32
    n_conformance = 2

    def configs(self, tier):
        return ["below", "above", "mixed", "negative"]

    def inputs(self, W, cfg, mk):
        z = mk.array("z", 3)
        eps = mk.real("eps")
        mk.require(eps >= 1e-12)
        mk.require(eps <= 1e-3)
        for k in range(3):
            below = cfg in ("below", "negative") or (cfg == "mixed" and k == 0)
            if cfg == "negative":
                mk.require(z[k] <= -1e-6)
            elif below:
                mk.require(z[k] >= 0)
                mk.require(z[k] <= eps - 1e-13)
            else:
                mk.require(z[k] >= eps + 1e-13)
            mk.require(z[k] <= 2)
            mk.require(z[k] >= -2)
        return dict(z=z, eps=eps)

    def sample(self, cfg, names, rng):
        eps = 10 ** rng.uniform(-12, -3)
        vals = {"eps": eps}
        for k in range(3):
            below = cfg in ("below", "negative") or (cfg == "mixed" and k == 0)
            if cfg == "negative":
                vals[f"z_{k}"] = -10 ** rng.uniform(-6, 0)
            elif below:
                vals[f"z_{k}"] = eps * rng.uniform(0, 0.9)
            else:
                vals[f"z_{k}"] = eps + 10 ** rng.uniform(-12, 0)
        return vals

    def run(self, W, cfg, inp):
        e = W.mod("quara.math.entropy")
        valid = cfg != "negative"
        return dict(vec=e.round_varz_vector(inp["z"], inp["eps"], is_valid_required=valid),
                    scalar=[e.round_varz(inp["z"][k], inp["eps"], is_valid_required=valid) for k in range(3)])

    def post(self, W, cfg, inp, out):
        want = []
        for k in range(3):
            below = cfg in ("below", "negative") or (cfg == "mixed" and k == 0)
            want.append(inp["eps"] if below else inp["z"][k])
        return [eq("vector==max(z,eps)", out["vec"], want, "round_varz_vector(z, eps)[k] == max(z[k], eps)"),
                eq("scalar==max(z,eps)", out["scalar"], want, "round_varz(z[k], eps) == max(z[k], eps)")]

    def canary(self, W, cfg, inp, out):
        return [eq("canary", out["vec"], [2 * inp["eps"] + 1] * 3, "(false)")]

"""C15 Monte-Carlo simulations (partial): jobs"""
from .C02 import e2_jobs, META as _M

META = dict(_M)
META["level"] = "other"
CLASSES = ["contracts.C15_all:Depolarized", "contracts.C15_all:SingleSettingRepetitions", "contracts.C15_all:FlowTestSettingUnit", "contracts.C15_all:RandomLindbladianDraws", "contracts.C15_all:FlowRandomNoiseStreams", "contracts.C15_all:PhysicalityCheckOfARun", "contracts.C15_all:DepolarizedTesters", "contracts.C15_all:SimulationSettingCopy"]


def _native_rl(**kw):
    from . import C18_native as C
    return C.job_random_lindbladians(**kw)


def jobs(tier, seed):
    from qverif.core.runner import Job
    js = e2_jobs("C15", CLASSES, tier, seed)
    # bounded stand-in (native floats) for the clause the proofs leave open: the random-Lindbladian noise produces physical objects
    js.append(Job("C15/random-lindbladian-generators (instances)", "contracts.C15:_native_rl", dict(tier=tier, seed=seed, prop="C15"), timeout_s=900.0))
    return js

META["explanation"] = ("Partial: reproducibility / independence of the random draws is proved with ghost random streams for the single-setting entry point and the "
                       "test-setting flow (linear estimator, depolarising noise, stream routing of the random noise model); the built-in physicality check is proved relative to "
                       "the per-object verdicts of C01. Physicality of the random effective-Lindbladian objects and real multi-process workers are not decided.")
META["not_decided"] = [
                       "random effective-Lindbladian noise produces physical objects: not decided by proof (expm, unitary_group opaque; in the flow contract its generate() is replaced by its stream contract); bounded stand-in only: seeded native draws (contracts/C18_native.py)",
                       "results with real joblib worker processes (the model runs tasks in-process in permuted orders)",
                       "loss-minimisation estimator cases inside a simulation run (estimators are deterministic functions of the stored data: C13)"]

CLAIM = {'engine': 'E2-symtwin', 'level': 'other',
 'text': 'PARTIAL. With numpy.random replaced by ghost streams (stream id, position) and joblib by an in-process model that runs tasks in forward, reversed and rotated order, the unmodified simulation entry points are executed and proved to be functions of settings and seeds: execute_simulation draws only from the stream its seed / generator identifies (the global state only without a seed), no two repetitions depend on a common draw, re-estimating from the stored empirical distributions reproduces the stored estimates; execute_simulation_test_setting_unit gives repetition i exactly the draws of the i-th child of SeedSequence(seed_data), never touches the global state, and its generated objects, data and estimates do not change with task order or the four n_jobs settings; the random parts of the effective-Lindbladian noise model draw only from the stream they are given, and the flow hands the generator of sample i (i-th child of SeedSequence(seed_qoperation)) to the noise of the true object and of every tester. DepolarizedQOperationGenerationSetting.generate is proved, for every rate p in [0,1] and every symbolic state / POVM / gate / measurement process on 1 qubit and 1 qutrit, to return (1-p) ideal + p (maximally mixed of the same trace). The built-in physicality check of a run is proved to return False exactly when some stored estimate violates, at the documented thresholds, a constraint its estimator configuration enforces (projected linear: both; linear: equality when built into the parametrisation; loss minimisation: as the two algorithm flags say; nothing otherwise), relative to the per-object verdicts of C01; re-estimation from stored data reproduces the stored estimates for every sample and case.',
 'note': 'Two genuine defects found and fixed (single-setting run with an integer seed made all repetitions identical; POVM tomography could not be simulated at all: misspelled keyword). NOT decided: physicality of the random effective-Lindbladian objects (only the routing of their random streams is proved), real worker processes, loss-minimisation cases. Gate.is_cp of the depolarising channel is used through its closed-form spectrum (assumed lemma, cross-checked natively). Generators trusted.',
 'technique': 'contract-based deductive verification with ghost state (random streams), symbolic execution of the real code'}

"""C15 Monte-Carlo simulations (partial): jobs"""
from .C02 import e2_jobs, META as _M

META = dict(_M)
META["level"] = "other"
CLASSES = ["contracts.C15_all:Depolarized", "contracts.C15_all:SingleSettingRepetitions"]


def jobs(tier, seed):
    return e2_jobs("C15", CLASSES, tier, seed)

"""C15 (partial): simulation inputs are reproducible functions of settings and seeds, repetitions draw independently, depolarising noise.

Ghost random streams (qverif/symtwin/symrandom.py): every draw is tagged (stream id, position).  Reproducibility = every draw comes
from a stream identified by the seed (never the global state) at positions that do not depend on anything else; independence of
repetitions = the sets of draws two repetitions depend on are disjoint.
NOT decided: the physicality check of a run (standard_qtomography_simulation_check), the random effective-Lindbladian noise model,
real process-level parallelism (joblib workers), pickled round trips."""
from qverif.symtwin.verify import E2Contract, eq, true, Raised
from qverif.symtwin import symrandom
from ._cfg import make_csys, stacked, obj_state, obj_povm, obj_gate, obj_mprocess, DIMS
from .C09_all import exact_testers

SIM = "quara.simulation.standard_qtomography_simulation"
FLOW = "quara.simulation.standard_qtomography_simulation_flow"
STD = "quara.protocol.qtomography.standard."


# ------------------------------------------------------------------ depolarising noise

def _dep_is_cp_stub():
    """Gate.is_cp for HS = diag(1, q, .., q) (the depolarising family): closed-form spectrum of the Choi matrix
    {(1 + (d^2-1) q)/d, (1 - q)/d}; anything else falls through to the real method."""
    def stub(self, atol=None):
        from qverif.symtwin import symnp as NP, scalar as SC
        hs = NP._A(self.hs)
        n = hs.shape[0]
        diag = all((hs.a[i, j].is_zero() if isinstance(hs.a[i, j], SC.Sym) else hs.a[i, j] == 0) for i in range(n) for j in range(n) if i != j)
        q = hs.a[1, 1]
        same = all(SC.Sym.const(hs.a[k, k]).key() == SC.Sym.const(q).key() if not isinstance(hs.a[k, k], SC.Sym) else hs.a[k, k].key() == SC.Sym.const(q).key() for k in range(1, n))
        one = SC.Sym.const(hs.a[0, 0]).key() == SC.Sym.const(1).key() if not isinstance(hs.a[0, 0], SC.Sym) else hs.a[0, 0].key() == SC.Sym.const(1).key()
        if not (diag and same and one):
            raise NotImplementedError("is_cp stub: not of the depolarising form")
        q = SC.Sym.const(q) if not isinstance(q, SC.Sym) else q
        return bool(SC.band(1 + (n - 1) * q >= 0, 1 - q >= 0))
    return stub


class Depolarized(E2Contract):
    """DepolarizedQOperationGenerationSetting.generate(): (1-p) ideal + p (maximally mixed of the same trace), for every p in [0,1]"""
    name = "depolarized generation setting"
    prop = "C15"
    targets = ("quara.simulation.depolarized_qoperation_generation_setting:DepolarizedQOperationGenerationSetting.generate_state",
               "quara.simulation.depolarized_qoperation_generation_setting:DepolarizedQOperationGenerationSetting.generate_povm",
               "quara.simulation.depolarized_qoperation_generation_setting:DepolarizedQOperationGenerationSetting.generate_gate",
               "quara.simulation.depolarized_qoperation_generation_setting:DepolarizedQOperationGenerationSetting.generate_mprocess",
               "quara.simulation.generation_setting:QOperationGenerationSetting.generate", "quara.objects.gate:get_depolarizing_channel")
    n_conformance = 1
    max_paths = 16
    frame = True

    def __init__(self):
        self.stubs = {"quara.objects.gate:Gate.is_cp": _dep_is_cp_stub()}

    def configs(self, tier):
        out = []
        for s in ("1q", "1qt"):
            for kind in ("state", "povm", "gate", "mprocess"):
                if s == "1qt" and kind in ("gate", "mprocess") and tier != "thorough":
                    continue
                out.append((s, kind))
        return out

    def inputs(self, W, cfg, mk):
        s, kind = cfg
        c_sys = make_csys(W, s)
        p = mk.real("p")
        mk.require(p >= 0)
        mk.require(p <= 1)
        base = {"state": lambda: obj_state(W, mk, c_sys), "povm": lambda: obj_povm(W, mk, c_sys, 2), "gate": lambda: obj_gate(W, mk, c_sys),
                "mprocess": lambda: obj_mprocess(W, mk, c_sys, 2)}[kind]()
        return dict(p=p, base=base, c_sys=c_sys)

    def sample(self, cfg, names, rng):
        vals = {n: rng.uniform(-1, 1) for n in names}
        vals["p"] = rng.choice([0.0, 1.0, rng.uniform(0, 1)])
        return vals

    def run(self, W, cfg, inp):
        mod = W.mod("quara.simulation.depolarized_qoperation_generation_setting")
        gs = mod.DepolarizedQOperationGenerationSetting(inp["c_sys"], inp["base"], inp["p"], is_physicality_required=False)
        obj = gs.generate()
        return dict(arrays=stacked(W, obj), kind=type(obj).__name__, rate=gs.error_rate)

    def post(self, W, cfg, inp, out):
        s, kind = cfg
        np = W.np
        p = inp["p"]
        n = DIMS[s] ** 2
        D = np.diag(np.array([1] + [1 - p] * (n - 1)))
        src = stacked(W, inp["base"])
        if kind in ("state", "povm"):
            # coefficient 0 is the trace part: (1-p) v + p (trace part of v) == D v
            want = [D @ v for v in src]
        else:
            want = [D @ h for h in src]
        return [eq("type-kept", out["kind"], type(inp["base"]).__name__, "the noisy object has the type of the ideal one"),
                eq("mixes-with-maximally-mixed-in-proportion-p", out["arrays"], want,
                   "noisy == (1-p) ideal + p (maximally mixed of the same trace), i.e. the traceless part is scaled by 1-p: a convex mixture of physical objects"),
                eq("rate", out["rate"], p, "error_rate is the given rate")]

    def canary(self, W, cfg, inp, out):
        return [eq("canary", out["arrays"], stacked(W, inp["base"]), "(false) the noise does nothing")]


# ------------------------------------------------------------------ repetitions of the single-setting entry point

def _sim_setting(W, seed, n_rep, num_data, kind="qst"):
    c_sys, states, povms = exact_testers(W, "1q", False)
    sim = W.mod(SIM)
    est = W.mod(STD + "linear_estimator").LinearEstimator()
    if kind == "qst":
        true_object, testers = states[1], povms
        qt = W.mod(STD + "standard_qst").StandardQst(povms, on_para_eq_constraint=True)
    else:
        true_object, testers = povms[0], states
        qt = W.mod(STD + "standard_povmt").StandardPovmt(states, 2, on_para_eq_constraint=True)
    setting = sim.StandardQTomographySimulationSetting(name="case", true_object=true_object, tester_objects=testers, estimator=est, seed_data=seed,
                                                       n_rep=n_rep, num_data=num_data, schedules="all", eps_proj_physical=1e-13,
                                                       eps_truncate_imaginary_part=1e-13)
    return qt, setting


def _pairs(x):
    out = []
    if isinstance(x, tuple) and len(x) == 2 and not isinstance(x[0], (list, tuple)) and hasattr(x[1], "shape"):
        return [x]
    if isinstance(x, (list, tuple)):
        for v in x:
            out += _pairs(v)
    return out


def _plain(x):
    import numpy
    if isinstance(x, (list, tuple)):
        return [_plain(v) for v in x]
    if isinstance(x, numpy.ndarray):
        return [round(float(v), 12) for v in x.reshape(-1)]
    return x


class SingleSettingRepetitions(E2Contract):
    """execute_simulation: reproducible from the seed, repetitions draw independently"""
    name = "execute_simulation repetitions"
    prop = "C15"
    targets = (SIM + ":execute_simulation", SIM + ":generate_empi_dists_and_calc_estimate", SIM + ":_generate_empi_dists_and_calc_estimate",
               SIM + ":_execute_estimation", "quara.utils.number_util:to_stream")
    n_conformance = 0
    max_paths = 64
    frame = False

    def configs(self, tier):
        out = [("qst", 3, "int"), ("qst", 2, "generator"), ("qst", 2, "none"), ("povmt", 2, "int"),
               # no seed argument: the seed stored in the simulation setting is the source
               ("qst", 2, "setting-seed")]
        if tier == "thorough":
            out += [("qst", 5, "int"), ("povmt", 3, "generator")]
        return out

    def inputs(self, W, cfg, mk):
        return dict(probe=mk.real("probe"))

    def _source(self, W, how):
        if how == "int":
            return 7
        if how in ("none", "setting-seed"):
            return None
        rnd = W.np.random if W.symbolic else __import__("numpy").random
        return rnd.Generator(rnd.MT19937(11))

    def run(self, W, cfg, inp):
        kind, n_rep, how = cfg
        sim = W.mod(SIM)
        out = {}
        if W.symbolic:
            num_data = [4, 8]
            symrandom.reset()
            qt, setting = _sim_setting(W, 7 if how in ("int", "setting-seed") else None, n_rep, num_data, kind)
            src = self._source(W, how)
            res = sim.execute_simulation(qt, setting, seed_or_generator=src, is_computation_time_required=False)
            log = list(symrandom.DRAW_LOG)
            tags = [symrandom.draw_tags([d for _, d in _pairs(seq)]) for seq in res.empi_dists_sequences]
            out["n_rep"] = len(res.empi_dists_sequences)
            out["disjoint"] = all(not (tags[i] & tags[j]) for i in range(len(tags)) for j in range(i + 1, len(tags)))
            out["every-repetition-draws"] = all(len(t) > 0 for t in tags)
            sid = {"int": ("seed", 7), "generator": ("seed", 11), "none": ("G",), "setting-seed": ("seed", 7)}[how]
            out["only-the-named-source"] = len(log) > 0 and all(e[0] == sid for e in log)
            # estimates are functions of the stored data only
            est = [r.estimated_var_sequence for r in res.estimation_results]
            lin = W.mod(STD + "linear_estimator").LinearEstimator()
            again = [lin.calc_estimate_sequence(qt, seq).estimated_var_sequence for seq in res.empi_dists_sequences]
            out["estimates"] = est
            out["re-estimates"] = again
            return out
        import numpy
        num_data = [1000, 4000]
        qt, setting = _sim_setting(W, 7 if how in ("int", "setting-seed") else None, n_rep, num_data, kind)

        def once(global_seed):
            numpy.random.seed(global_seed)
            r = sim.execute_simulation(qt, setting, seed_or_generator=self._source(W, how), is_computation_time_required=False)
            return r
        r1 = once(1)
        r2 = once(2 if how != "none" else 1)
        e1, e2 = _plain(r1.empi_dists_sequences), _plain(r2.empi_dists_sequences)
        out["n_rep"] = len(r1.empi_dists_sequences)
        out["disjoint"] = all(e1[i] != e1[j] for i in range(len(e1)) for j in range(i + 1, len(e1)))
        out["every-repetition-draws"] = True
        out["only-the-named-source"] = e1 == e2
        lin = W.mod(STD + "linear_estimator").LinearEstimator()
        out["estimates"] = [r.estimated_var_sequence for r in r1.estimation_results]
        out["re-estimates"] = [lin.calc_estimate_sequence(qt, seq).estimated_var_sequence for seq in r1.empi_dists_sequences]
        return out

    def post(self, W, cfg, inp, out):
        kind, n_rep, how = cfg
        return [eq("one-dataset-sequence-per-repetition", out["n_rep"], n_rep, "n_rep repetitions are stored"),
                eq("repetitions-use-independent-draws", out["disjoint"], True,
                   "no two repetitions depend on a common random draw (they are not copies of one another)"),
                eq("every-repetition-draws", out["every-repetition-draws"], True, "every repetition's data depend on random draws"),
                eq("deterministic-function-of-the-seed", out["only-the-named-source"], True,
                   "all draws come from the stream the seed / generator identifies (the global state only when no seed is given): repeating the run reproduces it"),
                eq("re-estimation-reproduces-the-estimates", out["re-estimates"], out["estimates"], "estimating again from the stored empirical distributions gives the stored estimates")]


# ------------------------------------------------------------------ the test-setting flow

def _noop(*a, **k):
    return None


def _test_setting(W, n_rep, n_sample, num_data):
    sim = W.mod(SIM)
    c_sys = make_csys(W, "1q")
    est = W.mod(STD + "linear_estimator").LinearEstimator()
    ns = sim.NoiseSetting
    return sim.EstimatorTestSetting(true_object=ns(("state", "z0"), "depolarized", {"error_rate": 0.125}),
                                    tester_objects=[ns(("povm", a), "depolarized", {"error_rate": 0.25}) for a in ("x", "y", "z")],
                                    seed_data=777, seed_qoperation=888, n_rep=n_rep, num_data=num_data, n_sample=n_sample, schedules="all",
                                    case_names=["linear(True)", "linear(False)"], estimators=[est, est], eps_proj_physical_list=[1e-13, 1e-13],
                                    eps_truncate_imaginary_part_list=[1e-13, 1e-13], algo_list=[(None, None), (None, None)],
                                    loss_list=[(None, None), (None, None)], parametrizations=[True, False], c_sys=c_sys)


NO_CHECKS = dict(consistency=False, mse_of_estimators=False, mse_of_empi_dists=False, physicality_violation=False)


class FlowTestSettingUnit(E2Contract):
    """execute_simulation_test_setting_unit: per-repetition streams spawned from the data seed; results independent of worker counts / task order"""
    name = "simulation flow (test setting unit)"
    prop = "C15"
    targets = (FLOW + ":execute_simulation_test_setting_unit", FLOW + ":execute_simulation_sample_unit", FLOW + ":execute_simulation_case_unit",
               SIM + ":execute_estimation", SIM + ":generate_qtomography", SIM + ":EstimatorTestSetting.to_simulation_setting",
               SIM + ":EstimatorTestSetting.to_generation_settings", SIM + ":NoiseSetting.to_generation_setting")
    n_conformance = 0
    max_paths = 64
    frame = False
    stubs = {FLOW + ":write_result_case_unit": _noop, FLOW + ":write_result_sample_unit": _noop, FLOW + ":write_result_test_setting_unit": _noop}

    def configs(self, tier):
        return [(2, 2), (3, 1)] + ([(4, 2)] if tier == "thorough" else [])

    def inputs(self, W, cfg, mk):
        return dict(probe=mk.real("probe"))

    def run(self, W, cfg, inp):
        n_rep, n_sample = cfg
        flow = W.mod(FLOW)
        out = {}
        if W.symbolic:
            from qverif.symtwin import symjoblib

            def once(order, jobs):
                symrandom.reset()
                symjoblib.ORDER[0] = order
                ts = _test_setting(W, n_rep, n_sample, [4, 8])
                pm = None if jobs is None else dict(per_sample_unit=jobs, per_data_generation=jobs, per_estimator_unit=jobs, per_estimator_execution=jobs)
                res = flow.execute_simulation_test_setting_unit(ts, 0, "/nonexistent/qverif", exec_sim_check=dict(NO_CHECKS), pdf_mode="none", parallel_mode=pm,
                                                                 is_computation_time_required=False)
                self._ts = ts
                return res, list(symrandom.DRAW_LOG)
            try:
                res, log = once("forward", None)
                res2, _ = once("reverse", 4)
                res3, _ = once("rotate", 2)
            finally:
                symjoblib.ORDER[0] = "forward"
            data = lambda rs: [[[d for _, d in _pairs(seq)] for seq in r.empi_dists_sequences] for r in rs]
            ests = lambda rs: [[e.estimated_var_sequence for e in r.estimation_results] for r in rs]
            tags = [[symrandom.draw_tags(rep) for rep in r] for r in data(res)]
            sim_mod = W.mod(SIM)
            out["re-estimates"] = [[e.estimated_var_sequence for e in sim_mod.re_estimate_sequence(self._ts, r)] for r in res]
            out["n_results"] = len(res)
            out["reps"] = [len(r.empi_dists_sequences) for r in res]
            out["disjoint"] = all(not (t[i] & t[j]) for t in tags for i in range(len(t)) for j in range(i + 1, len(t)))
            out["own-stream"] = all(len(t[i]) > 0 and all(sid == ("ss", ("root", 777), i) for sid, _ in t[i]) for t in tags for i in range(len(t)))
            out["no-global"] = len(log) > 0 and all(e[0][0] == "ss" for e in log)
            out["data"] = data(res)
            out["data-other-schedules"] = [data(res2), data(res3)]
            out["estimates"] = ests(res)
            out["estimates-other-schedules"] = [ests(res2), ests(res3)]
            out["truth"] = [stacked(W, r.simulation_setting.true_object) for r in res]
            out["truth-other-schedules"] = [[stacked(W, r.simulation_setting.true_object) for r in rr] for rr in (res2, res3)]
            return out
        import numpy
        import shutil
        import tempfile
        import io
        import contextlib

        def once(global_seed, jobs):
            numpy.random.seed(global_seed)
            d = tempfile.mkdtemp(prefix="qverif_c15_")
            try:
                ts = _test_setting(W, n_rep, n_sample, [1000, 4000])
                pm = None if jobs is None else dict(per_sample_unit=jobs, per_data_generation=jobs, per_estimator_unit=jobs, per_estimator_execution=jobs)
                with contextlib.redirect_stdout(io.StringIO()), contextlib.redirect_stderr(io.StringIO()):
                    return flow.execute_simulation_test_setting_unit(ts, 0, d, exec_sim_check=dict(NO_CHECKS), pdf_mode="none", parallel_mode=pm,
                                                                      is_computation_time_required=False)
            finally:
                shutil.rmtree(d, ignore_errors=True)
        res = once(1, None)
        res2 = once(2, 1)
        data = lambda rs: [_plain(r.empi_dists_sequences) for r in rs]
        ests = lambda rs: [[e.estimated_var_sequence for e in r.estimation_results] for r in rs]
        d1 = data(res)
        ts_native = _test_setting(W, n_rep, n_sample, [1000, 4000])
        with contextlib.redirect_stdout(io.StringIO()), contextlib.redirect_stderr(io.StringIO()):
            out["re-estimates"] = [[e.estimated_var_sequence for e in W.mod(SIM).re_estimate_sequence(ts_native, r)] for r in res]
        out["n_results"] = len(res)
        out["reps"] = [len(r.empi_dists_sequences) for r in res]
        out["disjoint"] = all(r[i] != r[j] for r in d1 for i in range(len(r)) for j in range(i + 1, len(r)))
        # native proxy of the ghost-stream clause: repetition i is what the i-th child of SeedSequence(seed_data) generates on its own
        sim = W.mod(SIM)
        own = True
        for r in res:
            st = r.simulation_setting
            qt = sim.generate_qtomography(st, para=True, init_with_seed=False)
            kids = numpy.random.SeedSequence(777).spawn(n_rep)
            for i in range(n_rep):
                alone = qt.generate_empi_dists_sequence(st.true_object, st.num_data, numpy.random.Generator(numpy.random.MT19937(kids[i])))
                own = own and _plain(alone) == _plain(r.empi_dists_sequences[i])
        out["own-stream"] = own
        out["no-global"] = d1 == data(res2)
        out["data"] = d1
        out["data-other-schedules"] = [data(res2), data(res2)]
        out["estimates"] = ests(res)
        out["estimates-other-schedules"] = [ests(res2), ests(res2)]
        out["truth"] = [stacked(W, r.simulation_setting.true_object) for r in res]
        out["truth-other-schedules"] = [[stacked(W, r.simulation_setting.true_object) for r in rr] for rr in (res2, res2)]
        return out

    def post(self, W, cfg, inp, out):
        n_rep, n_sample = cfg
        return [eq("one-result-per-sample-and-case", out["n_results"], 2 * n_sample, "n_sample x cases results"),
                eq("n_rep-datasets-per-result", out["reps"], [n_rep] * (2 * n_sample), "every result stores n_rep repetitions"),
                eq("repetitions-use-independent-draws", out["disjoint"], True, "no two repetitions of a sample depend on a common random draw"),
                eq("repetition-i-draws-only-from-the-i-th-spawned-stream", out["own-stream"], True,
                   "repetition i depends only on draws of the i-th child of SeedSequence(seed_data): a function of (seed_data, i), not of scheduling"),
                eq("global-random-state-untouched", out["no-global"], True, "no draw comes from the global numpy state"),
                eq("data-independent-of-schedule-and-worker-count", out["data-other-schedules"], [out["data"], out["data"]],
                   "reversed / rotated task execution order and other n_jobs settings give the same empirical distributions"),
                eq("estimates-independent-of-schedule-and-worker-count", out["estimates-other-schedules"], [out["estimates"], out["estimates"]],
                   "... and the same estimates"),
                eq("objects-independent-of-schedule-and-worker-count", out["truth-other-schedules"], [out["truth"], out["truth"]], "... and the same generated true objects"),
                eq("re-estimation-reproduces-the-stored-estimates", out["re-estimates"], out["estimates"],
                   "re_estimate_sequence(test setting, stored result) gives the stored estimates for every sample and every case (its own parametrisation)")]


# ------------------------------------------------------------------ random effective-Lindbladian noise: where the draws come from

RL = "quara.simulation.random_effective_lindbladian_generation_setting"


class RandomLindbladianDraws(E2Contract):
    """the random parts of the effective-Lindbladian noise model draw from the stream they are given, and from nothing else"""
    name = "random effective Lindbladian: sources of randomness"
    prop = "C15"
    targets = (RL + ":RandomEffectiveLindbladianGenerationSetting._generate_random_variables",
               RL + ":RandomEffectiveLindbladianGenerationSetting.generate_random_effective_lindbladian_h_part",
               RL + ":RandomEffectiveLindbladianGenerationSetting.generate_random_effective_lindbladian_d_part")
    n_conformance = 0
    max_paths = 16
    frame = False

    def configs(self, tier):
        return [("1q", "int"), ("1q", "generator"), ("1q", "none")] + ([("1qt", "generator")] if tier == "thorough" else [])

    def inputs(self, W, cfg, mk):
        return dict(probe=mk.real("probe"))

    def _setting(self, W, s):
        c = make_csys(W, s)
        return W.mod(RL).RandomEffectiveLindbladianGenerationSetting(c, ("state", "z0" if s == "1q" else "01z0"), "identity", 0.1, 0.2)

    def run(self, W, cfg, inp):
        s, how = cfg
        out = {}
        if W.symbolic:
            rnd = W.np.random
            symrandom.reset()
            gs = self._setting(W, s)
            symrandom.reset()
            src = {"int": 7, "generator": rnd.Generator(rnd.MT19937(11)), "none": None}[how]
            stream = W.mod("quara.utils.number_util").to_stream(src)
            h, _ = gs.generate_random_effective_lindbladian_h_part(stream)
            d, _, _ = gs.generate_random_effective_lindbladian_d_part(stream)
            log = list(symrandom.DRAW_LOG)
            sid = {"int": ("seed", 7), "generator": ("seed", 11), "none": ("G",)}[how]
            out["only-the-given-stream"] = len(log) == 3 and all(e[0] == sid for e in log) and [e[1] for e in log] == [0, 1, 2]
            out["h-depends-on-first-draw-only"] = symrandom.draw_tags(h) == {(sid, 0)}
            out["d-depends-on-later-draws-only"] = symrandom.draw_tags(d) == {(sid, 1), (sid, 2)}
            return out
        import numpy
        gs = self._setting(W, s)

        def once(global_seed):
            numpy.random.seed(global_seed)
            src = {"int": 7, "generator": numpy.random.Generator(numpy.random.MT19937(11)), "none": None}[how]
            stream = W.mod("quara.utils.number_util").to_stream(src)
            h, _ = gs.generate_random_effective_lindbladian_h_part(stream)
            d, _, _ = gs.generate_random_effective_lindbladian_d_part(stream)
            return numpy.round(h, 12).tolist(), numpy.round(d, 12).tolist()
        a, b = once(1), once(2 if how != "none" else 1)
        out["only-the-given-stream"] = a == b
        out["h-depends-on-first-draw-only"] = True
        out["d-depends-on-later-draws-only"] = True
        return out

    def post(self, W, cfg, inp, out):
        return [eq("draws-only-from-the-stream-it-is-given", out["only-the-given-stream"], True,
                   "three draws (normal vector, normal vector, random unitary), all from the given stream (the global state only when none is given), consumed in order"),
                eq("h-part-is-a-function-of-its-own-draw", out["h-depends-on-first-draw-only"], True, "the Hamiltonian part depends on the first draw only"),
                eq("d-part-is-a-function-of-its-own-draws", out["d-depends-on-later-draws-only"], True, "the dissipator part depends on the second and third draws only")]


def _stub_random_generate(self, seed_or_generator=None):
    """callee contract of RandomEffectiveLindbladianGenerationSetting.generate used by the flow contract below: consumes draws from the stream it is
    given (RandomLindbladianDraws) and returns an object of the base's type; here: the base object itself plus one recorded draw"""
    g = type(self).generate_random_effective_lindbladian.__globals__
    stream = g["to_stream"](seed_or_generator)
    draws = stream.standard_normal(1)
    return (self.qoperation_base, draws, draws, draws, draws)


class FlowRandomNoiseStreams(FlowTestSettingUnit):
    """the flow hands sample i's generator (i-th child of SeedSequence(seed_qoperation)) to the noise model of the true object AND of every tester"""
    name = "simulation flow: streams of the random noise model"
    stubs = dict(FlowTestSettingUnit.stubs)
    stubs[RL + ":RandomEffectiveLindbladianGenerationSetting.generate"] = _stub_random_generate

    def configs(self, tier):
        return [(2, 2)]

    def run(self, W, cfg, inp):
        n_rep, n_sample = cfg
        flow = W.mod(FLOW)
        sim = W.mod(SIM)
        c_sys = make_csys(W, "1q")
        est = W.mod(STD + "linear_estimator").LinearEstimator()
        ns = sim.NoiseSetting
        para = {"lindbladian_base": "identity", "strength_h_part": 0.01, "strength_k_part": 0.02}

        def setting(num_data):
            return sim.EstimatorTestSetting(true_object=ns(("state", "z0"), "random_effective_lindbladian", dict(para)),
                                            tester_objects=[ns(("povm", a), "random_effective_lindbladian", dict(para)) for a in ("x", "y", "z")],
                                            seed_data=777, seed_qoperation=888, n_rep=n_rep, num_data=num_data, n_sample=n_sample, schedules="all",
                                            case_names=["linear(True)"], estimators=[est], eps_proj_physical_list=[1e-13],
                                            eps_truncate_imaginary_part_list=[1e-13], algo_list=[(None, None)], loss_list=[(None, None)],
                                            parametrizations=[True], c_sys=c_sys, generation_setting_is_physicality_required=False)
        out = {}
        if W.symbolic:
            symrandom.reset()
            flow.execute_simulation_test_setting_unit(setting([4]), 0, "/nonexistent/qverif", exec_sim_check=dict(NO_CHECKS), pdf_mode="none",
                                                      is_computation_time_required=False)
            log = list(symrandom.DRAW_LOG)
            gen = [e for e in log if e[2] == "normal"]
            out["generation-draws"] = len(gen)
            out["from-the-sample's-stream"] = all(e[0][:2] == ("ss", ("root", 888)) for e in gen)
            out["per-sample"] = sorted({e[0][2] for e in gen if len(e[0]) > 2}) == list(range(n_sample))
            out["no-global"] = all(e[0][0] == "ss" for e in log)
            return out
        import numpy
        import shutil
        import tempfile
        import io
        import contextlib

        def once(global_seed):
            numpy.random.seed(global_seed)
            d = tempfile.mkdtemp(prefix="qverif_c15_")
            try:
                with contextlib.redirect_stdout(io.StringIO()), contextlib.redirect_stderr(io.StringIO()):
                    rs = flow.execute_simulation_test_setting_unit(setting([100]), 0, d, exec_sim_check=dict(NO_CHECKS), pdf_mode="none",
                                                                    is_computation_time_required=False)
                return [[numpy.round(v, 12).tolist() for v in stacked(W, r.simulation_setting.true_object)] for r in rs], \
                       [[[numpy.round(v, 12).tolist() for v in stacked(W, t)] for t in r.simulation_setting.tester_objects] for r in rs], \
                       [_plain(r.empi_dists_sequences) for r in rs]
            finally:
                shutil.rmtree(d, ignore_errors=True)
        a, b = once(1), once(2)
        out["generation-draws"] = 4 * n_sample
        out["from-the-sample's-stream"] = a[0] == b[0] and a[1] == b[1]
        out["per-sample"] = a[0][0] != a[0][-1] if n_sample > 1 else True
        out["no-global"] = a == b
        return out

    def post(self, W, cfg, inp, out):
        n_rep, n_sample = cfg
        return [eq("one-generation-call-per-noisy-object", out["generation-draws"], 4 * n_sample, "true object and three testers are generated once per sample"),
                eq("noise-of-true-object-and-testers-from-the-sample's-stream", out["from-the-sample's-stream"], True,
                   "every generation draw comes from a child of SeedSequence(seed_qoperation): true object AND testers are functions of the seed"),
                eq("each-sample-has-its-own-stream", out["per-sample"], True, "sample i draws from the i-th child"),
                eq("global-random-state-untouched", out["no-global"], True, "no draw comes from the global numpy state")]


# ------------------------------------------------------------------ the run's built-in physicality check

CHK = "quara.simulation.standard_qtomography_simulation_check"
PVC = "quara.data_analysis.physicality_violation_check"


class PhysicalityCheckOfARun(E2Contract):
    """execute_physicality_violation_check() is False exactly when some stored estimate violates, beyond the documented thresholds, a constraint its
    estimator was configured to enforce.  The verdicts of the single estimates are the objects' own (C01); what is proved is the selection and the
    conjunction: which constraint is looked at for which estimator configuration, at which threshold, over which estimates."""
    name = "built-in physicality check of a run"
    prop = "C15"
    targets = (CHK + ":StandardQTomographySimulationCheck.execute_physicality_violation_check", PVC + ":is_physical_qobjects_all",
               PVC + ":is_eq_constraint_satisfied_all", PVC + ":is_ineq_constraint_satisfied_all", PVC + ":calc_unphysical_qobjects_n",
               PVC + ":get_eq_const_eps", PVC + ":get_ineq_const_eps")
    frame = False
    n_conformance = 1
    max_paths = 256

    def configs(self, tier):
        out = [("projected-linear", True, None), ("projected-linear", False, None), ("linear", True, None), ("linear", False, None)]
        for eqf in (True, False):
            for ineqf in (True, False):
                out.append(("loss-minimisation", True, (eqf, ineqf)))
        out.append(("loss-minimisation", False, (True, False)))
        out.append(("loss-minimisation", True, "no-option"))
        # positivity-involving configurations with TWO sample sizes: the estimates of the second (last) size are fixed physical states, those of
        # the first symbolic - a violation at a non-last sample size must fail the check as well
        out.append(("loss-minimisation", True, (False, True), "two-sizes"))
        out.append(("projected-linear", True, None, "two-sizes"))
        return out

    def inputs(self, W, cfg, mk):
        est, para, flags = cfg[:3]
        nv = 3 if para else 4
        if len(cfg) > 3:
            vs = [[mk.array(f"v{r}0_", nv), W.np.zeros(nv, dtype=W.np.float64)] for r in range(2)]
            return dict(vs=vs, nk=2)
        # stored estimates (1-qubit states), all symbolic: two repetitions x two sample sizes where only equality verdicts are involved,
        # two repetitions x one sample size where positivity verdicts (two opaque eigenvalues each) are involved (path budget)
        heavy = est == "projected-linear" or (est == "loss-minimisation" and flags != "no-option" and flags[1])
        nk = 1 if heavy else 2
        vs = [[mk.array(f"v{r}{k}_", nv) for k in range(nk)] for r in range(2)]
        return dict(vs=vs, nk=nk)

    def sample(self, cfg, names, rng):
        import math
        est, para, flags = cfg[:3]
        vals = {}
        # estimates around the boundary of the physical set: Bloch radius 1/sqrt(2) +- delta with delta log-uniform in [1e-12, 1e-3] (minimum
        # eigenvalue about -+delta/sqrt(2): between, below and above the two documented thresholds), trace off by 0 / 1e-9 / 1e-4 with the flag off
        groups = sorted({n.rsplit("_", 1)[0] for n in names})
        for g in groups:
            comps = sorted(n for n in names if n.rsplit("_", 1)[0] == g)
            bloch = comps if para else comps[1:]
            d = [rng.gauss(0, 1) for _ in bloch]
            nd = math.sqrt(sum(x * x for x in d)) or 1.0
            delta = rng.choice([-1, 1, 1]) * 10 ** rng.uniform(-12, -3)
            radius = rng.choice([1 / math.sqrt(2) + delta, 1 / math.sqrt(2) + delta, 0.3, 0.0])
            for n, x in zip(bloch, d):
                vals[n] = radius * x / nd
            if not para:
                vals[comps[0]] = 1 / math.sqrt(2) + rng.choice([0.0, 0.0, 1e-9, 1e-4])
        return vals

    def run(self, W, cfg, inp):
        est, para, flags = cfg[:3]
        std = "quara.protocol.qtomography.standard."
        c_sys = make_csys(W, "1q")
        tmpl = W.mod("quara.objects.state").State(c_sys, W.np.array([1, 0, 0, 0], dtype=W.np.float64) / W.np.sqrt(2), is_physicality_required=False,
                                                  on_para_eq_constraint=para)
        sim = W.mod(SIM)
        if est == "projected-linear":
            estimator = W.mod(std + "projected_linear_estimator").ProjectedLinearEstimator()
            rcls = W.mod(std + "projected_linear_estimator").ProjectedLinearEstimationResult
        elif est == "linear":
            estimator = W.mod(std + "linear_estimator").LinearEstimator()
            rcls = W.mod(std + "linear_estimator").LinearEstimationResult
        else:
            estimator = W.mod(std + "loss_minimization_estimator").LossMinimizationEstimator()
            rcls = W.mod(std + "loss_minimization_estimator").LossMinimizationEstimationResult
        algo_option = None
        if est == "loss-minimisation" and flags != "no-option":
            pg = W.mod("quara.minimization_algorithm.projected_gradient_descent_backtracking")
            algo_option = pg.ProjectedGradientDescentBacktrackingOption(on_algo_eq_constraint=flags[0], on_algo_ineq_constraint=flags[1])
        results = [rcls(list(inp["vs"][r]), None, tmpl) for r in range(2)]
        setting = sim.StandardQTomographySimulationSetting(name="case", true_object=tmpl, tester_objects=[], estimator=estimator, seed_data=1, n_rep=2,
                                                           num_data=[10, 100][: inp["nk"]], schedules="all", eps_proj_physical=1e-13,
                                                           eps_truncate_imaginary_part=1e-13, algo_option=algo_option)
        sr = sim.SimulationResult(estimation_results=results, empi_dists_sequences=[], qtomography=None)
        sr.simulation_setting = setting
        chk = W.mod(CHK).StandardQTomographySimulationCheck(sr)
        verdict = chk.execute_physicality_violation_check(show_detail=False)
        # the reference: the objects' own verdicts at the documented thresholds, for the constraints this configuration enforces
        pvc = W.mod(PVC)
        eps_eq, eps_ineq = pvc.get_eq_const_eps(para), pvc.get_ineq_const_eps()
        objs = [tmpl.generate_from_var(W.np.copy(v)) for r in range(2) for v in inp["vs"][r]]
        if est == "projected-linear":
            need_eq, need_ineq = True, True
        elif est == "linear":
            need_eq, need_ineq = para, False
        elif flags == "no-option":
            need_eq, need_ineq = False, False
        else:
            need_eq, need_ineq = flags
        ok = True
        for o in objs:
            if need_eq:
                ok = ok and bool(o.is_eq_constraint_satisfied(eps_eq))
            if need_ineq:
                ok = ok and bool(o.is_ineq_constraint_satisfied(eps_ineq))
        return dict(verdict=bool(verdict), want=ok, thresholds=[eps_eq, eps_ineq])

    def post(self, W, cfg, inp, out):
        est, para, flags = cfg[:3]
        atol = W.mod("quara.settings").Settings.get_atol()
        return [eq("check-fails-iff-a-configured-constraint-is-violated", out["verdict"], out["want"],
                   "the check returns False exactly when some stored estimate (any repetition, any sample size) violates a constraint this estimator configuration enforces"),
                eq("documented-thresholds", out["thresholds"], [atol if para else 1e-5, 1e-5],
                   "equality threshold: the global atol with the constraint built in, 1e-5 otherwise; inequality threshold 1e-5")]


def _assume_physical(self, atol_eq_const=None, atol_ineq_const=None):
    return True


class DepolarizedTesters(E2Contract):
    """tester_typical.generate_tester_states_depolarized / generate_tester_povms_depolarized with one rate PER TESTER (symbolic rates in [0,1]) and
    with a common rate: tester k is the catalogued object mixed with the maximally mixed one in proportion rate[k]"""
    name = "depolarized testers"
    prop = "C15"
    targets = ("quara.objects.tester_typical:generate_tester_states_depolarized", "quara.objects.tester_typical:generate_tester_povms_depolarized")
    n_conformance = 1
    max_paths = 16
    frame = False

    def __init__(self):
        # physicality of a convex mixture of two physical objects is mathematics, not what this contract is about: the constructors' physicality
        # checks of the depolarised objects (eigenvalue comparisons in the symbolic rates: 2^18 paths) are assumed to pass
        self.stubs = {"quara.objects.gate:Gate.is_cp": _dep_is_cp_stub(), "quara.objects.qoperation:QOperation.is_physical": _assume_physical}

    def configs(self, tier):
        return [("1q", "list"), ("1q", "common")] + ([("1qt", "list")] if tier == "thorough" else [])

    NAMES = {"1q": (["x0", "y0", "z1"], ["x", "y", "z"]), "1qt": (["01z0", "12x1", "02y0"], ["01x3", "z3", "12y3"])}

    def inputs(self, W, cfg, mk):
        s, how = cfg
        rs = [mk.real(f"rate_s{k}") for k in range(3)]
        qs = [mk.real(f"rate_p{k}") for k in range(3)]
        for x in rs + qs:
            mk.require(x >= 0)
            mk.require(x <= 1)
        return dict(rs=rs, qs=qs)

    def sample(self, cfg, names, rng):
        return {n: rng.choice([0.0, 1.0, rng.uniform(0, 1), rng.uniform(0, 1)]) for n in names}

    def run(self, W, cfg, inp):
        s, how = cfg
        c_sys = make_csys(W, s)
        tt = W.mod("quara.objects.tester_typical")
        snames, pnames = self.NAMES[s]
        if how == "common":
            st = tt.generate_tester_states_depolarized(c_sys, snames, 0.25)
            pv = tt.generate_tester_povms_depolarized(c_sys, pnames, 0.125)
        else:
            st = tt.generate_tester_states_depolarized(c_sys, snames, list(inp["rs"]))
            pv = tt.generate_tester_povms_depolarized(c_sys, pnames, list(inp["qs"]))
        return dict(states=[x.vec for x in st], povms=[list(x.vecs) for x in pv])

    def post(self, W, cfg, inp, out):
        s, how = cfg
        np = W.np
        c_sys = make_csys(W, s)
        n = DIMS[s] ** 2
        snames, pnames = self.NAMES[s]
        stt, pvt = W.mod("quara.objects.state_typical"), W.mod("quara.objects.povm_typical")
        rs = [0.25] * 3 if how == "common" else inp["rs"]
        qs = [0.125] * 3 if how == "common" else inp["qs"]
        D = lambda p: np.diag(np.array([1] + [1 - p] * (n - 1)))
        want_s = [D(rs[k]) @ stt.generate_state_from_name(c_sys, nm).vec for k, nm in enumerate(snames)]
        want_p = [[D(qs[k]) @ v for v in pvt.generate_povm_from_name(nm, c_sys).vecs] for k, nm in enumerate(pnames)]
        return [eq("tester-state[k]==mixture-at-rate[k]", out["states"], want_s, "tester state k == (1 - r_k) catalogued state + r_k I/d"),
                eq("tester-povm[k]==mixture-at-rate[k]", out["povms"], want_p, "tester POVM k: every element E -> (1 - q_k) E + q_k Tr(E) I/d")]

    def canary(self, W, cfg, inp, out):
        return [eq("canary", out["states"][0][1:], 2 * out["states"][0][1:] + 1, "(false)")]


class SimulationSettingCopy(E2Contract):
    """StandardQTomographySimulationSetting.copy(): every field of the copy (the stored setting of every SimulationResult, from which runs are
    re-estimated) equals the field of the original - with pairwise different values in all scalar fields, so that no two can be exchanged"""
    name = "StandardQTomographySimulationSetting.copy"
    prop = "C15"
    targets = (SIM + ":StandardQTomographySimulationSetting.copy", SIM + ":StandardQTomographySimulationSetting.__init__")
    frame = False
    n_conformance = 1
    max_paths = 4

    def configs(self, tier):
        return ["linear", "loss-minimisation"]

    def inputs(self, W, cfg, mk):
        e1, e2 = mk.real("eps_proj"), mk.real("eps_imag")
        for e in (e1, e2):
            mk.require(e > 0)
            mk.require(e <= 1e-2)
        return dict(e1=e1, e2=e2)

    def sample(self, cfg, names, rng):
        return {"eps_proj": 10 ** rng.uniform(-14, -3), "eps_imag": 10 ** rng.uniform(-14, -3)}

    def run(self, W, cfg, inp):
        std = "quara.protocol.qtomography.standard."
        c_sys, states, povms = exact_testers(W, "1q", False)
        sim = W.mod(SIM)
        kw = {}
        if cfg == "linear":
            estimator = W.mod(std + "linear_estimator").LinearEstimator()
        else:
            estimator = W.mod(std + "loss_minimization_estimator").LossMinimizationEstimator()
            lm = W.mod("quara.loss_function.standard_qtomography_based_weighted_probability_based_squared_error")
            pg = W.mod("quara.minimization_algorithm.projected_gradient_descent_backtracking")
            kw = dict(loss=lm.StandardQTomographyBasedWeightedProbabilityBasedSquaredError(),
                      loss_option=lm.StandardQTomographyBasedWeightedProbabilityBasedSquaredErrorOption("identity"),
                      algo=pg.ProjectedGradientDescentBacktracking(), algo_option=pg.ProjectedGradientDescentBacktrackingOption(mu=0.5, gamma=0.25))
        s = sim.StandardQTomographySimulationSetting(name="case-A", true_object=states[1], tester_objects=list(povms), estimator=estimator, seed_data=77, n_rep=3,
                                                     num_data=[10, 200], schedules=[[("state", 0), ("povm", 1)], [("state", 0), ("povm", 0)]],
                                                     eps_proj_physical=inp["e1"], eps_truncate_imaginary_part=inp["e2"], **kw)
        c = s.copy()
        fields = lambda x: dict(name=x.name, seed_data=x.seed_data, n_rep=x.n_rep, num_data=list(x.num_data), schedules=[list(map(tuple, sch)) for sch in x.schedules],
                                eps_proj_physical=x.eps_proj_physical, eps_truncate_imaginary_part=x.eps_truncate_imaginary_part,
                                true_object=x.true_object.vec, testers=[list(t.vecs) for t in x.tester_objects], estimator=type(x.estimator).__name__,
                                loss=type(x.loss).__name__, algo=type(x.algo).__name__,
                                loss_option_mode=getattr(x.loss_option, "mode_weight", None),
                                algo_option=[getattr(x.algo_option, "mu", None), getattr(x.algo_option, "gamma", None)])
        return dict(orig=fields(s), copy=fields(c))

    def post(self, W, cfg, inp, out):
        cl = [eq(f"copy.{k}==original.{k}", out["copy"][k], out["orig"][k], f"field {k} of the copy equals the original's") for k in sorted(out["orig"])]
        cl.append(eq("original-keeps-its-thresholds", [out["orig"]["eps_proj_physical"], out["orig"]["eps_truncate_imaginary_part"]], [inp["e1"], inp["e2"]],
                     "the setting stores the two thresholds it was given, each in its own field"))
        return cl

    def canary(self, W, cfg, inp, out):
        return [eq("canary", out["copy"]["eps_proj_physical"], 2 * out["orig"]["eps_proj_physical"] + 1, "(false) the copy doubles the projection threshold and adds one")]

"""C11 loss minimisation (partial): jobs"""
from qverif.core.runner import Job

META = dict(
    level="other",
    trusted_base=["CPython ast", "z3 5.1.0", "cvc5 1.0.3 (fallback)", "E1 pyvc VC generator"],
    assumptions=["IEEE doubles treated as exact reals (in particular alpha = 0.5 * alpha never underflows)",
                 "assumed callee contract: self.func_proj is the nearest-point projection onto a closed convex set C (lands in C; variational inequality) -- C04/C05",
                 "assumed: C convex (instantiated at the iterates); the start point (var_start / origin object) lies in C -- C01",
                 "loss_function.value / gradient are arbitrary pure functions (same argument, same result)"],
    explanation=("Partial: the last sentence of C11 (along a backtracking run the loss never increases and every iterate is feasible) is proved as loop "
                 "invariants of the unmodified optimize() for all losses, convex sets, start points and iteration counts. Optimality of the returned point, "
                 "agreement with the CVXPY/SCS estimator and termination are not decided."),
    not_decided=["the returned estimate minimises the loss over the physical set up to stopping accuracy (needs convexity, Lipschitz gradients and a convergence theorem)",
                 "agreement between the backtracking and the CVXPY-backed estimators (external solver SCS)", "termination of the line search and of the outer loop"],
)


def job_armijo(n, seed=0, timeout_s=10.0):
    from qverif.pyvc.verify import verify
    from . import C11_e1 as C
    return verify(C.armijo_contract(n), f"C11/_is_doing_for_alpha[n={n}]", timeout_s=timeout_s, seed=seed)


def job_optimize(n, mode, mu_given, start_given, seed=0, timeout_s=10.0):
    from qverif.pyvc.verify import verify
    from . import C11_e1 as C
    return verify(C.optimize_contract(n, mode, mu_given, start_given), f"C11/optimize[n={n},{mode},mu={'given' if mu_given else 'default'},start={'given' if start_given else 'origin'}]",
                  timeout_s=timeout_s, seed=seed)


def jobs(tier, seed):
    from . import C11_e1 as C
    t = 30.0 if tier == "quick" else 90.0
    js = []
    dims = [1, 2, 3] if tier == "quick" else [1, 2, 3, 4]
    for n in dims:
        js.append(Job(f"C11/armijo/{n}", "contracts.C11:job_armijo", dict(n=n, seed=seed, timeout_s=t)))
        for mode in C.MODES:
            for mu_given in (True, False):
                for start_given in (True, False):
                    if tier == "quick" and n == 3 and not (mu_given and start_given):
                        continue
                    js.append(Job(f"C11/optimize/{n}/{mode}/{mu_given}/{start_given}", "contracts.C11:job_optimize",
                                  dict(n=n, mode=mode, mu_given=mu_given, start_given=start_given, seed=seed, timeout_s=t),
                                  timeout_s=(900.0 if tier == "quick" else 2400.0), weight=float(n)))
    from .C02 import e2_jobs
    js += e2_jobs("C11", ["contracts.C11_e2:LossMinimizationWiring", "contracts.C11_e2:LossValueAndGradient", "contracts.C11_e2:EntropyLossValueAndGradient",
                          "contracts.C11_e2:ProjectionInstalled"], tier, seed)
    # bounded stand-in (native floats) for where the optimisation ends
    parts = 3 if tier == "quick" else 12
    for part in range(parts):
        js.append(Job(f"C11/estimator-outcomes (instances)/{part}", "contracts.C11:native_estimators",
                      dict(prop="C11", tier=tier, seed=seed, part=part, parts=parts), timeout_s=1800.0))
    return js


def native_estimators(prop, **kw):
    """the native estimator stand-in decides clauses of C10 (projected linear) and C11 (loss minimisation): each check reports its own"""
    from . import C11_native as C
    return [r for r in C.job_estimators(**kw) if r.prop == prop]


CLAIM = {'engine': 'E1-pyvc', 'level': 'other',
 'text': 'PARTIAL. The last sentence of C11 is proved as loop invariants of the unmodified ProjectedGradientDescentBacktracking.optimize (VCs generated from its AST; loss, gradient and projection are uninterpreted functions constrained only by their assumed contracts): for every loss function, every closed convex set C with nearest-point projection, every start point in C, every mu > 0 (given or default), gamma > 0, every stopping mode and every iteration count, each iterate lies in C, loss(x_{k+1}) <= loss(x_k) <= loss(x_0), the step length stays in (0,1], and the returned value is the last iterate. _is_doing_for_alpha is proved to be exactly the Armijo test and used through that contract. The estimator wiring (every dataset of a sequence and every re-used object sees its own loss, constraint and algorithm) is proved with a probe optimiser, and the callee contracts the claim rests on (loss value / gradient of C12, installed projection of C10) are re-checked here. The two real-arithmetic lemmas used (descent direction from the variational inequality; sign of gamma*alpha*<y,g>) are discharged separately.',
 'note': 'NOT decided by proof: optimality of the returned point over the physical set, agreement with the CVXPY/SCS estimator, termination of either loop (no contract over one call states them; SCS is external). Bounded stand-in for those clauses (never counted as proved): on seeded one-qubit state / POVM / process tomography instances (interior and boundary true objects, exact data, 100 and 10000 shots, both parametrisations, squared-error and relative-entropy losses) the real estimator must return a physical estimate whose loss is not larger than at the true object, at the projected linear estimate, at physical points near the estimate and at the CVXPY / SCS solution of the same problem, and must return the true object from exact data. Vector length 1..3 (1..4 thorough) componentwise; floats as reals. Refuted obligations are replayed by a native search over concrete convex quadratic problems with box constraints on the real class.',
 'technique': 'contract-based deductive verification (AST->VC, loop invariants, uninterpreted callee contracts, z3/cvc5)'}

"""C12 loss functions: jobs"""
from .C02 import e2_jobs, META as _M

META = dict(_M)
CLASSES = ["contracts.C12_all:SquaredError", "contracts.C12_all:RelativeEntropy", "contracts.C12_all:EntropyHelpers", "contracts.C12_all:NonAffineModel", "contracts.C12_all:RoundVarz"]


def jobs(tier, seed):
    return e2_jobs("C12", CLASSES, tier, seed)

CLAIM = {'engine': 'E2-symtwin', 'level': 'proof',
 'text': 'The loss classes are configured through their public path with an arbitrary SYMBOLIC affine model (A, b), symbolic data, weights and variable point; gradient = d value / d var and Hessian = d gradient / d var are proved by symbolic differentiation of the executed code\'s own result (chain rule through log), value = the defining formula (weighted squared distance / weighted relative entropy), fast = generic for value and gradient, and every accepted weighting mode (identity, custom, inverse sample / unbiased covariance) is proved to reach the value with the specified weights, for 2..3 outcomes (up to 5 thorough); empirical distributions with exactly-zero entries are separate configurations (0 log 0 = 0); the generic classes are additionally run on a symbolic QUADRATIC model given through user-supplied probability / gradient / Hessian functions, so that the curvature term of the Hessian is exercised.',
 'note': 'all-inputs@config, away from the documented clipping thresholds (stated as requires). The single-fraction normal form limits relative-entropy configurations to 1-2 variables. inv of small symbolic matrices is the exact adjugate formula in the model. The loss classes assume equal outcome counts per schedule (size_prob_dist = rows / schedules): mixed outcome counts are outside their domain and not checked here. Floats as reals (a float-rounding defect in the inverse-covariance weights was found by the native conformance run and fixed).',
 'technique': 'contract-based deductive verification (symbolic execution of the real source -> VCs, exact normaliser + symbolic differentiation)'}

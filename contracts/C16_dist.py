"""C16 (E2 part): MultinomialDistribution bookkeeping and StateEnsemble indexing.

Regular regime (requires every p_k >= eps_zero, sum == 1 by parametrisation of the last entry) and
zero regimes (a chosen set Z of entries below the threshold) are verified separately: the regime is
fixed in `requires`, so the constructor's per-entry threshold tests do not fork."""
import itertools

from qverif.symtwin.verify import E2Contract, eq, true
from ._cfg import make_csys

MD = "quara.objects.multinomial_distribution"
EPS0 = 1e-8


def shapes(tier):
    if tier == "quick":
        vals = [1, 2, 3]
        out = [s for n in (1, 2, 3) for s in itertools.product(vals, repeat=n)]
        out += [(2, 1, 3, 2), (4, 2), (2, 4, 3)]
    else:
        vals = [1, 2, 3, 4, 5]
        out = [s for n in (1, 2, 3) for s in itertools.product(vals, repeat=n)]
        out += [s for s in itertools.product([1, 2, 3], repeat=4)]
    return [s for s in out if 2 <= _prod(s) <= 64]


def _prod(s):
    n = 1
    for x in s:
        n *= x
    return n


def sym_ps(W, mk, n, zero=()):
    """probability vector: entries outside `zero` are >= EPS0 and the last such entry is 1 - (sum of the others)"""
    np = W.np
    free = [k for k in range(n) if k not in zero]
    ps = np.zeros(n, dtype=np.float64)
    tot = 0
    for k in range(n):
        if k == free[-1]:
            continue
        ps[k] = mk.real(f"p_{k}")
        if k in zero:
            mk.require(ps[k] >= 0)
            mk.require(ps[k] * 2 <= EPS0)
        else:
            mk.require(ps[k] >= 2 * EPS0)
        tot = tot + ps[k]
    ps[free[-1]] = 1 - tot
    mk.require(ps[free[-1]] >= 2 * EPS0)
    return ps


def sample_ps(n, zero, rng):
    free = [k for k in range(n) if k not in zero]
    w = [rng.uniform(0.2, 1.0) for _ in free]
    z = {k: rng.uniform(0, EPS0 / 2.5) for k in zero}
    scale = (1 - sum(z.values())) / sum(w)
    vals = {}
    for k, x in zip(free, w):
        vals[f"p_{k}"] = x * scale
    for k in zero:
        vals[f"p_{k}"] = z[k]
    return vals


class DistRegular(E2Contract):
    name = "MultinomialDistribution"
    prop = "C16"
    targets = (MD + ":MultinomialDistribution.__init__", MD + ":MultinomialDistribution.marginalize",
               MD + ":MultinomialDistribution.conditionalize", MD + ":MultinomialDistribution.__getitem__",
               "quara.math.probability:validate_prob_dist", "quara.utils.index_util:index_serial_from_index_multi_dimensional")
    frame = False          # the constructor adopts (and may normalise) the array handed to it
    n_conformance = 2
    max_paths = 4

    def configs(self, tier):
        return shapes(tier)

    def inputs(self, W, cfg, mk):
        return dict(ps=sym_ps(W, mk, _prod(cfg)))

    def sample(self, cfg, names, rng):
        return sample_ps(_prod(cfg), (), rng)

    def run(self, W, cfg, inp):
        np = W.np
        MDc = W.mod(MD).MultinomialDistribution
        dist = MDc(np.copy(inp["ps"]), cfg)
        nv = len(cfg)
        out = dict(ps=dist.ps, shape=dist.shape, items={}, marg={}, cond={})
        for idx in itertools.product(*[range(s) for s in cfg]):
            out["items"][idx] = dist[idx]
        # marginals over every subset, given in ascending and in descending order
        for r in range(0, nv + 1):
            for keep in itertools.combinations(range(nv), r):
                if r == 0 and nv > 0:
                    continue
                for order in ({keep, tuple(reversed(keep))}):
                    m = dist.marginalize(list(order))
                    out["marg"][order] = (m.ps, m.shape)
        # conditionals on every non-empty proper subset, first / last assignment
        for r in range(1, nv):
            for cv0 in itertools.combinations(range(nv), r):
                for cv in {cv0, tuple(reversed(cv0))}:          # conditioning variables listed in either order
                    for vals in {tuple(0 for _ in cv), tuple(cfg[v] - 1 for v in cv), tuple((cfg[v] - 1) if i % 2 else 0 for i, v in enumerate(cv))}:
                        c = dist.conditionalize(list(cv), list(vals))
                        out["cond"][(cv, vals)] = (c.ps, c.shape)
        return out

    def post(self, W, cfg, inp, out):
        np = W.np
        ps = inp["ps"]
        nv = len(cfg)
        n = _prod(cfg)
        strides = [_prod(cfg[k + 1:]) for k in range(nv)]

        def at(idx):
            return ps[sum(i * s for i, s in zip(idx, strides))]
        all_idx = list(itertools.product(*[range(s) for s in cfg]))
        cl = [eq("constructor/regular-regime-keeps-ps", out["ps"], ps, "entries >= threshold: the distribution is stored unchanged"),
              eq("constructor/shape", list(out["shape"]), list(cfg), "shape is kept"),
              eq("getitem/row-major", [out["items"][i] for i in all_idx], [at(i) for i in all_idx],
                 "dist[(i0,..,ik)] is the row-major entry sum_j i_j * prod_{l>j} shape_l")]
        for order, (mps, mshape) in out["marg"].items():
            keep = tuple(sorted(order))
            exp_shape = tuple(cfg[k] for k in keep)
            vals = []
            for kidx in itertools.product(*[range(cfg[k]) for k in keep]):
                tot = 0
                for idx in all_idx:
                    if all(idx[k] == v for k, v in zip(keep, kidx)):
                        tot = tot + at(idx)
                vals.append(tot)
            tag = ",".join(map(str, order))
            cl.append(eq(f"marginal[{tag}]/sum-over-removed", mps, vals,
                         "marginal entry == sum over the removed variables (retained variables in ascending order)"))
            cl.append(eq(f"marginal[{tag}]/shape", list(mshape), list(exp_shape), "reported shape == sizes of the retained variables, consistent with the layout"))
            cl.append(eq(f"marginal[{tag}]/normalised", np.sum(mps), 1, "marginal sums to 1"))
        for (cv, vals), (cps, cshape) in out["cond"].items():
            rest = [k for k in range(nv) if k not in cv]
            sl = []
            for ridx in itertools.product(*[range(cfg[k]) for k in rest]):
                idx = [0] * nv
                for k, v in zip(cv, vals):
                    idx[k] = v
                for k, v in zip(rest, ridx):
                    idx[k] = v
                sl.append(at(idx))
            tot = 0
            for x in sl:
                tot = tot + x
            tag = ",".join(map(str, cv)) + "=" + ",".join(map(str, vals))
            cl.append(eq(f"conditional[{tag}]/renormalised-slice", cps, [x / tot for x in sl],
                         "conditional == slice / (sum of slice)"))
            cl.append(eq(f"conditional[{tag}]/joint=marginal*conditional", [c * tot for c in W.S.flat(cps)], sl,
                         "joint entry == marginal probability of the conditioning assignment * conditional entry"))
            cl.append(eq(f"conditional[{tag}]/shape", list(cshape), [cfg[k] for k in rest], "shape == sizes of the remaining variables"))
        return cl

    def canary(self, W, cfg, inp, out):
        return [eq("canary", out["ps"], inp["ps"] * 2, "(false) stored distribution is twice the input")]


class DistZeros(E2Contract):
    """entries below the documented threshold become exactly 0 and the rest are renormalised"""
    name = "MultinomialDistribution(zero regime)"
    prop = "C16"
    targets = (MD + ":MultinomialDistribution.__init__", MD + ":MultinomialDistribution.marginalize", MD + ":MultinomialDistribution.conditionalize")
    frame = False
    n_conformance = 2
    max_paths = 4

    def configs(self, tier):
        out = [((3,), (1,)), ((2, 2), (0, 3)), ((2, 3), (4,)), ((3, 2), (0, 1))]
        if tier == "thorough":
            out += [((2, 2, 2), (1, 6)), ((4,), (0, 1, 2)), ((2, 3), (0, 1, 2)), ((3, 3), (4,))]
        return out

    def inputs(self, W, cfg, mk):
        shape, zero = cfg
        return dict(ps=sym_ps(W, mk, _prod(shape), zero))

    def sample(self, cfg, names, rng):
        return sample_ps(_prod(cfg[0]), cfg[1], rng)

    def run(self, W, cfg, inp):
        shape, zero = cfg
        np = W.np
        dist = W.mod(MD).MultinomialDistribution(np.copy(inp["ps"]), shape)
        out = dict(ps=dist.ps, is_zero=dist.is_zero_dist)
        if len(shape) == 2:
            m0 = dist.marginalize([0])
            out["m0"] = m0.ps
        return out

    def post(self, W, cfg, inp, out):
        shape, zero = cfg
        np = W.np
        ps = inp["ps"]
        n = _prod(shape)
        tot = 0
        for k in range(n):
            if k not in zero:
                tot = tot + ps[k]
        exp = [0 if k in zero else ps[k] / tot for k in range(n)]
        cl = [eq("constructor/zeroed-and-renormalised", out["ps"], exp,
                 "sub-threshold entries are exactly 0, the others are p_k / (sum of the kept entries)"),
              eq("constructor/normalised", np.sum(out["ps"]), 1, "the stored distribution sums to 1"),
              eq("constructor/is_zero_dist", out["is_zero"], False, "not the zero distribution")]
        if len(shape) == 2:
            rows = [sum((exp[i * shape[1] + j] for j in range(shape[1])), 0 * ps[0]) for i in range(shape[0])]
            cl.append(eq("marginal-after-zeroing", out["m0"], rows, "marginal of the stored (zeroed, renormalised) table"))
        return cl


class EnsembleLayout(E2Contract):
    """ensembles produced by one or two measurements index states and probabilities with the same row-major layout"""
    name = "StateEnsemble layout"
    prop = "C16"
    targets = ("quara.objects.state_ensemble:StateEnsemble.state", "quara.objects.operators:_compose_qoperations_MProcess_StateEnsemble",
               "quara.objects.operators:_compose_qoperations_MProcess_State", "quara.objects.operators:_compose_qoperations_Povm_MProcess")
    frame = False
    max_paths = 16
    n_conformance = 1

    def configs(self, tier):
        return [(2,), (3,), (2, 3), (3, 2)] + ([(4,), (2, 4), (4, 3)] if tier == "thorough" else [])

    def inputs(self, W, cfg, mk):
        from .C06_all import param_obj, spec_chain, EPS
        from ._cfg import stacked
        c_sys = make_csys(W, "1q")
        st = param_obj(W, mk, "state", c_sys, 0, "s")
        mps = [param_obj(W, mk, "mprocess", c_sys, m, f"m{i}_") for i, m in enumerate(cfg)]
        chain = [("mprocess", stacked(W, mp)) for mp in reversed(mps)] + [("state", [st.vec])]
        for j in range(len(chain) - 1):
            kind, ref = spec_chain(W, c_sys, chain[j:])
            for idx, v in ref.items():
                mk.require(v[0] >= 2 * EPS)
        kind, ref = spec_chain(W, c_sys, chain)
        pv = param_obj(W, mk, "povm", c_sys, 2, "e")
        kind2, joint = spec_chain(W, c_sys, [("povm", list(pv.vecs))] + chain)
        for idx, v in joint.items():
            mk.require(v >= 2 * EPS)
        return dict(st=st, mps=mps, ref=ref, pv=pv, joint=joint)

    def sample(self, cfg, names, rng):
        import math
        vals = {n: rng.uniform(-0.05, 0.05) for n in names}
        for i, m in enumerate(cfg):
            for x in range(m - 1):
                vals[f"m{i}__{x * 16}"] = 1.0 / m + rng.uniform(-0.03, 0.03)
        vals["e_0"] = math.sqrt(2) / 2 + rng.uniform(-0.03, 0.03)
        return vals

    def run(self, W, cfg, inp):
        ops = W.mod("quara.objects.operators")
        r = inp["st"]
        for mp in inp["mps"]:
            r = ops.compose_qoperations(mp, r)
        idxs = list(itertools.product(*[range(m) for m in cfg]))
        out = dict(shape=list(r.prob_dist.shape), by_tuple=[r.state(i).vec for i in idxs], by_serial=[r.state(k).vec for k in range(len(idxs))],
                   p_tuple=[r.prob_dist[i] for i in idxs], p_serial=[r.prob_dist[k] for k in range(len(idxs))])
        jd = ops.compose_qoperations(inp["pv"], r)
        out["povm_joint"] = [jd[i + (y,)] for i in idxs for y in range(2)]
        out["povm_joint_shape"] = list(jd.shape)
        out["povm_marginal"] = list(jd.marginalize(list(range(len(cfg)))).ps)
        if len(cfg) == 1:
            # the POVM composed with the measurement process FIRST (a composite POVM), then measured on the state: same joint, same layout
            cp = ops.compose_qoperations(inp["pv"], inp["mps"][0])
            out["composite_povm_ps"] = list(ops.compose_qoperations(cp, inp["st"]).ps.flatten())
            out["composite_povm_num_outcomes"] = len(cp.vecs)
        if len(cfg) > 1:
            # the same measurements composed into ONE measurement process (multi-index outcome shape) first, then applied to the state
            mp_all = inp["mps"][0]
            for mp in inp["mps"][1:]:
                mp_all = ops.compose_qoperations(mp, mp_all)
            r2 = ops.compose_qoperations(mp_all, inp["st"])
            out["joint_shape"] = list(r2.prob_dist.shape)
            out["joint_by_tuple"] = [r2.state(i).vec for i in idxs]
            out["joint_p_tuple"] = [r2.prob_dist[i] for i in idxs]
        return out

    def post(self, W, cfg, inp, out):
        S = W.S
        c_sys = inp["st"].composite_system
        ref = inp["ref"]
        idxs = list(itertools.product(*[range(m) for m in cfg]))
        cl = [eq("shape", out["shape"], list(cfg), "outcome shape == outcome counts in time order (earlier measurement first)"),
              eq("state(tuple)==state(serial)", out["by_tuple"], out["by_serial"], "multi-index and serial index address the same state (row-major)"),
              eq("prob(tuple)==prob(serial)", out["p_tuple"], out["p_serial"], "multi-index and serial index address the same probability"),
              eq("probabilities", out["p_tuple"], [ref[i][0] for i in idxs], "probability of outcome (x1,..) == Tr of the branch operator")]
        for k, i in enumerate(idxs):
            cl.append(eq(f"state[{i}]", S.op_from_vec(c_sys, out["by_tuple"][k]) * ref[i][0], ref[i][1],
                         "state(x1,..) is the post-measurement state of exactly that outcome sequence"))
        cl += [eq("povm-on-ensemble/shape", out["povm_joint_shape"], list(cfg) + [2], "a POVM measured on the ensemble: outcome shape = ensemble shape + POVM outcomes"),
               eq("povm-on-ensemble/joint", out["povm_joint"], [inp["joint"][i + (y,)] for i in idxs for y in range(2)],
                  "joint[(x.., y)] == P(x..) * P(y | x..) == Tr(E_y branch operator of x..)"),
               eq("povm-on-ensemble/marginal==ensemble-distribution", out["povm_marginal"], [ref[i][0] for i in idxs],
                  "summing out the POVM outcome gives back the ensemble's distribution, outcome by outcome")]
        if "composite_povm_ps" in out:
            cl += [eq("composite-povm/outcome-count", out["composite_povm_num_outcomes"], cfg[0] * 2, "POVM o measurement process is a POVM with (process outcomes) x (POVM outcomes) elements"),
                   eq("composite-povm/joint-row-major", out["composite_povm_ps"], [inp["joint"][i + (y,)] for i in idxs for y in range(2)],
                      "its elements are laid out row-major as (process outcome, POVM outcome): the same joint as measuring the POVM on the ensemble")]
        if "joint_shape" in out:
            cl += [eq("joint-process/shape", out["joint_shape"], list(cfg), "a multi-outcome measurement process applied to a state keeps its outcome shape"),
                   eq("joint-process/probabilities", out["joint_p_tuple"], [ref[i][0] for i in idxs], "and addresses the same probabilities by tuple"),
                   eq("joint-process/states", [S.op_from_vec(c_sys, v) * ref[i][0] for v, i in zip(out["joint_by_tuple"], idxs)], [ref[i][1] for i in idxs],
                      "and the same post-measurement states")]
        return cl


class ValidateProbDist(E2Contract):
    """math.probability.validate_prob_dist: accepted <=> every entry >= -eps and (when the sum is validated) |sum - 1| <= eps, with eps an ABSOLUTE
    tolerance (1e-8 by default); rejected inputs raise ValueError"""
    name = "validate_prob_dist"
    prop = "C16"
    targets = ("quara.math.probability:validate_prob_dist",)
    may_raise = True
    max_paths = 800
    n_conformance = 2

    def configs(self, tier):
        return [(2, True, "eps"), (3, True, "default"), (3, False, "eps")] + ([(5, True, "eps")] if tier == "thorough" else [])

    def inputs(self, W, cfg, mk):
        n, vs, how = cfg
        eps = mk.real("eps")
        mk.require(eps >= 1e-12)
        mk.require(eps <= 1e-2)
        return dict(p=mk.array("p", n), eps=eps)

    def sample(self, cfg, names, rng):
        n = cfg[0]
        w = [rng.uniform(0.05, 1) for _ in range(n)]
        tot = sum(w)
        off = rng.choice([0.0, 1e-9, -1e-9, 3e-7, -3e-7, 1e-6, 1e-4, 0.1])
        vals = {f"p_{k}": w[k] / tot for k in range(n)}
        vals["p_0"] += off
        if rng.random() < 0.3:
            vals[f"p_{n - 1}"] -= rng.choice([1e-9, 1e-6, 0.2])
        vals["eps"] = 10 ** rng.uniform(-12, -2)
        return vals

    def run(self, W, cfg, inp):
        n, vs, how = cfg
        f = W.mod("quara.math.probability").validate_prob_dist
        if how == "default":
            f(inp["p"], validate_sum=vs)
        else:
            f(inp["p"], eps=inp["eps"], validate_sum=vs)
        return "accepted"

    def post(self, W, cfg, inp, out):
        from qverif.symtwin.verify import Raised
        n, vs, how = cfg
        S = W.S
        eps = 1e-8 if how == "default" else inp["eps"]
        tot = inp["p"][0]
        for k in range(1, n):
            tot = tot + inp["p"][k]
        ok = S.And(*[inp["p"][k] >= -eps for k in range(n)])
        if vs:
            ok = S.And(ok, S.abs(tot - 1) <= eps)
        if isinstance(out, Raised):
            return [true("accepts-iff-valid", S.And(out.name == "ValueError", S.Not(ok)), "a ValueError is raised => an entry is below -eps or the sum is further than eps from 1")]
        return [true("accepts-iff-valid", ok, "accepted => every entry >= -eps and |sum - 1| <= eps (absolute tolerance)")]


class EnsembleTensorProduct(E2Contract):
    """tensor_product of two state ensembles on different subsystems, with different numbers of members: shape = shape1 + shape2, and the entry
    addressed by (x1, x2) is the product probability p1[x1] p2[x2] together with the product state state1(x1) (x) state2(x2)"""
    name = "tensor_product(StateEnsemble, StateEnsemble)"
    prop = "C16"
    targets = ("quara.objects.operators:_tensor_product_StateEnsemble_StateEnsemble", "quara.objects.state_ensemble:StateEnsemble.state",
               "quara.objects.multinomial_distribution:MultinomialDistribution.__getitem__")
    frame = False
    n_conformance = 1
    max_paths = 16

    def configs(self, tier):
        return [(2, 3), (3, 2)]

    def inputs(self, W, cfg, mk):
        ps = []
        for k, m in enumerate(cfg):
            p = mk.array(f"p{k}_", m)
            tot = 0
            for x in range(m - 1):
                mk.require(p[x] >= 1e-3)
                tot = tot + p[x]
            p[m - 1] = 1 - tot
            mk.require(p[m - 1] >= 1e-3)
            ps.append(p)
        vecs = [[mk.array(f"s{k}_{x}_", 4) for x in range(m)] for k, m in enumerate(cfg)]
        return dict(ps=ps, vecs=vecs)

    def sample(self, cfg, names, rng):
        vals = {n: rng.uniform(-0.3, 0.3) for n in names}
        for k, m in enumerate(cfg):
            w = [rng.uniform(0.2, 1) for _ in range(m)]
            for x in range(m - 1):
                vals[f"p{k}__{x}"] = w[x] / sum(w)
        return vals

    def _ensembles(self, W, inp, cfg):
        from .C07_all import esys, single
        MDc = W.mod(MD).MultinomialDistribution
        st = W.mod("quara.objects.state")
        se = W.mod("quara.objects.state_ensemble")
        out = []
        for k, m in enumerate(cfg):
            c = single(W, esys(W, k, 2))
            states = [st.State(c, W.np.copy(v), is_physicality_required=False) for v in inp["vecs"][k]]
            out.append(se.StateEnsemble(states, MDc(W.np.copy(inp["ps"][k]), (m,))))
        return out

    def run(self, W, cfg, inp):
        e1, e2 = self._ensembles(W, inp, cfg)
        r = W.mod("quara.objects.operators").tensor_product(e1, e2)
        idxs = list(itertools.product(range(cfg[0]), range(cfg[1])))
        return dict(shape=list(r.prob_dist.shape), p=[r.prob_dist[i] for i in idxs], states=[r.state(i).vec for i in idxs],
                    marg0=list(r.prob_dist.marginalize([0]).ps), marg1=list(r.prob_dist.marginalize([1]).ps))

    def post(self, W, cfg, inp, out):
        np = W.np
        idxs = list(itertools.product(range(cfg[0]), range(cfg[1])))
        return [eq("shape", out["shape"], list(cfg), "outcome shape == shape of the first ensemble + shape of the second"),
                eq("product-probabilities", out["p"], [inp["ps"][0][i] * inp["ps"][1][j] for i, j in idxs], "prob_dist[(x1, x2)] == p1[x1] * p2[x2]"),
                eq("product-states", out["states"], [np.kron(inp["vecs"][0][i], inp["vecs"][1][j]) for i, j in idxs],
                   "state((x1, x2)) == state1(x1) (x) state2(x2) (subsystems in ascending name order)"),
                eq("marginals", [out["marg0"], out["marg1"]], [list(inp["ps"][0]), list(inp["ps"][1])], "each ensemble's distribution is the marginal over the other's variables")]


class LegacyProbDist(E2Contract):
    """quara.objects.prob_dist.ProbDist (the small predecessor of MultinomialDistribution, still importable): tuple access is row-major in the
    reported shape and agrees with serial access"""
    name = "ProbDist.__getitem__"
    prop = "C16"
    targets = ("quara.objects.prob_dist:ProbDist.__getitem__",)
    frame = True
    n_conformance = 1
    max_paths = 4

    def configs(self, tier):
        return [(2, 3), (3, 2), (2, 3, 2)]

    def inputs(self, W, cfg, mk):
        return dict(ps=mk.array("p", _prod(cfg)))

    def run(self, W, cfg, inp):
        pd = W.mod("quara.objects.prob_dist").ProbDist(inp["ps"], tuple(cfg))
        idxs = list(itertools.product(*[range(s) for s in cfg]))
        return dict(by_tuple=[pd[i] for i in idxs], by_serial=[pd[k] for k in range(len(idxs))], shape=list(pd.shape))

    def post(self, W, cfg, inp, out):
        return [eq("tuple==row-major-position", out["by_tuple"], list(inp["ps"]), "prob_dist[(x1..xn)] == ps[row-major position of (x1..xn) in shape]"),
                eq("serial", out["by_serial"], list(inp["ps"]), "prob_dist[k] == ps[k]"),
                eq("shape", out["shape"], list(cfg), "the shape is the one given")]


from .C06_all import ZeroProbabilityBranch as _ZeroBranch


class JointWithImpossibleOutcomeUnderC16(_ZeroBranch):
    """joint distributions when an outcome has probability zero (the truncate-and-renormalise branch): each block P(x1) P(x2 | x1) keeps its weight
    P(x1); a POVM measured afterwards gets a zero row - C06's contract, re-checked under C16"""
    prop = "C16"

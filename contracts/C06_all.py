"""C06: composition implements quantum mechanics and is associative.

Operands are symbolic (all real parameters) objects on the equality-constraint set by parametrisation
(so distributions are normalised identically); the regular regime p >= 2*eps_zero of every
intermediate probability is a `requires` (stated through the spec's own Born probabilities), the
truncation regime is covered separately.  Outcome counts per factor are pairwise different."""
import itertools

from qverif.symtwin.verify import E2Contract, eq, true, Raised
from ._cfg import make_csys, DIMS, stacked
from .C03_e2 import n_var, empty_obj

OPS = "quara.objects.operators"
EPS = 1e-8


def param_obj(W, mk, kind, c_sys, m, name):
    """object on its equality-constraint set, built from symbolic variables (flag on)"""
    tmpl = empty_obj(W, kind, c_sys, m, True)
    var = mk.array(name, n_var(kind, c_sys.dim, m, True))
    return tmpl.generate_from_var(var)


def spec_chain(W, c_sys, chain):
    """independent reference semantics of a time-ordered chain (LAST element acts first).
    chain: list of (kind, arrays) with arrays = object's defining arrays. Returns
    ('dist', probs dict multi-index -> p)  or ('ens', {multi-index: (p, unnormalised operator)})"""
    S = W.S
    branches = {(): None}     # outcome multi-index (earlier measurement first) -> unnormalised operator
    for kind, arrs in reversed(chain):
        new = {}
        if kind == "state":
            new[()] = S.op_from_vec(c_sys, arrs[0])
        elif kind == "gate":
            for idx, op in branches.items():
                new[idx] = S.apply_hs(c_sys, arrs[0], op)
        elif kind == "mprocess":
            for idx, op in branches.items():
                for x, hs in enumerate(arrs):
                    new[idx + (x,)] = S.apply_hs(c_sys, hs, op)
        elif kind == "povm":
            probs = {}
            for idx, op in branches.items():
                for x, v in enumerate(arrs):
                    probs[idx + (x,)] = S.trace(S.op_from_vec(c_sys, v) @ op).real
            return "dist", probs
        branches = new
    return "ens", {idx: (S.trace(op).real, op) for idx, op in branches.items()}


def serial(idx_map, counts):
    """flatten dict multi-index -> value in row-major order of `counts`"""
    return [idx_map[idx] for idx in itertools.product(*[range(c) for c in counts])]


class PairwiseFormulas(E2Contract):
    name = "compose(pair)"
    prop = "C06"
    targets = (OPS + ":_compose_qoperations", OPS + ":compose_qoperations", OPS + ":_compose_qoperations_MProcess_State",
               OPS + ":_compose_qoperations_MProcess_State_for_States", OPS + ":_compose_qoperations_Povm_MProcess",
               OPS + ":_compose_qoperations_MProcess_MProcess", "quara.objects.mprocess:MProcess.to_povm",
               "quara.utils.matrix_util:truncate_and_normalize")
    frame = True
    max_paths = 16

    PAIRS = [("gate", 0, "state", 0), ("povm", 2, "state", 0), ("povm", 3, "state", 0), ("povm", 2, "gate", 0),
             ("povm", 2, "mprocess", 3), ("mprocess", 2, "state", 0), ("mprocess", 3, "state", 0),
             ("gate", 0, "gate", 0), ("gate", 0, "mprocess", 2), ("mprocess", 2, "gate", 0), ("mprocess", 2, "mprocess", 3)]

    def configs(self, tier):
        out = [("1q",) + p for p in self.PAIRS]
        if tier == "thorough":
            out += [("1qt",) + p for p in self.PAIRS if p[1] <= 2 and p[3] <= 2]
        return out

    def inputs(self, W, cfg, mk):
        s, k1, m1, k2, m2 = cfg
        c_sys = make_csys(W, s)
        a = param_obj(W, mk, k1, c_sys, m1, "a")
        b = param_obj(W, mk, k2, c_sys, m2, "b")
        inp = dict(a=a, b=b)
        # a symbolic probe state / effect to observe operator-valued results through statistics
        d = c_sys.dim
        inp["rho"] = mk.array("rho", d * d)
        inp["eff"] = mk.array("eff", d * d)
        # regular regime of every probability the code thresholds
        if k2 == "state" and k1 in ("povm", "mprocess"):
            kind, res = spec_chain(W, c_sys, [(k1, stacked(W, a)), (k2, stacked(W, b))])
            for idx, v in res.items():
                p = v if kind == "dist" else v[0]
                mk.require(p >= 2 * EPS)
        return inp

    def sample(self, cfg, names, rng):
        # near the maximally mixed point so that probabilities are positive
        import math
        s, k1, m1, k2, m2 = cfg
        d = DIMS[s]
        vals = {n: rng.uniform(-0.08, 0.08) for n in names}
        for pre, kind, m in (("a", k1, m1), ("b", k2, m2)):
            if kind == "povm":
                for x in range(m - 1):
                    vals[f"{pre}_{x * d * d}"] = math.sqrt(d) / m + rng.uniform(-0.05, 0.05)
            if kind == "mprocess":
                for x in range(m):
                    if f"{pre}_{x * d ** 4}" in vals and x < m - 1:
                        vals[f"{pre}_{x * d ** 4}"] = 1.0 / m + rng.uniform(-0.05, 0.05)
        return vals

    def run(self, W, cfg, inp):
        ops = W.mod(OPS)
        r = ops.compose_qoperations(inp["a"], inp["b"])
        t = type(r).__name__
        if t == "MultinomialDistribution":
            return dict(type=t, ps=r.ps, shape=list(r.shape))
        if t == "StateEnsemble":
            return dict(type=t, ps=r.prob_dist.ps, shape=list(r.prob_dist.shape), states=[x.vec for x in r.states],
                        by_index=[r.state(idx).vec for idx in itertools.product(*[range(n) for n in r.prob_dist.shape])],
                        povm=[v for v in inp["a"].to_povm().vecs])
        out = dict(type=t, arrays=stacked(W, r))
        if t == "MProcess":
            out["shape"] = list(r.shape)
        if t == "Povm":
            out["nums_local_outcomes"] = list(r.nums_local_outcomes)
        return out

    def post(self, W, cfg, inp, out):
        s, k1, m1, k2, m2 = cfg
        S = W.S
        np = W.np
        a, b = inp["a"], inp["b"]
        c_sys = a.composite_system
        d = c_sys.dim
        A, B = stacked(W, a), stacked(W, b)
        rho = S.op_from_vec(c_sys, inp["rho"])
        eff = S.op_from_vec(c_sys, inp["eff"])
        cl = []
        if k2 == "state":
            kind, ref = spec_chain(W, c_sys, [(k1, A), (k2, B)])
            if k1 == "gate":
                cl.append(eq("gate-on-state", S.op_from_vec(c_sys, out["arrays"][0]), ref[()][1],
                             "Gate o State denotes Lambda(rho) (the HS action; Kraus form via C02 to_hs_from_kraus_matrices)"))
            elif k1 == "povm":
                cl.append(eq("born-rule", out["ps"], serial(ref, [m1]), "Povm o State == (Tr M_x rho)_x in element order"))
                cl.append(eq("born-rule/shape", out["shape"], [m1], "one outcome variable with m values"))
                cl.append(eq("born-rule/normalised", np.sum(out["ps"]), 1, "probabilities sum to one"))
            else:
                ps = serial({k: v[0] for k, v in ref.items()}, [m1])
                cl.append(eq("mprocess-on-state/probabilities", out["ps"], ps, "p_x == Tr Lambda_x(rho)"))
                cl.append(eq("mprocess-on-state/shape", out["shape"], [m1], "outcome shape of the ensemble == MProcess shape"))
                for x in range(m1):
                    cl.append(eq(f"mprocess-on-state/post-state[{x}]", S.op_from_vec(c_sys, out["states"][x]) * ps[x], ref[(x,)][1],
                                 "post-measurement state x == Lambda_x(rho) / p_x"))
                cl.append(eq("mprocess-on-state/state(index)", out["by_index"], out["states"], "StateEnsemble.state(multi-index) uses the same layout as its prob_dist"))
                born = [S.trace(S.op_from_vec(c_sys, v) @ S.op_from_vec(c_sys, B[0])).real for v in out["povm"]]
                cl.append(eq("mprocess-on-state/consistent-with-to_povm", out["ps"], born, "p_x == Tr(to_povm()_x rho)"))
        elif k1 == "povm" and k2 == "gate":
            for x in range(m1):
                lhs = S.trace(S.op_from_vec(c_sys, out["arrays"][x]) @ rho)
                rhs = S.trace(S.op_from_vec(c_sys, A[x]) @ S.apply_hs(c_sys, B[0], rho))
                cl.append(eq(f"heisenberg[{x}]", lhs, rhs, "Tr((Povm o Gate)_x rho) == Tr(M_x Lambda(rho)) for every rho"))
        elif k1 == "povm" and k2 == "mprocess":
            for y in range(m2):
                for x in range(m1):
                    lhs = S.trace(S.op_from_vec(c_sys, out["arrays"][y * m1 + x]) @ rho)
                    rhs = S.trace(S.op_from_vec(c_sys, A[x]) @ S.apply_hs(c_sys, B[y], rho))
                    cl.append(eq(f"heisenberg[{y},{x}]", lhs, rhs,
                                 "element (y,x) of Povm o MProcess (earlier outcome first) satisfies Tr(. rho) == Tr(M_x Lambda_y(rho))"))
        else:
            # channel-valued results: compare the action on a probe operator, outcome by outcome (earlier measurement first)
            counts = ([m2] if k2 == "mprocess" else []) + ([m1] if k1 == "mprocess" else [])
            for pos, idx in enumerate(itertools.product(*[range(c) for c in counts])):
                it = iter(idx)
                hb = B[next(it)] if k2 == "mprocess" else B[0]
                ha = A[next(it)] if k1 == "mprocess" else A[0]
                lhs = S.apply_hs(c_sys, out["arrays"][pos], rho)
                rhs = S.apply_hs(c_sys, ha, S.apply_hs(c_sys, hb, rho))
                cl.append(eq(f"compose-maps[{idx}]", lhs, rhs, "(A o B)_outcome(rho) == A(B(rho)), outcomes laid out earlier-measurement-first"))
            if "shape" in out:
                cl.append(eq("compose-maps/shape", out["shape"], counts, "reported outcome shape == (earlier, later) outcome counts"))
        return cl

    def canary(self, W, cfg, inp, out):
        if "ps" in out:
            return [eq("canary", out["ps"], [2 * p for p in W.S.flat(out["ps"])], "(false) probabilities doubled")]
        return [eq("canary", out["arrays"][0], 2 * out["arrays"][0] + 1, "(false)")]


def chains(maxlen):
    """type-valid chains (time order right-to-left) ending in a state, over distinct outcome counts"""
    out = []
    mids = [("gate", 0), ("mprocess", 2), ("mprocess", 3)]
    for n_mid in range(1, maxlen - 1):
        for mid in itertools.product(mids, repeat=n_mid):
            if sum(1 for k, _ in mid if k == "mprocess") == 0 and n_mid > 1:
                continue
            cnts = [m for k, m in mid if k == "mprocess"]
            if len(cnts) != len(set(cnts)):
                continue
            for head in ([("povm", 4)] + ([("none", 0)] if any(k == "mprocess" for k, _ in mid) else [])):
                ch = ([head] if head[0] != "none" else []) + list(mid) + [("state", 0)]
                if len(ch) <= maxlen and len(ch) >= 3:
                    out.append(tuple(ch))
    return out


def bracketings(n):
    """all full binary bracketings of n leaves as nested tuples of leaf indices"""
    if n == 1:
        return [0]

    def rec(lo, hi):
        if hi - lo == 1:
            return [lo]
        res = []
        for mid in range(lo + 1, hi):
            for l in rec(lo, mid):
                for r in rec(mid, hi):
                    res.append((l, r))
        return res
    return rec(0, n)


class Associativity(E2Contract):
    name = "compose(chain, all bracketings)"
    prop = "C06"
    targets = (OPS + ":compose_qoperations", OPS + ":_compose_qoperations", OPS + ":_compose_qoperations_MProcess_StateEnsemble",
               OPS + ":_compose_qoperations_Povm_StateEnsemble", OPS + ":_compose_qoperations_MProcess_MProcess",
               OPS + ":_compose_qoperations_Povm_MProcess")
    frame = False
    max_paths = 64
    n_conformance = 1

    def configs(self, tier):
        chs = chains(4 if tier == "quick" else 5)
        if tier == "quick":
            chs = [c for c in chs if len(c) <= 4]
            # a gate applied after two measurement processes of different outcome counts (the multi-index shape must survive the gate)
            chs.append((("gate", 0), ("mprocess", 3), ("mprocess", 2), ("state", 0)))
        return [("1q", c) for c in chs]

    def inputs(self, W, cfg, mk):
        s, chain = cfg
        c_sys = make_csys(W, s)
        objs = [param_obj(W, mk, k, c_sys, m, f"o{i}_") for i, (k, m) in enumerate(chain)]
        kind, ref = spec_chain(W, c_sys, [(k, stacked(W, o)) for (k, m), o in zip(chain, objs)])
        # regular regime for the final and every intermediate probability
        for j in range(len(chain) - 1):
            sub = chain[j:]
            if sub[0][0] in ("mprocess", "povm"):
                kk, rr = spec_chain(W, c_sys, [(k, stacked(W, o)) for (k, m), o in zip(sub, objs[j:])])
                for idx, v in rr.items():
                    mk.require((v if kk == "dist" else v[0]) >= 2 * EPS)
        return dict(objs=objs)

    def sample(self, cfg, names, rng):
        import math
        s, chain = cfg
        d = DIMS[s]
        vals = {n: rng.uniform(-0.05, 0.05) for n in names}
        for i, (kind, m) in enumerate(chain):
            pre = f"o{i}_"
            if kind == "povm":
                for x in range(m - 1):
                    vals[f"{pre}_{x * d * d}"] = math.sqrt(d) / m + rng.uniform(-0.03, 0.03)
            if kind == "mprocess":
                for x in range(m - 1):
                    vals[f"{pre}_{x * d ** 4}"] = 1.0 / m + rng.uniform(-0.03, 0.03)
            if kind == "gate":
                for k in range(d * d - 1):
                    vals[f"{pre}_{k * d * d + k + 1}"] = 0.6 + rng.uniform(-0.05, 0.05)
        return vals

    def run(self, W, cfg, inp):
        ops = W.mod(OPS)
        objs = inp["objs"]

        def ev(tree):
            if isinstance(tree, int):
                return objs[tree]
            return ops.compose_qoperations(ev(tree[0]), ev(tree[1]))
        res = []
        for br in bracketings(len(objs)):
            try:
                r = ev(br)
            except TypeError as e:
                if "Unsupported type combination" in str(e):
                    res.append(("unsupported", str(br)))
                    continue
                raise
            t = type(r).__name__
            if t == "MultinomialDistribution":
                res.append(("dist", str(br), r.ps, list(r.shape)))
            elif t == "StateEnsemble":
                res.append(("ens", str(br), r.prob_dist.ps, list(r.prob_dist.shape), [x.vec for x in r.states]))
            else:
                res.append(("other", str(br), t))
        res.append(("flat", "compose_qoperations(*chain)",) + self._flat(ops.compose_qoperations(*objs)))
        return res

    @staticmethod
    def _flat(r):
        t = type(r).__name__
        if t == "MultinomialDistribution":
            return (r.ps, list(r.shape))
        return (r.prob_dist.ps, list(r.prob_dist.shape), [x.vec for x in r.states])

    def post(self, W, cfg, inp, out):
        s, chain = cfg
        S = W.S
        objs = inp["objs"]
        c_sys = objs[0].composite_system
        kind, ref = spec_chain(W, c_sys, [(k, stacked(W, o)) for (k, m), o in zip(chain, objs)])
        counts = [m for k, m in reversed(chain) if k in ("mprocess", "povm")]
        ps_ref = serial({k: (v if kind == "dist" else v[0]) for k, v in ref.items()}, counts)
        cl = []
        n_supported = 0
        for r in out:
            tag = r[1]
            if r[0] == "unsupported":
                continue
            n_supported += 1
            cl.append(eq(f"statistics[{tag}]", r[2], ps_ref,
                         "outcome probabilities == the chain's Born statistics, serial order = earlier measurement first"))
            shape = list(r[3])
            if len(shape) == len(counts) or chain[0][0] != "povm":
                # (only a bracketing that first folds a POVM into a measurement process yields a POVM, whose outcomes are flat by construction)
                cl.append(eq(f"labelling[{tag}]", shape, counts, "reported outcome shape == outcome counts in time order"))
            else:
                n = 1
                for v in shape:
                    n *= v
                tot = 1
                for v in counts:
                    tot *= v
                cl.append(eq(f"labelling[{tag}]", n, tot, "flattened outcome shape has the right size"))
            if r[0] in ("ens",) or (r[0] == "flat" and kind == "ens"):
                states = r[4]
                for pos, idx in enumerate(itertools.product(*[range(c) for c in counts])):
                    cl.append(eq(f"post-state[{tag}][{idx}]", S.op_from_vec(c_sys, states[pos]) * ps_ref[pos], ref[idx][1],
                                 "post-measurement state of outcome idx == (unnormalised branch operator) / p"))
        cl.append(true("some-bracketing-supported", n_supported >= 2, "the flat call and at least one bracketing are supported"))
        return cl


class ZeroProbabilityBranch(E2Contract):
    """an outcome of exactly zero probability: probability 0, zero post-state, the rest unchanged"""
    name = "compose(MProcess, State) with a zero-probability outcome"
    prop = "C06"
    targets = (OPS + ":_compose_qoperations_MProcess_State_for_States", OPS + ":_compose_qoperations_Povm_StateEnsemble")
    max_paths = 32

    def configs(self, tier):
        return [("1q", 3, 0), ("1q", 3, 1), ("1q", 3, 2)] + ([("1qt", 3, 0), ("1q", 4, 2)] if tier == "thorough" else [])

    def inputs(self, W, cfg, mk):
        s, m, zero = cfg
        np = W.np
        c_sys = make_csys(W, s)
        n = c_sys.dim ** 2
        st = param_obj(W, mk, "state", c_sys, 0, "s")
        # hss[zero] is the zero map; the others are symbolic and sum to a trace-preserving map
        mp_full = param_obj(W, mk, "mprocess", c_sys, m - 1, "m")
        hss = list(mp_full.hss)
        hss.insert(zero, np.zeros((n, n), dtype=np.float64))
        mp = W.mod("quara.objects.mprocess").MProcess(c_sys, hss, is_physicality_required=False)
        kind, ref = spec_chain(W, c_sys, [("mprocess", list(mp_full.hss)), ("state", [st.vec])])
        for idx, v in ref.items():
            mk.require(v[0] >= 2 * EPS)
        # a POVM measured afterwards, with an outcome count different from the number of ensemble members
        pv = param_obj(W, mk, "povm", c_sys, 2, "e")
        kind2, joint = spec_chain(W, c_sys, [("povm", list(pv.vecs)), ("mprocess", list(mp_full.hss)), ("state", [st.vec])])
        for idx, v in joint.items():
            mk.require(v >= 2 * EPS)
        # the same measurement process (with its impossible outcome) applied to the ENSEMBLE an earlier two-outcome measurement leaves
        first = param_obj(W, mk, "mprocess", c_sys, 2, "f")
        kind3, seq = spec_chain(W, c_sys, [("mprocess", list(mp_full.hss)), ("mprocess", list(first.hss)), ("state", [st.vec])])
        kind4, ref_first = spec_chain(W, c_sys, [("mprocess", list(first.hss)), ("state", [st.vec])])
        for idx, v in list(seq.items()) + list(ref_first.items()):
            mk.require(v[0] >= 2 * EPS)
        return dict(mp=mp, st=st, ref=ref, pv=pv, joint=joint, first=first, seq=seq)

    def sample(self, cfg, names, rng):
        import math
        vals = {n: rng.uniform(-0.05, 0.05) for n in names}
        s, m, zero = cfg
        d = DIMS[s]
        for x in range(m - 2):
            vals[f"m_{x * d ** 4}"] = 1.0 / (m - 1) + rng.uniform(-0.03, 0.03)
        vals["e_0"] = math.sqrt(d) / 2 + rng.uniform(-0.03, 0.03)
        vals["f_0"] = 0.7 + rng.uniform(-0.05, 0.05)          # a NON-uniform first measurement
        return vals

    def run(self, W, cfg, inp):
        ops = W.mod(OPS)
        r = ops.compose_qoperations(inp["mp"], inp["st"])
        j = ops.compose_qoperations(inp["pv"], r)
        e2 = ops.compose_qoperations(inp["mp"], ops.compose_qoperations(inp["first"], inp["st"]))
        return dict(ps=r.prob_dist.ps, states=[x.vec for x in r.states], joint=j.ps, joint_shape=list(j.shape),
                    seq=e2.prob_dist.ps, seq_shape=list(e2.prob_dist.shape))

    def post(self, W, cfg, inp, out):
        s, m, zero = cfg
        S = W.S
        c_sys = inp["st"].composite_system
        ref = inp["ref"]
        cl = [eq("zero-outcome/probability", out["ps"][zero], 0, "the impossible outcome has probability exactly 0"),
              eq("zero-outcome/state", out["states"][zero], 0 * out["states"][zero], "its post-measurement state is the zero vector")]
        others = [x for x in range(m) if x != zero]
        for k, x in enumerate(others):
            cl.append(eq(f"other-outcome[{x}]/probability", out["ps"][x], ref[(k,)][0], "the other probabilities are the Born probabilities"))
            cl.append(eq(f"other-outcome[{x}]/state", S.op_from_vec(c_sys, out["states"][x]) * ref[(k,)][0], ref[(k,)][1],
                         "and their post-states are Lambda_x(rho)/p_x"))
        want = []
        for x in range(m):
            for y in range(2):
                want.append(0 if x == zero else inp["joint"][(others.index(x), y)])
        cl += [eq("povm-afterwards/shape", out["joint_shape"], [m, 2], "a POVM measured afterwards: joint outcome shape (earlier measurement first)"),
               eq("povm-afterwards/joint-distribution", out["joint"], want,
                  "joint probabilities: zero row for the impossible outcome (one entry per POVM outcome), Born probabilities Tr(E_y Lambda_x(rho)) elsewhere")]
        want2 = []
        for x1 in range(2):
            for x in range(m):
                want2.append(0 if x == zero else inp["seq"][(x1, others.index(x))][0])
        cl += [eq("after-an-earlier-measurement/shape", out["seq_shape"], [2, m], "applied to the ensemble of an earlier measurement: outcome shape (earlier first)"),
               eq("after-an-earlier-measurement/joint-distribution", out["seq"], want2,
                  "P(x1, x2) == Tr(Lambda_x2 Lambda_x1 rho) with zero entries for the impossible outcome: each block is weighted with P(x1), not renormalised to 1")]
        return cl


def _near_mixed_povm_sample(cfg, names, rng):
    import math
    s, m, mode = cfg
    d = DIMS[s]
    vals = {n: rng.uniform(-0.12, 0.12) for n in names}
    for x in range(m - 1):
        vals[f"p_{x * d * d}"] = math.sqrt(d) / m + rng.uniform(-0.05, 0.05)
    for n in names:
        if n.startswith("rho"):
            vals[n] = rng.uniform(-1, 1)
    return vals


class GenerateMProcess(E2Contract):
    """Povm.generate_mprocess: the generated measurement process induces the POVM and has the stated back-action"""
    name = "Povm.generate_mprocess"
    prop = "C06"
    targets = ("quara.objects.povm:Povm.generate_mprocess", "quara.objects.mprocess:MProcess.to_povm", "quara.objects.gate:convert_hs")
    max_paths = 16
    frame = False

    def configs(self, tier):
        # mode "2s": back-action mode 2 with ONE post-selected state for every outcome (a State, not a list)
        return [("1q", 2, 2), ("1q", 3, 2), ("1q", 2, 0), ("1q", 2, 1), ("1q", 3, "2s")] + ([("1qt", 2, 2), ("1q", 3, 0), ("1qt", 2, "2s")] if tier == "thorough" else [])

    def inputs(self, W, cfg, mk):
        s, m, mode = cfg
        c_sys = make_csys(W, s)
        povm = param_obj(W, mk, "povm", c_sys, m, "p")
        d = c_sys.dim
        post = [param_obj(W, mk, "state", c_sys, 0, f"s{x}") for x in range(m)] if mode == 2 else None
        if mode == "2s":
            post = param_obj(W, mk, "state", c_sys, 0, "s0")
        if mode == 1:
            # separated spectra: the code groups eigenvalues closer than Settings.get_atol() into one eigenspace (rounding of a degenerate
            # eigenvalue); the grouped branch is float-level and is evaluated natively on instances (C06_native, bounded stand-in)
            atol = W.mod("quara.settings").Settings.get_atol()
            for x in range(m):
                w, _ = W.np.linalg.eigh(W.S.op_from_vec(c_sys, povm.vecs[x]))
                for k in range(d - 1):
                    mk.require(w[k] + atol < w[k + 1])
        return dict(povm=povm, post=post, rho=mk.hermitian("rho", d))

    def sample(self, cfg, names, rng):
        return _near_mixed_povm_sample(cfg, names, rng)

    def run(self, W, cfg, inp):
        s, m, mode = cfg
        mp = inp["povm"].generate_mprocess(mode_backaction=2 if mode == "2s" else mode, post_selected_states=inp["post"])
        return dict(hss=list(mp.hss), to_povm=list(mp.to_povm().vecs))

    def post(self, W, cfg, inp, out):
        s, m, mode = cfg
        S = W.S
        np = W.np
        povm = inp["povm"]
        c_sys = povm.composite_system
        rho = inp["rho"]
        atol = W.mod("quara.settings").Settings.get_atol()
        cl = []
        for x in range(m):
            Mx = S.op_from_vec(c_sys, povm.vecs[x])
            img = S.apply_hs(c_sys, out["hss"][x], rho)
            if mode in (2, "2s"):
                want = S.trace(Mx @ rho) * S.op_from_vec(c_sys, (inp["post"] if mode == "2s" else inp["post"][x]).vec)
                cl.append(eq(f"back-action[{x}]", img, want, "mode 2: Lambda_x(rho) == Tr(M_x rho) * post_selected_state_x"))
                cl.append(eq(f"induces-the-povm[{x}]", out["to_povm"][x], povm.vecs[x], "to_povm() of the generated process is the POVM"))
            elif mode == 0:
                X = W.scipy.linalg.sqrtm(Mx)
                want = X @ rho @ S.dagger(X)
                exact = S.hs_from_kraus(c_sys, [X])
                cl.append(true(f"back-action[{x}]", S.truncated(out["hss"][x], exact, atol),
                               "mode 0: HS of rho -> sqrt(M_x) rho sqrt(M_x)^dagger (sqrtm trusted), up to the truncation rule"))
            else:
                w, V = np.linalg.eigh(Mx)
                d = c_sys.dim
                # Lueders back-action: rho -> sum over DISTINCT eigenvalues  w * P_w rho P_w,  P_w the eigenprojector
                groups = []
                for k in range(d):
                    vk = V[:, k].reshape((d, 1))
                    Pk = vk @ np.conjugate(vk).T
                    if k > 0 and bool(w[k] == w[k - 1]):
                        groups[-1] = (groups[-1][0], groups[-1][1] + Pk)
                    else:
                        groups.append((w[k], Pk))
                exact = None
                for wk, Pw in groups:
                    term = wk * S.hs_from_kraus(c_sys, [Pw])
                    exact = term if exact is None else exact + term
                cl.append(true(f"back-action[{x}]", S.truncated(out["hss"][x], exact, atol),
                               "mode 1: HS of rho -> sum_w w P_w rho P_w with P_w the spectral projectors of M_x (eigh trusted), up to the truncation rule"))
        return cl

"""C18 / C15, bounded stand-in: the RANDOM effective-Lindbladian generators (random H part, random dissipative part of a given strength) are
physical generators - trace preserving, with a positive semidefinite dissipator, so that the gate they generate is CPTP - and the noisy objects
built from them are physical.  expm / unitary_group are opaque to the proofs; evaluated natively on seeded draws, tolerance 1e-9."""
import numpy as np

from qverif.core import native as N
from .C17_enum import Tally


def job_random_lindbladians(tier="quick", seed=0, prop="C18"):
    cst = N.native_import("quara.objects.composite_system_typical")
    rl = N.native_import("quara.simulation.random_effective_lindbladian_generation_setting")
    t = Tally("random-lindbladian-generators", ["quara.simulation.random_effective_lindbladian_generation_setting:RandomEffectiveLindbladianGenerationSetting.generate_random_effective_lindbladian_d_part",
                                                "quara.simulation.random_effective_lindbladian_generation_setting:RandomEffectiveLindbladianGenerationSetting.generate_random_effective_lindbladian",
                                                "quara.simulation.random_effective_lindbladian_generation_setting:RandomEffectiveLindbladianGenerationSetting.generate"], prop=prop, what="draw")
    n_seeds = 6 if tier == "quick" else 30
    for sysname, base in (("qubit", ("state", "z0")), ("qutrit", ("state", "01z0"))):
        c = cst.generate_composite_system(sysname, 1)
        for sh, sk in ((0.1, 0.2), (0.0, 1.0), (1.0, 1e-3)):
            gs = rl.RandomEffectiveLindbladianGenerationSetting(c, base, "identity", sh, sk)
            for s in range(n_seeds):
                entry = (sysname, sh, sk, seed * 1000 + s)

                def gen():
                    out = gs.generate_random_effective_lindbladian(entry[3])
                    el = out[0] if isinstance(out, tuple) else out
                    g = el.to_gate()
                    choi = g.to_choi_matrix()
                    lam = float(np.linalg.eigvalsh((choi + choi.conj().T) / 2).min())
                    k_min = float(np.linalg.eigvalsh(el.calc_k_mat()).min())
                    ok = bool(el.is_tp()) and bool(g.is_tp()) and lam >= -1e-9 and k_min >= -1e-9
                    return ok, f"generator TP {bool(el.is_tp())}, gate TP {bool(g.is_tp())}, min Choi eigenvalue of exp(L) {lam:.3e}, min eigenvalue of K {k_min:.3e}"
                t.guard("random-generator-is-a-physical-generator", entry, gen,
                        "the random effective Lindbladian is trace preserving, its dissipator matrix K is positive semidefinite, and exp(L) is CPTP")

                def noisy():
                    obj = gs.generate(entry[3])
                    o = obj[0] if isinstance(obj, tuple) else obj
                    return bool(o.is_physical(1e-9, 1e-9)), "noisy object not physical at 1e-9"
                t.guard("noisy-object-is-physical", entry, noisy, "the noisy object (random channel applied to the ideal object) is physical")
    return t.results(f"2 systems x 3 strength settings x {n_seeds} seeded draws, tolerance 1e-9 (bounded)")

"""C13: results depend only on arguments -- no hidden state, no operand mutation.

(i)   Frames (argument arrays unchanged) are built into every E2 contract of C01..C19 (clause `frame/<arg>`); this
      file adds the arithmetic operators, copy(), to_var / to_stacked_vector.
(ii)  CompositeSystem caches: every conversion that reads a cached table gives the same symbolic result whether the
      tables were never built, built, deleted or rebuilt in another order, and a built table equals the table of a fresh system.
(iii) Loss objects: configuring a re-used object for (model, option, data) gives the value / gradient of a fresh object with
      the same (model, option, data), whatever it processed before.
(iv)  Algorithm objects: the projection installed by set_constraint_from_standard_qt_and_option is the one determined by the
      arguments, also on a re-used object.
(v)   Matrix bases cannot be modified; (vi) copies share no storage with their originals; (vii) global tolerance round trip."""
import itertools

from qverif.symtwin.verify import E2Contract, eq, true, Raised
from ._cfg import make_csys, DIMS, stacked, obj_state, obj_povm, obj_gate, obj_mprocess
from .C12_all import FakeQt, sym_inputs

LF = "quara.loss_function."
CS = "quara.objects.composite_system"

CACHES = ["basis_basisconjugate", "dict_from_hs_to_choi", "dict_from_choi_to_hs", "basis_T_sparse", "basisconjugate_sparse",
          "basisconjugate_basis_sparse", "basis_basisconjugate_T_sparse", "basis_basisconjugate_T_sparse_from_1", "basishermitian_basis_T_from_1"]
DELETERS = ["delete_dict_from_hs_to_choi", "delete_dict_from_choi_to_hs", "delete_basis_T_sparse", "delete_basisconjugate_sparse",
            "delete_basisconjugate_basis_sparse", "delete_basis_basisconjugate_T_sparse", "delete_basis_basisconjugate_T_sparse_from_1",
            "delete_basishermitian_basis_T_from_1"]


def conversions(W, c_sys, hs, vec, kmat):
    """every conversion that goes through a cached table of the composite system"""
    g = W.mod("quara.objects.gate")
    st = W.mod("quara.objects.state")
    el = W.mod("quara.objects.effective_lindbladian")
    choi = g.to_choi_from_hs_with_sparsity(c_sys, hs)
    return [g.to_choi_from_hs(c_sys, hs), g.to_choi_from_hs_with_dict(c_sys, hs), choi,
            g.to_hs_from_choi(c_sys, choi), g.to_hs_from_choi_with_dict(c_sys, choi), g.to_hs_from_choi_with_sparsity(c_sys, choi),
            st.to_density_matrix_from_vec(c_sys, vec), st.to_vec_from_density_matrix_with_sparsity(c_sys, st.to_density_matrix_from_vec(c_sys, vec)),
            el._calc_k_part_from_k_mat_with_sparsity(kmat, c_sys), el._calc_j_mat_from_k_mat_with_sparsity(kmat, c_sys)]


class CompositeSystemCaches(E2Contract):
    name = "CompositeSystem caches"
    prop = "C13"
    targets = tuple(CS + ":CompositeSystem." + n for n in CACHES + DELETERS) + (CS + ":CompositeSystem._calc_basis_sparse",
                                                                                   CS + ":CompositeSystem._calc_basis_basisconjugate_sparse")
    frame = True
    n_conformance = 1

    def configs(self, tier):
        return ["1q"] + (["1qt"] if tier == "thorough" else [])

    def inputs(self, W, cfg, mk):
        d = DIMS[cfg]
        n = d * d
        return dict(hs=mk.array("hs", (n, n)), vec=mk.array("v", n), kmat=mk.hermitian("K", n - 1))

    def run(self, W, cfg, inp):
        hs, vec, kmat = inp["hs"], inp["vec"], inp["kmat"]
        # the very first system of this interpreter to build tables is ANOTHER one (another basis): instances must share nothing
        other = make_csys(W, cfg, "comp") if cfg == "1q" else make_csys(W, "1q")
        n_other = other.dim ** 2
        conversions(W, other, W.np.eye(n_other), W.np.ones(n_other), W.np.eye(n_other - 1, dtype=W.np.complex128))
        second = make_csys(W, cfg)
        choi_second = W.mod("quara.objects.gate").to_choi_from_hs(second, hs)
        fresh = make_csys(W, cfg)
        r_fresh = conversions(W, fresh, hs, vec, kmat)                 # tables built on demand, in this order
        r_again = conversions(W, fresh, hs, vec, kmat)                 # every table already built
        out = dict(fresh=r_fresh, again=r_again, after_delete={}, tables_equal_fresh=[])
        # delete one table (or all) and recompute: the getter must rebuild it
        for dl in DELETERS + ["ALL"]:
            c = make_csys(W, cfg)
            conversions(W, c, hs, vec, kmat)
            for name in (DELETERS if dl == "ALL" else [dl]):
                getattr(c, name)()
            out["after_delete"][dl] = conversions(W, c, hs, vec, kmat)
        # a different construction order of the tables (reverse), then compare the tables themselves with a fresh system's
        a, b = make_csys(W, cfg), make_csys(W, cfg)
        for name in reversed(CACHES[1:]):
            getattr(a, name)
        for name in CACHES[1:]:
            ta, tb = getattr(a, name), getattr(b, name)
            out["tables_equal_fresh"].append(_table_equal(W, ta, tb))
        out["reverse_order"] = conversions(W, a, hs, vec, kmat)
        out["choi_second"] = choi_second
        out["choi_spec"] = W.S.choi_from_hs(second, hs)
        return out

    def post(self, W, cfg, inp, out):
        cl = [eq("built==first-use", out["again"], out["fresh"], "results with all tables built == results that built them on demand"),
              eq("independent-of-other-systems", out["choi_second"], out["choi_spec"],
                 "a system whose tables are built after ANOTHER CompositeSystem (another basis) built its own still converts by its own basis (Choi == defining formula)"),
              eq("construction-order-irrelevant", out["reverse_order"], out["fresh"], "building the tables in another order changes nothing"),
              eq("table==table-of-a-fresh-system", out["tables_equal_fresh"], [True] * len(out["tables_equal_fresh"]),
                 "a built table equals the table of a fresh system (representation invariant: None or spec(basis))")]
        for dl, r in out["after_delete"].items():
            cl.append(eq(f"after-{dl}", r, out["fresh"], "dropping a table and using the system again gives the same results"))
        return cl


def _table_equal(W, ta, tb):
    if isinstance(ta, dict):
        if set(ta.keys()) != set(tb.keys()):
            return False
        return all(_entries_equal(W, ta[k], tb[k]) for k in ta)
    return _entries_equal(W, ta, tb)


def _entries_equal(W, a, b):
    S = W.S
    if isinstance(a, list):
        return len(a) == len(b) and all(_entries_equal(W, x, y) for x, y in zip(a, b))
    if isinstance(a, tuple):
        return len(a) == len(b) and all(_entries_equal(W, x, y) for x, y in zip(a, b))
    if hasattr(a, "toarray") or hasattr(a, "shape"):
        fa, fb = S.flat(S.dense(a)), S.flat(S.dense(b))
        return len(fa) == len(fb) and all(S.exact_eq(x - y, 0) for x, y in zip(fa, fb))
    return S.exact_eq(a - b, 0) if not isinstance(a, (int, str)) else a == b


class LossObjectReuse(E2Contract):
    name = "loss object re-use"
    prop = "C13"
    targets = (LF + "probability_based_loss_function:ProbabilityBasedLossFunction.set_from_standard_qtomography_option_data",
               LF + "weighted_probability_based_squared_error:WeightedProbabilityBasedSquaredError._set_weights_by_mode",
               LF + "weighted_relative_entropy:WeightedRelativeEntropy._set_weights_by_mode",
               LF + "standard_qtomography_based_weighted_probability_based_squared_error:StandardQTomographyBasedWeightedProbabilityBasedSquaredError._set_weights_by_mode",
               LF + "standard_qtomography_based_weighted_relative_entropy:StandardQTomographyBasedWeightedRelativeEntropy._set_weights_by_mode")
    n_conformance = 1
    max_paths = 32

    FAMILIES = {
        "squared": ("weighted_probability_based_squared_error", "WeightedProbabilityBasedSquaredError", "matrix"),
        "squared-fast": ("standard_qtomography_based_weighted_probability_based_squared_error", "StandardQTomographyBasedWeightedProbabilityBasedSquaredError", "matrix"),
        "entropy": ("weighted_relative_entropy", "WeightedRelativeEntropy", "vector"),
        "entropy-fast": ("standard_qtomography_based_weighted_relative_entropy", "StandardQTomographyBasedWeightedRelativeEntropy", "vector"),
    }
    HISTORIES = [("custom", "identity"), ("identity", "custom"), ("custom", "custom")]

    def configs(self, tier):
        return [(f, h) for f in self.FAMILIES for h in self.HISTORIES]

    def inputs(self, W, cfg, mk):
        fam, hist = cfg
        modn, clsn, wkind = self.FAMILIES[fam]
        S, m, n = 2, 2, 2
        a = sym_inputs(W, mk, S, m, n, wkind)
        # a second, unrelated dataset / weights / model for the earlier use
        np = W.np
        a["A0"] = mk.array("A0", (S * m, n))
        a["b0"] = mk.array("b0", S * m)
        a["q0"] = [mk.array(f"r{j}_", m) for j in range(S)]
        a["ws0"] = [mk.real(f"u{j}") for j in range(S)] if wkind == "vector" else None
        if wkind == "matrix":
            a["ws0"] = []
            for j in range(S):
                w = np.zeros((m, m))
                for x in range(m):
                    for y in range(x, m):
                        w[x, y] = mk.real(f"u{j}_{x}_{y}")
                        w[y, x] = w[x, y]
                a["ws0"].append(w)
        if "entropy" in fam:
            for j in range(S):
                for (A, b, q) in ((a["A"], a["b"], a["q"]), (a["A0"], a["b0"], a["q0"])):
                    p = A[j * m:(j + 1) * m] @ a["var"] + b[j * m:(j + 1) * m]
                    for k in range(m):
                        mk.require(q[j][k] >= 1e-6)
                        mk.require(q[j][k] <= 2)
                        mk.require(p[k] >= 1e-6)
                        mk.require(p[k] <= 2)
        return a

    def sample(self, cfg, names, rng):
        vals = {n: rng.uniform(-0.1, 0.1) for n in names}
        for n in names:
            if n[0] in "qr" and "_" in n:
                vals[n] = rng.uniform(0.1, 0.9)
            if n.startswith("b_") or n.startswith("b0_"):
                vals[n] = rng.uniform(0.4, 0.9)
            if n[0] in "wu":
                vals[n] = rng.uniform(0.5, 2.0)
            if n in ("n0", "n1"):
                vals[n] = 100.0
        return vals

    def _configure(self, W, loss, mod, cfg_mode, A, b, q, ws, nd, fast):
        opt_cls = [getattr(mod, k) for k in dir(mod) if k.endswith("Option") and k.startswith(type(loss).__name__)][0]
        opt = opt_cls(cfg_mode, weights=ws if cfg_mode == "custom" else None)
        qt = FakeQt(A, b, len(q))
        loss.set_from_standard_qtomography_option_data(qt, opt, [(nd[j], q[j]) for j in range(len(q))], True, False)

    def run(self, W, cfg, inp):
        fam, (first, second) = cfg
        modn, clsn, wkind = self.FAMILIES[fam]
        mod = W.mod(LF + modn)
        cls = getattr(mod, clsn)
        fast = "fast" in fam
        var = inp["var"]
        used = cls()
        self._configure(W, used, mod, first, inp["A0"], inp["b0"], inp["q0"], inp["ws0"], inp["nd"], fast)
        used.value(var)
        self._configure(W, used, mod, second, inp["A"], inp["b"], inp["q"], inp["ws"], inp["nd"], fast)
        fresh = cls()
        self._configure(W, fresh, mod, second, inp["A"], inp["b"], inp["q"], inp["ws"], inp["nd"], fast)
        return dict(used_value=used.value(var), used_grad=used.gradient(var), fresh_value=fresh.value(var), fresh_grad=fresh.gradient(var))

    def post(self, W, cfg, inp, out):
        return [eq("value-independent-of-history", out["used_value"], out["fresh_value"],
                   "a re-used loss object configured for (model, option, data) gives the value of a fresh object"),
                eq("gradient-independent-of-history", out["used_grad"], out["fresh_grad"], "and the same gradient")]


class AlgorithmObjectReuse(E2Contract):
    """the projection installed on a (re-used) algorithm object is the one the arguments determine"""
    name = "algorithm object re-use"
    prop = "C13"
    targets = ("quara.minimization_algorithm.projected_gradient_descent:ProjectedGradientDescent.set_constraint_from_standard_qt_and_option",)
    n_conformance = 1
    max_paths = 16
    frame = False

    OPTIONS = [(True, False), (False, False)]

    def configs(self, tier):
        return [("qst", a, b) for a in self.OPTIONS for b in self.OPTIONS if a != b]

    def inputs(self, W, cfg, mk):
        return dict(var=mk.array("var", 4))

    def run(self, W, cfg, inp):
        from .C09_all import exact_testers
        from .C08_all import build_qt
        kind, first, second = cfg
        c_sys, states, povms = exact_testers(W, "1q", False)
        qt = build_qt(W, kind, dict(states=states, povms=povms), False, 2, "all")
        pgdb = W.mod("quara.minimization_algorithm.projected_gradient_descent_backtracking")

        def opt(flags):
            return pgdb.ProjectedGradientDescentBacktrackingOption(on_algo_eq_constraint=flags[0], on_algo_ineq_constraint=flags[1])
        used = pgdb.ProjectedGradientDescentBacktracking()
        used.set_constraint_from_standard_qt_and_option(qt, opt(first))
        used.set_constraint_from_standard_qt_and_option(qt, opt(second))
        fresh = pgdb.ProjectedGradientDescentBacktracking()
        fresh.set_constraint_from_standard_qt_and_option(qt, opt(second))
        explicit = pgdb.ProjectedGradientDescentBacktracking(func_proj=lambda v: v * 2)
        explicit.set_constraint_from_standard_qt_and_option(qt, opt(second))
        return dict(used=used.func_proj(W.np.copy(inp["var"])), fresh=fresh.func_proj(W.np.copy(inp["var"])),
                    explicit=explicit.func_proj(W.np.copy(inp["var"])))

    def post(self, W, cfg, inp, out):
        return [eq("projection-determined-by-arguments", out["used"], out["fresh"],
                   "after set_constraint_from_standard_qt_and_option(qt, option) a re-used algorithm object projects like a fresh one"),
                eq("explicit-func_proj-is-kept", out["explicit"], inp["var"] * 2, "a projection given to the constructor is the documented override")]


class OperatorFrames(E2Contract):
    """arithmetic operators, copy, to_var, to_stacked_vector: operands unchanged, copies share no storage"""
    name = "operators / copy"
    prop = "C13"
    targets = ("quara.objects.qoperation:QOperation.__add__", "quara.objects.qoperation:QOperation.__sub__", "quara.objects.qoperation:QOperation.__mul__",
               "quara.objects.qoperation:QOperation.__truediv__", "quara.objects.qoperation:QOperation.copy", "*.to_var", "*.to_stacked_vector")
    n_conformance = 1

    def configs(self, tier):
        return ["state", "povm", "gate", "mprocess"]

    def inputs(self, W, cfg, mk):
        c = make_csys(W, "1q")
        mkobj = dict(state=lambda n: obj_state(W, mk, c, n, False), povm=lambda n: obj_povm(W, mk, c, 2, n, False),
                     gate=lambda n: obj_gate(W, mk, c, n, False), mprocess=lambda n: obj_mprocess(W, mk, c, 2, n, False))[cfg]
        return dict(a=mkobj("a"), b=mkobj("b"))

    def run(self, W, cfg, inp):
        a, b = inp["a"], inp["b"]
        cp = a.copy()
        shares = False
        for x, y in zip(stacked(W, a), stacked(W, cp)):
            xa = x.a if W.symbolic else x
            ya = y.a if W.symbolic else y
            import numpy
            shares = shares or bool(numpy.shares_memory(xa, ya))
        # writing into the results must not reach the operands (results that are views of operands would)
        tv, sv = a.to_var(), a.to_stacked_vector()
        return dict(add=stacked(W, a + b), sub=stacked(W, a - b), mul=stacked(W, a * 2.0), div=stacked(W, a / 2.0), rmul=stacked(W, 2.0 * a),
                    copy=stacked(W, cp), copy_shares_storage=shares, to_var=tv, to_stacked=sv)

    def post(self, W, cfg, inp, out):
        A, B = stacked(W, inp["a"]), stacked(W, inp["b"])
        return [eq("add", out["add"], [x + y for x, y in zip(A, B)], "a + b is the entrywise sum"),
                eq("sub", out["sub"], [x - y for x, y in zip(A, B)], "a - b is the entrywise difference"),
                eq("mul", out["mul"], [x * 2 for x in A], "a * 2"), eq("rmul", out["rmul"], [x * 2 for x in A], "2 * a"),
                eq("div", out["div"], [x / 2 for x in A], "a / 2"),
                eq("copy-equal", out["copy"], A, "copy() has the same value"),
                eq("copy-independent", out["copy_shares_storage"], False, "copy() shares no array storage with the original")]


class BasisImmutable(E2Contract):
    name = "MatrixBasis immutability"
    prop = "C13"
    targets = ("quara.objects.matrix_basis:MatrixBasis.__init__", "quara.objects.matrix_basis:VectorizedMatrixBasis.__init__", "quara.objects.matrix_basis:Basis.__init__")
    n_conformance = 1
    frame = False

    def configs(self, tier):
        return [2] + ([3] if tier == "thorough" else [])

    def inputs(self, W, cfg, mk):
        return dict(x=mk.real("x"))

    def run(self, W, cfg, inp):
        np = W.np
        mb = W.mod("quara.objects.matrix_basis")
        src = [np.array(m, dtype=np.complex128) for m in [b for b in mb.get_comp_basis(cfg)]]
        basis = mb.MatrixBasis(src)
        before = [np.copy(b) for b in basis]
        src[0][0, 0] = 5 + inp["x"]                      # mutate the constructor's argument afterwards
        write_raises = []
        for b in basis:
            try:
                b[0, 0] = 7
                write_raises.append(False)
            except ValueError:
                write_raises.append(True)
        vb = basis.to_vect()
        vwrite = []
        for v in vb:
            try:
                v[0] = 7
                vwrite.append(False)
            except ValueError:
                vwrite.append(True)
        return dict(after=[np.copy(b) for b in basis], before=before, write_raises=write_raises, vwrite=vwrite)

    def post(self, W, cfg, inp, out):
        return [eq("independent-of-constructor-argument", out["after"], out["before"], "mutating the list handed to the constructor does not change the basis"),
                eq("in-place-write-raises", out["write_raises"], [True] * len(out["write_raises"]), "basis matrices are read-only"),
                eq("vectorized-in-place-write-raises", out["vwrite"], [True] * len(out["vwrite"]), "vectorised basis elements are read-only")]


class SettingsRoundTrip(E2Contract):
    name = "Settings.set_atol round trip"
    prop = "C13"
    targets = ("quara.settings:Settings.set_atol", "quara.settings:Settings.get_atol")
    n_conformance = 1
    max_paths = 64

    def configs(self, tier):
        return ["1q"]

    def inputs(self, W, cfg, mk):
        return dict(state=obj_state(W, mk, make_csys(W, cfg)))

    def run(self, W, cfg, inp):
        S = W.mod("quara.settings").Settings
        s = inp["state"]
        old = S.get_atol()
        v0 = s.is_trace_one()
        S.set_atol(1e-3)
        v1 = s.is_trace_one()
        S.set_atol(old)
        v2 = s.is_trace_one()
        return dict(v0=v0, v1=v1, v2=v2, restored=S.get_atol() == old)

    def post(self, W, cfg, inp, out):
        S = W.S
        s = inp["state"]
        tr = S.trace(S.op_from_vec(s.composite_system, s.vec)).real
        return [eq("verdict-at-default", out["v0"], S.abs(tr - 1) <= 1e-13, "verdict at the default global tolerance"),
                eq("verdict-at-changed-tolerance", out["v1"], S.abs(tr - 1) <= 1e-3, "the global tolerance is what the verdict uses when none is passed"),
                eq("verdict-restored", out["v2"], out["v0"], "restoring the global tolerance restores the verdict"),
                eq("tolerance-restored", out["restored"], True, "set_atol(old) restores get_atol()")]


# ------------------------------------------------------------------ operand frames of the projections and of the estimator (re-checked under C13)

from .C04_all import EqProjectionWithVar as _EqVar, IneqProjectionWithVar as _IneqVar, EqProjection as _Eq, IneqProjection as _Ineq  # noqa: E402
from .C05_all import Dykstra as _Dykstra  # noqa: E402
from .C11_e2 import LossMinimizationWiring as _Wiring  # noqa: E402


class EqProjectionVarFrame(_EqVar):
    """C04's contract of the variable-level equality projections, re-checked under C13 for its frame clauses (the argument vector is not written to)"""
    prop = "C13"
    name = "calc_proj_eq_constraint_with_var: operand frame"


class IneqProjectionVarFrame(_IneqVar):
    prop = "C13"
    name = "calc_proj_ineq_constraint_with_var: operand frame"


class EqProjectionFrame(_Eq):
    prop = "C13"
    name = "calc_proj_eq_constraint: operand frame"


class IneqProjectionFrame(_Ineq):
    prop = "C13"
    name = "calc_proj_ineq_constraint: operand frame"


class PhysicalProjectionFrame(_Dykstra):
    """C05's contract, re-checked under C13: the projected object keeps its arrays AND its configuration flags"""
    prop = "C13"
    name = "calc_proj_physical: operand frame"


class EstimatorSequenceNoCarryOver(_Wiring):
    prop = "C13"
    name = "LossMinimizationEstimator: nothing carried between datasets / tomographies"


class TensorComposeOperands(E2Contract):
    """tensor_product / compose_qoperations leave their operands exactly as they were: arrays, flags and the plain lists (outcome shapes, local
    outcome counts) -- and an operand can be used again afterwards"""
    name = "tensor_product / compose_qoperations: operand frame"
    prop = "C13"
    targets = ("quara.objects.operators:tensor_product", "quara.objects.operators:compose_qoperations", "quara.objects.operators:_tensor_product_Povm_Povm",
               "quara.objects.operators:_tensor_product_MProcess_MProcess", "quara.objects.operators:_tensor_product_State_State",
               "quara.objects.operators:_tensor_product_Gate_Gate")
    frame = True
    n_conformance = 1
    max_paths = 16

    def configs(self, tier):
        return ["state", "povm", "gate", "mprocess"]

    def inputs(self, W, cfg, mk):
        from .C07_all import esys, single
        es = [esys(W, k, 2) for k in range(3)]
        mkobj = dict(state=lambda c, n: obj_state(W, mk, c, n, False), povm=lambda c, n: obj_povm(W, mk, c, 2, n, False),
                     gate=lambda c, n: obj_gate(W, mk, c, n, False), mprocess=lambda c, n: obj_mprocess(W, mk, c, 2, n, False))[cfg]
        return dict(a=mkobj(single(W, es[0]), "a"), b=mkobj(single(W, es[1]), "b"), c=mkobj(single(W, es[2]), "c"))

    def run(self, W, cfg, inp):
        ops = W.mod("quara.objects.operators")
        a, b, c = inp["a"], inp["b"], inp["c"]
        first = ops.tensor_product(a, b)
        again = ops.tensor_product(a, c)          # the left operand is used a second time
        fresh = ops.tensor_product(a.copy(), c)
        return dict(again=stacked(W, again), fresh=stacked(W, fresh), n=len(stacked(W, first)))

    def post(self, W, cfg, inp, out):
        return [eq("second-use-of-an-operand==first-use-of-a-copy", out["again"], out["fresh"], "an operand that was already a factor of one product gives the same product again")]


class EstimatorObjectReuse(E2Contract):
    """an estimator object used for one tomography and then for another (same sizes, other testers) estimates like a fresh one"""
    name = "linear estimator objects re-used across tomographies"
    prop = "C13"
    n_conformance = 0            # (the physical projection is an uninterpreted function in the symbolic world)
    targets = ("quara.protocol.qtomography.standard.linear_estimator:LinearEstimator.calc_estimate_sequence",
               "quara.protocol.qtomography.standard.linear_estimator:LinearEstimator.calc_estimate",
               "quara.protocol.qtomography.standard.projected_linear_estimator:ProjectedLinearEstimator.calc_estimate_sequence")
    frame = True
    max_paths = 16

    def __init__(self):
        from .C10_all import phys_stub
        self.stubs = {"quara.objects.qoperation:QOperation.calc_proj_physical": phys_stub()}

    def configs(self, tier):
        return [("linear", "qst"), ("projected", "qst"), ("linear", "povmt")]

    def _qts(self, W, kind):
        from .C09_all import exact_testers
        from .C08_all import build_qt
        c_sys, states, povms = exact_testers(W, "1q", False)
        a = build_qt(W, kind, dict(states=states, povms=povms), True, 2, "all")
        b = build_qt(W, kind, dict(states=list(reversed(states)), povms=list(reversed(povms))), True, 2, "all")
        return a, b

    def inputs(self, W, cfg, mk):
        which, kind = cfg
        qa, qb = self._qts(W, kind)
        f = [mk.array(f"f{j}_", qa.num_outcomes(j)) for j in range(qa.num_schedules)]
        g = [mk.array(f"g{j}_", qb.num_outcomes(j)) for j in range(qb.num_schedules)]
        return dict(f=f, g=g)

    def run(self, W, cfg, inp):
        which, kind = cfg
        std = "quara.protocol.qtomography.standard."
        mk_est = (lambda: W.mod(std + "linear_estimator").LinearEstimator()) if which == "linear" else \
                 (lambda: W.mod(std + "projected_linear_estimator").ProjectedLinearEstimator())
        qa, qb = self._qts(W, kind)
        d1 = [(100, x) for x in inp["f"]]
        d2 = [(100, x) for x in inp["g"]]
        used = mk_est()
        used.calc_estimate(qa, d1)
        got = used.calc_estimate(qb, d2).estimated_var
        want = mk_est().calc_estimate(qb, d2).estimated_var
        return dict(got=got, want=want)

    def post(self, W, cfg, inp, out):
        return [eq("re-used-estimator==fresh-estimator", out["got"], out["want"],
                   "the estimate depends on the tomography and the data given to THIS call, not on what the estimator object was used for before")]

    def canary(self, W, cfg, inp, out):
        return [eq("canary", out["got"], 2 * out["want"] + 1, "(false)")]


class ExperimentCopyIndependent(E2Contract):
    """Experiment.copy() shares no list with the original, and the tomography classes' data generation (which works on a copy) leaves the
    tomography object's own experiment as it was"""
    name = "Experiment.copy / tomography objects unchanged by data generation"
    prop = "C13"
    targets = ("quara.qcircuit.experiment:Experiment.copy", "quara.protocol.qtomography.standard.standard_qmpt:StandardQmpt.generate_prob_dists_sequence",
               "quara.protocol.qtomography.standard.standard_qst:StandardQst.generate_prob_dists_sequence",
               "quara.protocol.qtomography.standard.standard_povmt:StandardPovmt.generate_prob_dists_sequence",
               "quara.protocol.qtomography.standard.standard_qpt:StandardQpt.generate_prob_dists_sequence")
    frame = False
    n_conformance = 0
    max_paths = 16

    def configs(self, tier):
        return ["qst", "povmt", "qpt", "qmpt"]

    def inputs(self, W, cfg, mk):
        return dict(probe=mk.real("probe"))

    def run(self, W, cfg, inp):
        from .C09_all import exact_testers
        from .C08_all import build_qt, UNKNOWN
        from .C03_e2 import empty_obj
        np = W.np
        c_sys, states, povms = exact_testers(W, "1q", False)
        qt = build_qt(W, cfg, dict(states=states, povms=povms), True, 2, "all")
        exp = qt.experiment if hasattr(qt, "experiment") else qt._experiment
        lists = lambda e: dict(states=list(e.states), povms=list(e.povms), gates=list(e.gates), mprocesses=list(e.mprocesses), schedules=[list(s) for s in e.schedules])
        before = lists(exp)
        ident = lambda a, b: all(len(a[k]) == len(b[k]) and all(x is y for x, y in zip(a[k], b[k])) for k in ("states", "povms", "gates", "mprocesses")) and a["schedules"] == b["schedules"]
        # (1) a copy shares no list
        cp = exp.copy()
        shares = any(getattr(cp, k) is getattr(exp, k) for k in ("states", "povms", "gates", "mprocesses", "schedules"))
        for k in ("states", "povms", "gates", "mprocesses"):
            lst = getattr(cp, k)
            if len(lst) > 0:
                lst[0] = None if lst[0] is not None else 0
        after_copy_edit = ident(before, lists(exp))
        # (2) data generation works on a copy
        kind = UNKNOWN[cfg]
        tmpl = empty_obj(W, kind, c_sys, 2, True)
        var = {"state": [0.1, 0.2, 0.3], "povm": [0.7, 0.1, 0.0, 0.2], "gate": [0, 0.5, 0, 0, 0, 0, 0.5, 0, 0.1, 0, 0, 0.6],
               "mprocess": [0.5, 0, 0, 0.1] + [0, 0.25, 0, 0, 0, 0, 0.25, 0, 0.1, 0, 0, 0.3] + [0, 0.25, 0, 0, 0, 0, 0.25, 0, -0.1, 0, 0, 0.3]}[kind]
        obj = tmpl.generate_from_var(np.array(var, dtype=np.float64))
        qt.generate_prob_dists_sequence(obj)
        after_generation = ident(before, lists(exp))
        return dict(shares=shares, after_copy_edit=after_copy_edit, after_generation=after_generation)

    def post(self, W, cfg, inp, out):
        return [eq("copy-shares-no-list", out["shares"], False, "Experiment.copy() has its own states / povms / gates / mprocesses / schedules lists"),
                eq("editing-the-copy-leaves-the-original", out["after_copy_edit"], True, "assigning into the copy's lists does not change the original experiment"),
                eq("data-generation-leaves-the-tomography-object", out["after_generation"], True,
                   "generating the distributions of a candidate object leaves the tomography object's experiment (in particular the empty slot of the unknown) as it was")]


class MProcessCopyIndependent(E2Contract):
    """MProcess.copy() of a sampling measurement process that owns a Generator: the copy has its own generator (drawing from the copy does not
    advance the original's stream) and its own HS arrays"""
    name = "MProcess.copy (sampling mode)"
    prop = "C13"
    targets = ("quara.objects.mprocess:MProcess.copy", "quara.objects.mprocess:MProcess._copy", "quara.objects.mprocess:MProcess.set_mode_sampling")
    frame = False
    n_conformance = 0
    max_paths = 16

    def configs(self, tier):
        return ["generator", "int-seed"]

    def inputs(self, W, cfg, mk):
        return dict(probe=mk.real("probe"))

    def run(self, W, cfg, inp):
        np = W.np
        c_sys = make_csys(W, "1q")
        hss = [np.array([[0.5, 0, 0, 0.5], [0, 0, 0, 0], [0, 0, 0, 0], [0.5, 0, 0, 0.5]], dtype=np.float64),
               np.array([[0.5, 0, 0, -0.5], [0, 0, 0, 0], [0, 0, 0, 0], [-0.5, 0, 0, 0.5]], dtype=np.float64)]
        rnd = np.random
        src = rnd.Generator(rnd.MT19937(3)) if cfg == "generator" else 3
        mp = W.mod("quara.objects.mprocess").MProcess(c_sys, hss, mode_sampling=True, random_seed_or_generator=src, is_physicality_required=False)
        state = W.mod("quara.objects.state").State(c_sys, np.array([1, 0.3, 0.2, 0.1], dtype=np.float64) / np.sqrt(2), is_physicality_required=False)
        cp = mp.copy()
        pos = (lambda g: g.pos) if W.symbolic else (lambda g: str(g.bit_generator.state))
        stream = mp._random_state
        before = pos(stream)
        W.mod("quara.objects.operators").compose_qoperations(cp, state)
        after = pos(stream)
        shared_gen = cfg == "generator" and cp.random_seed_or_generator is mp.random_seed_or_generator
        shared_arrays = any(a is b for a, b in zip(cp.hss, mp.hss))
        return dict(original_stream_untouched=before == after, shared_gen=bool(shared_gen), shared_stream=cp._random_state is mp._random_state,
                    shared_arrays=shared_arrays, mode=cp.mode_sampling)

    def post(self, W, cfg, inp, out):
        return [eq("drawing-from-the-copy-leaves-the-original-stream", out["original_stream_untouched"], True,
                   "sampling an outcome with the copy does not advance the original's random stream"),
                eq("copy-owns-its-generator", [out["shared_gen"], out["shared_stream"]], [False, False], "the copy shares neither the generator object nor the stream"),
                eq("copy-owns-its-arrays", out["shared_arrays"], False, "the copy's HS arrays are its own"),
                eq("mode-kept", out["mode"], True, "the copy samples as the original does")]


class ReplaceProbDistFrame(E2Contract):
    """matrix_util.replace_prob_dist on a distribution that HAS entries below the threshold (the regime in which it edits values): the result is
    the documented replacement and the caller's array is left as it was (frame) - the inverse-covariance weights and the Fisher matrix go through it"""
    name = "matrix_util.replace_prob_dist (clipping regime)"
    prop = "C13"
    targets = ("quara.utils.matrix_util:replace_prob_dist",)
    frame = True
    n_conformance = 2
    max_paths = 16

    def configs(self, tier):
        return [(3, (1,)), (4, (0, 2))]

    def inputs(self, W, cfg, mk):
        n, zeros = cfg
        q = mk.array("q", n)
        for k in range(n):
            if k in zeros:
                q[k] = 0.0
            else:
                mk.require(q[k] >= 1e-3)
                mk.require(q[k] <= 1)
        return dict(q=q)

    def sample(self, cfg, names, rng):
        return {nm: rng.uniform(0.05, 0.9) for nm in names}

    def run(self, W, cfg, inp):
        return W.mod("quara.utils.matrix_util").replace_prob_dist(inp["q"])

    def post(self, W, cfg, inp, out):
        n, zeros = cfg
        eps = 1e-8
        want = [eps if k in zeros else inp["q"][k] - eps * len(zeros) / (n - len(zeros)) for k in range(n)]
        return [eq("documented-replacement", out, want, "entries below eps become eps, the others give up eps * (number replaced) / (number kept) each")]

"""C07: tensor products and embeddings respect subsystem structure.

Reference semantics (independent of the code): with subsystems sorted by ascending name,
  composite basis element (i1,..,in)  ==  B^(1)_i1 (x) ... (x) B^(n)_in          (checked as its own clause)
  product state vec     == kron of the factor vecs in ascending name order
  product gate HS       == kron of the factor HS matrices in ascending name order
  product POVM element (x1,..,xn) (outcomes of ascending-name factors, row-major) == kron of the element vecs
  product MProcess hs   likewise, row-major in the reported shape
"""
import itertools

from qverif.symtwin.verify import E2Contract, eq, true, Raised
from ._cfg import DIMS

OPS = "quara.objects.operators"
MU = "quara.utils.matrix_util"


def esys(W, name, dim):
    mb = W.mod("quara.objects.matrix_basis")
    es = W.mod("quara.objects.elemental_system")
    basis = mb.get_normalized_pauli_basis() if dim == 2 else mb.get_normalized_gell_mann_basis()
    return es.ElementalSystem(name, basis)


def single(W, e):
    return W.mod("quara.objects.composite_system").CompositeSystem([e])


def make_factor(W, mk, kind, e, m, tag):
    c = single(W, e)
    n = c.dim ** 2
    kw = dict(is_physicality_required=False)
    if kind == "state":
        return W.mod("quara.objects.state").State(c, mk.array(tag, n), **kw)
    if kind == "povm":
        return W.mod("quara.objects.povm").Povm(c, [mk.array(f"{tag}{x}_", n) for x in range(m)], **kw)
    if kind == "gate":
        return W.mod("quara.objects.gate").Gate(c, mk.array(tag, (n, n)), **kw)
    return W.mod("quara.objects.mprocess").MProcess(c, [mk.array(f"{tag}{x}_", (n, n)) for x in range(m)], **kw)


def arrays_of(obj):
    t = type(obj).__name__
    if t == "State":
        return [obj.vec]
    if t == "Povm":
        return list(obj.vecs)
    if t == "Gate":
        return [obj.hs]
    return list(obj.hss)


def kron_all(np, xs):
    out = xs[0]
    for x in xs[1:]:
        out = np.kron(out, x)
    return out


def arrangements(tier):
    """(names in argument order, dims by argument position)"""
    out = []
    for n in (2, 3):
        for names in itertools.permutations(range(n)):
            dim_choices = itertools.product([2, 3], repeat=n) if n == 2 else [(2, 2, 2), (2, 3, 2), (3, 2, 2)]
            for dims in dim_choices:
                out.append((tuple(names), tuple(dims)))
    if tier == "thorough":
        for names in itertools.permutations(range(4)):
            out.append((tuple(names), (2, 2, 2, 2)))
    else:
        out += [((3, 2, 1, 0), (2, 2, 2, 2)), ((0, 1, 3, 2), (2, 2, 2, 2)), ((1, 0, 2, 3), (2, 2, 2, 2)), ((2, 0, 3, 1), (2, 2, 2, 2))]
    return out


class TensorProduct(E2Contract):
    name = "tensor_product"
    prop = "C07"
    targets = (OPS + ":tensor_product", OPS + ":_tensor_product", OPS + ":_tensor_product_State_State", OPS + ":_tensor_product_Povm_Povm",
               OPS + ":_tensor_product_Gate_Gate", OPS + ":_tensor_product_hs_hs", OPS + ":_tensor_product_MProcess_MProcess",
               OPS + ":_tensor_product_Gate_MProcess", OPS + ":_tensor_product_MProcess_Gate",
               MU + ":calc_permutation_matrix", MU + ":_left_permutation_matrix", MU + ":_K", MU + ":convert_list_by_permutation_matrix",
               "quara.objects.composite_system:CompositeSystem.__init__")
    n_conformance = 1
    may_raise = False

    def configs(self, tier):
        out = []
        for names, dims in arrangements(tier):
            n = len(names)
            tot = 1
            for d in dims:
                tot *= d * d
            out.append(("state", names, dims))
            if tot <= 144:
                out.append(("povm", names, dims))
            if n == 2 and tot <= 36:
                out.append(("gate", names, dims))
                out.append(("mprocess", names, dims))
                out.append(("gate-mprocess", names, dims))
            elif n == 3 and tot <= 64 and tier == "thorough":
                out.append(("gate", names, dims))
        return out

    def inputs(self, W, cfg, mk):
        kind, names, dims = cfg
        es = [esys(W, nm, d) for nm, d in zip(names, dims)]
        objs = []
        for k, (e, d) in enumerate(zip(es, dims)):
            m = 2 + k          # pairwise different outcome counts
            if kind == "gate-mprocess":
                fk = "gate" if k % 2 == 0 else "mprocess"
            else:
                fk = kind
            objs.append(make_factor(W, mk, fk, e, m, f"f{k}_"))
        return dict(objs=objs, es=es)

    def run(self, W, cfg, inp):
        ops = W.mod(OPS)
        r = ops.tensor_product(*inp["objs"])
        out = dict(arrays=arrays_of(r), esys_names=[e.name for e in r.composite_system.elemental_systems],
                   basis=[W.S.dense(b) for b in r.composite_system.basis()] if r.composite_system.dim <= 6 else None)
        t = type(r).__name__
        if t == "Povm":
            out["nums_local_outcomes"] = list(r.nums_local_outcomes)
        if t == "MProcess":
            out["shape"] = list(r.shape)
        # a second grouping of the same product (right-nested), where the API allows it
        objs = inp["objs"]
        if len(objs) >= 3:
            r2 = ops.tensor_product(objs[0], ops.tensor_product(*objs[1:]))
            out["arrays_right_nested"] = arrays_of(r2)
        return out

    def post(self, W, cfg, inp, out):
        kind, names, dims = cfg
        np = W.np
        S = W.S
        objs = inp["objs"]
        order = sorted(range(len(names)), key=lambda k: names[k])       # factors in ascending name
        sorted_objs = [objs[k] for k in order]
        cl = [eq("systems-ascending", out["esys_names"], sorted(names), "the product lives on the subsystems in ascending name order")]
        if out["basis"] is not None:
            bases = [S.basis(o.composite_system) for o in sorted_objs]
            ref = [kron_all(np, list(t)) for t in itertools.product(*bases)]
            cl.append(eq("composite-basis==kron-of-elemental-bases", out["basis"], ref,
                         "composite basis element (i1..in) == B_i1 (x) ... (x) B_in over ascending names"))
        fac = [arrays_of(o) for o in sorted_objs]            # factor arrays, factors in ascending name order
        counts = [len(a) for a in fac]
        # the reported outcome shape says which axis belongs to which factor (outcome counts are pairwise different);
        # the property demands the layout to match the REPORTED shape, whichever factor order that is
        reported = out.get("nums_local_outcomes", out.get("shape"))
        measuring = [k for k, c in enumerate(counts) if c > 1]
        if reported is None:
            ref = [kron_all(np, list(t)) for t in itertools.product(*fac)]
        else:
            want = sorted(counts[k] for k in measuring)
            cl.append(eq("outcome-shape", sorted(int(x) for x in reported), want,
                         "the reported outcome shape is a permutation of the factors' outcome counts"))
            axis_factor = []
            for c in reported:
                ks = [k for k in measuring if counts[k] == int(c)]
                axis_factor.append(ks[0] if ks else None)
            ref = []
            if None not in axis_factor and len(axis_factor) == len(measuring):
                for idx in itertools.product(*[range(int(c)) for c in reported]):
                    pick = [0] * len(fac)
                    for ax, k in enumerate(axis_factor):
                        pick[k] = idx[ax]
                    ref.append(kron_all(np, [fac[k][pick[k]] for k in range(len(fac))]))
        cl.append(eq("kronecker-product", out["arrays"], ref,
                     "element (x1..xn), row-major in the REPORTED outcome shape, == Kronecker product (ascending subsystem names) of the factors' arrays"))
        if "arrays_right_nested" in out:
            cl.append(eq("grouping-independent", out["arrays_right_nested"], ref, "right-nested grouping gives the same product"))
        return cl

    def canary(self, W, cfg, inp, out):
        kind, names, dims = cfg
        np = W.np
        objs = inp["objs"]
        order = sorted(range(len(names)), key=lambda k: -names[k])
        fac = [arrays_of(objs[k]) for k in order]
        ref = [kron_all(np, list(t)) for t in itertools.product(*fac)]
        return [eq("canary", out["arrays"][:1], [2 * r + 1 for r in ref[:1]], "(false)")]


class ProductStatistics(E2Contract):
    """product measurements on product states give product statistics, laid out as the reported outcome shape says"""
    name = "product statistics"
    prop = "C07"
    targets = (OPS + ":tensor_product", OPS + ":compose_qoperations")
    n_conformance = 1
    max_paths = 8
    frame = False

    def configs(self, tier):
        out = [((0, 1), (2, 2)), ((1, 0), (2, 2)), ((1, 0), (2, 3)), ((0, 1), (3, 2))]
        if tier == "thorough":
            out += [((2, 0, 1), (2, 2, 2)), ((1, 0), (3, 3))]
        return out

    def inputs(self, W, cfg, mk):
        from .C06_all import EPS
        names, dims = cfg
        es = [esys(W, nm, d) for nm, d in zip(names, dims)]
        states, povms = [], []
        np = W.np
        S = W.S
        for k, e in enumerate(es):
            c = single(W, e)
            tmpl_s = W.mod("quara.objects.state").State(c, np.zeros(c.dim ** 2), is_physicality_required=False)
            tmpl_p = W.mod("quara.objects.povm").Povm(c, [np.zeros(c.dim ** 2) for _ in range(2 + k)], is_physicality_required=False)
            st = tmpl_s.generate_from_var(mk.array(f"s{k}_", c.dim ** 2 - 1))
            pv = tmpl_p.generate_from_var(mk.array(f"p{k}_", (1 + k) * c.dim ** 2))
            states.append(st)
            povms.append(pv)
        # regular regime of every joint probability (stated on the product polynomial itself)
        local = [[np.dot(v, st.vec) for v in pv.vecs] for st, pv in zip(states, povms)]
        for t in itertools.product(*local):
            p = 1
            for x in t:
                p = p * x
            mk.require(p >= 2 * EPS)
        return dict(states=states, povms=povms)

    def sample(self, cfg, names, rng):
        import math
        nm, dims = cfg
        vals = {n: rng.uniform(-0.05, 0.05) for n in names}
        for k, d in enumerate(dims):
            m = 2 + k
            for x in range(m - 1):
                vals[f"p{k}__{x * d * d}"] = math.sqrt(d) / m + rng.uniform(-0.02, 0.02)
        return vals

    def run(self, W, cfg, inp):
        ops = W.mod(OPS)
        st = ops.tensor_product(*inp["states"])
        pv = ops.tensor_product(*inp["povms"])
        dist = ops.compose_qoperations(pv, st)
        return dict(ps=dist.ps, shape=list(dist.shape), nlo=list(pv.nums_local_outcomes))

    def post(self, W, cfg, inp, out):
        names, dims = cfg
        np = W.np
        order = sorted(range(len(names)), key=lambda k: names[k])
        local = [[np.dot(v, inp["states"][k].vec) for v in inp["povms"][k].vecs] for k in order]
        ref = []
        for t in itertools.product(*local):
            p = 1
            for x in t:
                p = p * x
            ref.append(p)
        counts = [len(l) for l in local]
        return [eq("product-statistics", out["ps"], ref, "p(x1..xn) == product of the local Born probabilities, row-major over ascending-name factors"),
                eq("reported-outcome-shape", out["nlo"], counts, "nums_local_outcomes == local outcome counts in ascending name order")]


class PermutationMatrix(E2Contract):
    """calc_permutation_matrix has only discrete inputs: enumerated over the arrangements in scope (bounded stand-in)"""
    name = "calc_permutation_matrix"
    prop = "C07"
    targets = (MU + ":calc_permutation_matrix", MU + ":_left_permutation_matrix", MU + ":_check_cross_system_position", MU + ":_K", MU + ":_U")
    bounded = "every permutation of 2-4 subsystem names with block sizes in {2,3,4,9}, total size <= 1296"
    n_conformance = 1

    def configs(self, tier):
        out = []
        for n in (2, 3, 4):
            size_sets = {2: [(2, 3), (4, 9), (9, 4), (3, 3)], 3: [(2, 3, 4), (4, 4, 9), (3, 2, 2)],
                         4: [(2, 3, 2, 3), (4, 4, 4, 4)] + ([(4, 9, 4, 9), (2, 3, 4, 5)] if tier == "thorough" else [])}[n]
            for order in itertools.permutations(range(n)):
                for sizes in size_sets:
                    out.append((tuple(order), tuple(sizes)))
        return out

    def inputs(self, W, cfg, mk):
        return dict(order=list(cfg[0]), sizes=list(cfg[1]), probe=mk.real("probe"))

    def run(self, W, cfg, inp):
        return W.mod(MU).calc_permutation_matrix(inp["order"], inp["sizes"])

    def post(self, W, cfg, inp, out):
        np = W.np
        order, sizes = cfg
        n = len(order)
        total = 1
        for s in sizes:
            total *= s
        # spec: P (v_1 (x) ... (x) v_n) = v_sigma(1) (x) ... with sigma the stable sort of `order`
        srt = sorted(range(n), key=lambda k: order[k])
        new_sizes = [sizes[k] for k in srt]
        rows = []
        ref = np.zeros((total, total))
        for idx in itertools.product(*[range(s) for s in sizes]):
            col = 0
            for i, s in zip(idx, sizes):
                col = col * s + i
            nidx = [idx[k] for k in srt]
            row = 0
            for i, s in zip(nidx, new_sizes):
                row = row * s + i
            ref[row, col] = 1
        return [eq("permutation", out, ref, "P maps e_(i1..in) to e_(i_sigma(1)..i_sigma(n)), sigma = stable sort of the subsystem names")]


class DenseBasisProduct(E2Contract):
    """tensor_product on plain (dense) MatrixBasis objects - the branch CompositeSystem does not use: the product basis of DIFFERENT bases
    is [kron(b1_i, b2_j)] with the first argument's index outermost (row-major), for two and three factors and both groupings. The inputs
    are catalogue bases (discrete): enumerated, reported as a bounded stand-in."""
    name = "tensor_product(MatrixBasis, MatrixBasis)"
    prop = "C07"
    targets = (OPS + ":tensor_product", OPS + ":_tensor_product")
    bounded = "all ordered pairs and selected triples of the catalogue bases comp(2), Pauli, normalised Hermitian(2), comp(3), Gell-Mann"
    frame = False
    n_conformance = 1

    NAMES = ("comp2", "pauli", "nherm2", "comp3", "gellmann")

    def configs(self, tier):
        out = [(a, b) for a in self.NAMES for b in self.NAMES if a != b]
        out += [("comp2", "pauli", "nherm2"), ("pauli", "comp3", "comp2"), ("nherm2", "comp2", "gellmann")]
        out += [c + ("right",) for c in (("comp2", "pauli", "nherm2"), ("pauli", "comp3", "comp2"))]
        return out

    def inputs(self, W, cfg, mk):
        return dict(probe=mk.real("probe"))

    def _basis(self, W, n):
        mb = W.mod("quara.objects.matrix_basis")
        return {"comp2": lambda: mb.get_comp_basis(2), "pauli": mb.get_pauli_basis, "nherm2": lambda: mb.get_normalized_hermitian_basis(2),
                "comp3": lambda: mb.get_comp_basis(3), "gellmann": mb.get_gell_mann_basis}[n]()

    def run(self, W, cfg, inp):
        ops = W.mod(OPS)
        right = cfg[-1] == "right"
        names = [n for n in cfg if n != "right"]
        bs = [self._basis(W, n) for n in names]
        if right:
            res = ops.tensor_product(bs[0], ops.tensor_product(*bs[1:]))
        else:
            res = ops.tensor_product(*bs)
        return dict(kind=type(res).__name__, basis=[m for m in res.basis], factors=[[m for m in b.basis] for b in bs])

    def post(self, W, cfg, inp, out):
        np = W.np
        want = []
        for combo in itertools.product(*out["factors"]):
            want.append(kron_all(np, list(combo)))
        return [eq("dense-basis-kind", out["kind"], "MatrixBasis", "dense bases give a dense MatrixBasis"),
                eq("product-basis==kron-of-arguments-row-major", out["basis"], want,
                   "element (i1,..,in) of the product basis is B1_i1 (x) ... (x) Bn_in, first argument outermost")]


# ------------------------------------------------------------------ qutrit -> two-qubit embedding

def _embed_setup(W):
    np = W.np
    e3 = esys(W, 0, 3)
    c3 = single(W, e3)
    eq_ = [esys(W, 10, 2), esys(W, 11, 2)]
    c4 = W.mod("quara.objects.composite_system").CompositeSystem(eq_)
    V = np.zeros((4, 3), dtype=np.complex128)       # the isometry |k> -> k-th computational state of the qubit pair (k = 0,1,2)
    for k in range(3):
        V[k, k] = 1
    return c3, eq_, c4, V


class EmbeddingStatePovm(E2Contract):
    """embedding a qutrit state / POVM into two qubits: physicality and all statistics of embedded inputs are preserved"""
    name = "embed_qoperation_from_qutrits_to_qubits (state, POVM)"
    prop = "C07"
    targets = ("quara.objects.qoperation:QOperation.embed_qoperation_from_qutrits_to_qubits", "quara.objects.qoperation:QOperation._permutation_matrix_from_qutrits_to_qubits",
               "quara.objects.qoperation:QOperation._calc_matrix_from_qutrits_to_qubits", "quara.objects.state:State._embed_qoperation_from_qutrits_to_qubits",
               "quara.objects.povm:Povm._embed_qoperation_from_qutrits_to_qubits")
    n_conformance = 1
    max_paths = 8
    frame = True

    def configs(self, tier):
        return [(2,), (3,)] + ([(4,)] if tier == "thorough" else [])

    def inputs(self, W, cfg, mk):
        (m,) = cfg
        c3, eq_, c4, V = _embed_setup(W)
        st = W.mod("quara.objects.state").State(c3, mk.array("s", 9), is_physicality_required=False)
        pv = W.mod("quara.objects.povm").Povm(c3, [mk.array(f"p{x}_", 9) for x in range(m)], is_physicality_required=False)
        return dict(st=st, pv=pv)

    def run(self, W, cfg, inp):
        c3, eq_, c4, V = _embed_setup(W)
        Q = W.mod("quara.objects.qoperation").QOperation
        st2 = Q.embed_qoperation_from_qutrits_to_qubits(inp["st"], eq_)
        pv2 = Q.embed_qoperation_from_qutrits_to_qubits(inp["pv"], eq_)
        return dict(st=st2.vec, pv=list(pv2.vecs), dim=st2.composite_system.dim, kinds=(type(st2).__name__, type(pv2).__name__))

    def post(self, W, cfg, inp, out):
        (m,) = cfg
        np, S = W.np, W.S
        c3, eq_, c4, V = _embed_setup(W)
        Vd = V.conj().T
        rho = S.op_from_vec(c3, inp["st"].vec)
        rho2 = S.op_from_vec(c4, out["st"])
        comp = np.eye(4, dtype=np.complex128) - V @ Vd
        atol = W.mod("quara.settings").Settings.get_atol()
        img = V @ rho @ Vd
        cl = [eq("types", list(out["kinds"]), ["State", "Povm"], "the embedded objects keep their type"),
              eq("on-two-qubits", out["dim"], 4, "the result lives on the two-qubit system"),
              true("state==isometric-image", S.truncated(out["st"], S.vec_from_op(c4, img), atol),
                   "rho_emb == V rho V^dagger (up to the documented truncation of entries below atol): trace, hermiticity and positivity are those of rho")]
        for x in range(m):
            E = S.op_from_vec(c3, inp["pv"].vecs[x])
            E2 = V @ E @ Vd + comp / m
            cl.append(true(f"povm-element==image+complement/m[{x}]", S.truncated(out["pv"][x], S.vec_from_op(c4, E2), atol),
                           "E_emb == V E V^dagger + (1/m)(I - V V^dagger) (up to truncation): positive when E is, and the elements sum to I when the qutrit elements do"))
            cl.append(eq(f"lemma:image-statistics[{x}]", np.trace(E2 @ img), np.trace(E @ rho),
                         "Tr[(V E V^dagger + (I - V V^dagger)/m) V rho V^dagger] == Tr[E rho]: the images have the statistics of the originals"))
        return cl

    def canary(self, W, cfg, inp, out):
        np, S = W.np, W.S
        c3, eq_, c4, V = _embed_setup(W)
        return [eq("canary", np.trace(S.op_from_vec(c4, out["pv"][0])), np.trace(S.op_from_vec(c3, inp["pv"].vecs[0])), "(false) embedding preserves the trace of POVM elements")]


class EmbeddingPermutation(E2Contract):
    """the permutation that places n qutrits inside 2n qubits: a permutation matrix whose first 3^n columns are the isometry V (x) ... (x) V
    (V: qutrit level k -> k-th computational state of a qubit pair) and whose remaining columns are the unused levels in ascending order"""
    name = "_permutation_matrix_from_qutrits_to_qubits"
    prop = "C07"
    targets = ("quara.objects.qoperation:QOperation._permutation_matrix_from_qutrits_to_qubits",)
    n_conformance = 1
    frame = False

    def configs(self, tier):
        return [1, 2, 3]

    def inputs(self, W, cfg, mk):
        return dict(probe=mk.real("probe"))

    def run(self, W, cfg, inp):
        return W.mod("quara.objects.qoperation").QOperation._permutation_matrix_from_qutrits_to_qubits(cfg)

    def post(self, W, cfg, inp, out):
        import itertools
        np = W.np
        n = cfg
        V1 = np.zeros((4, 3))
        for k in range(3):
            V1[k, k] = 1
        V = V1
        for _ in range(n - 1):
            V = np.kron(V, V1)
        tuples = list(itertools.product(range(4), repeat=n))
        unused = [i for i, t in enumerate(tuples) if 3 in t]
        rest = np.zeros((4 ** n, 4 ** n - 3 ** n))
        for k, i in enumerate(unused):
            rest[i, k] = 1
        P = np.asarray(out) if not W.symbolic else out
        return [eq("shape", list(out.shape), [4 ** n, 4 ** n], "4^n x 4^n"),
                eq("isometry-columns", out[:, :3 ** n], V, "the first 3^n columns are V (x) ... (x) V"),
                eq("unused-level-columns", out[:, 3 ** n:], rest, "the remaining columns are the levels containing the unused state, in ascending order"),
                eq("permutation", out.T @ out, np.eye(4 ** n), "P^T P == I (a permutation matrix: no two columns collide)")]

    def canary(self, W, cfg, inp, out):
        return [eq("canary", out, 2 * W.np.eye(4 ** cfg), "(false) the permutation is twice the identity")]


class EmbeddingTwoQutrits(E2Contract):
    """embedding a TWO-qutrit state / POVM into four qubits (symbolic in a few entries of the coefficient vectors, the rest fixed rationals)"""
    name = "embed_qoperation_from_qutrits_to_qubits (two qutrits)"
    prop = "C07"
    targets = ("quara.objects.qoperation:QOperation.embed_qoperation_from_qutrits_to_qubits", "quara.objects.qoperation:QOperation._permutation_matrix_from_qutrits_to_qubits",
               "quara.objects.qoperation:QOperation._calc_matrix_from_qutrits_to_qubits", "quara.objects.state:State._embed_qoperation_from_qutrits_to_qubits",
               "quara.objects.povm:Povm._embed_qoperation_from_qutrits_to_qubits")
    n_conformance = 1
    max_paths = 8
    frame = True
    weight = 3.0

    def configs(self, tier):
        return [("state",), ("povm",)]

    @staticmethod
    def _setup(W):
        np = W.np
        es3 = [esys(W, 0, 3), esys(W, 1, 3)]
        c9 = W.mod("quara.objects.composite_system").CompositeSystem(es3)
        eq_ = [esys(W, 10 + k, 2) for k in range(4)]
        c16 = W.mod("quara.objects.composite_system").CompositeSystem(eq_)
        V1 = np.zeros((4, 3), dtype=np.complex128)
        for k in range(3):
            V1[k, k] = 1
        return c9, eq_, c16, np.kron(V1, V1)

    @staticmethod
    def _vec(W, mk, tag, shift):
        np = W.np
        free = [0, 1, 7, 13, 40, 44, 80]
        sym = mk.array(tag, len(free))
        v = np.array([((5 * k + shift) % 11 - 5) / 16 for k in range(81)], dtype=np.float64)
        for j, k in enumerate(free):
            v[k] = sym[j]
        return v

    def inputs(self, W, cfg, mk):
        c9, eq_, c16, V = self._setup(W)
        if cfg[0] == "state":
            return dict(obj=W.mod("quara.objects.state").State(c9, self._vec(W, mk, "s", 1), is_physicality_required=False))
        return dict(obj=W.mod("quara.objects.povm").Povm(c9, [self._vec(W, mk, f"p{x}_", 2 + 3 * x) for x in range(2)], is_physicality_required=False))

    def run(self, W, cfg, inp):
        c9, eq_, c16, V = self._setup(W)
        Q = W.mod("quara.objects.qoperation").QOperation
        o2 = Q.embed_qoperation_from_qutrits_to_qubits(inp["obj"], eq_)
        return dict(arrays=arrays_of(o2), dim=o2.composite_system.dim, kind=type(o2).__name__)

    def post(self, W, cfg, inp, out):
        np, S = W.np, W.S
        c9, eq_, c16, V = self._setup(W)
        Vd = V.conj().T
        atol = W.mod("quara.settings").Settings.get_atol()
        cl = [eq("type", out["kind"], "State" if cfg[0] == "state" else "Povm", "the embedded object keeps its type"),
              eq("on-four-qubits", out["dim"], 16, "the result lives on the four-qubit system")]
        src = arrays_of(inp["obj"])
        comp = np.eye(16, dtype=np.complex128) - V @ Vd
        for x, a in enumerate(src):
            A = S.op_from_vec(c9, a)
            img = V @ A @ Vd + (comp / len(src) if cfg[0] == "povm" else 0 * comp)
            cl.append(true(f"element==isometric-image[{x}]", S.truncated(out["arrays"][x], S.vec_from_op(c16, img), atol),
                           "embedded == (V (x) V) A (V (x) V)^dagger (+ (1/m)(I - VV^dagger) for POVM elements), up to the documented truncation"))
        return cl

    def canary(self, W, cfg, inp, out):
        return [eq("canary", out["arrays"][0][:4], 2 * out["arrays"][0][:4] + 1, "(false)")]


def _qutrit_channels(W):
    """concrete non-unitary qutrit channels (Kraus rank >= 2) and instruments, as Kraus operators"""
    np = W.np
    I3 = np.eye(3, dtype=np.complex128)
    X = np.array([[0, 0, 1], [1, 0, 0], [0, 1, 0]], dtype=np.complex128)
    Z = np.array([[1, 0, 0], [0, -1, 0], [0, 0, 1]], dtype=np.complex128)
    P0 = np.array([[1, 0, 0], [0, 0, 0], [0, 0, 0]], dtype=np.complex128)
    P12 = I3 - P0
    h = np.sqrt(1 / 2)
    q = np.sqrt(1 / 4)
    t = np.sqrt(3 / 4)
    return {"unitary": [[X]], "mixed-unitary-2": [[h * I3, h * X]], "mixed-unitary-3": [[h * I3, q * X, q * Z]],
            "dephasing-1/4": [[t * I3, q * Z]],
            "projective-instrument": [[P0], [P12]], "instrument-rank2": [[h * P0, h * X @ P0], [P12]]}


class EmbeddingChannels(E2Contract):
    """embedding concrete qutrit gates / measurement processes of Kraus rank >= 1 (a finite list of instances: bounded stand-in)"""
    name = "embed_qoperation_from_qutrits_to_qubits (gate, mprocess instances)"
    prop = "C07"
    targets = ("quara.objects.gate:Gate._embed_qoperation_from_qutrits_to_qubits", "quara.objects.mprocess:MProcess._embed_qoperation_from_qutrits_to_qubits",
               "quara.objects.qoperation:QOperation.embed_qoperation_from_qutrits_to_qubits")
    n_conformance = 0
    max_paths = 8
    frame = False
    bounded = "six concrete qutrit channels / instruments of Kraus rank 1..3 (non-unitary included)"

    def configs(self, tier):
        return [("unitary",), ("mixed-unitary-2",), ("mixed-unitary-3",), ("dephasing-1/4",), ("projective-instrument",), ("instrument-rank2",)]

    def inputs(self, W, cfg, mk):
        return dict(probe=mk.real("probe"))

    def run(self, W, cfg, inp):
        np, S = W.np, W.S
        c3, eq_, c4, V = _embed_setup(W)
        kraus = _qutrit_channels(W)[cfg[0]]
        hss = [S.hs_from_kraus(c3, ks) for ks in kraus]
        Q = W.mod("quara.objects.qoperation").QOperation
        if len(hss) == 1:
            obj = W.mod("quara.objects.gate").Gate(c3, np.real(hss[0]), is_physicality_required=False)
        else:
            obj = W.mod("quara.objects.mprocess").MProcess(c3, [np.real(h) for h in hss], is_physicality_required=False)
        emb = Q.embed_qoperation_from_qutrits_to_qubits(obj, eq_)
        out = [emb.hs] if len(hss) == 1 else list(emb.hss)
        return dict(hss=out, src=hss)

    def post(self, W, cfg, inp, out):
        np, S = W.np, W.S
        c3, eq_, c4, V = _embed_setup(W)
        Vd = V.conj().T
        tol = 1e-9
        close = lambda a, b: S.And(*[S.abs(x - y) <= tol for x, y in zip(S.flat(a), S.flat(b))])
        # the linear map rho -> V rho V^dagger on coefficient vectors
        basis3 = S.basis(c3)
        Emb = np.array([S.flat(S.vec_from_op(c4, V @ B @ Vd)) for B in basis3]).T
        total = 0
        cl = []
        for x, (h2, h3) in enumerate(zip(out["hss"], out["src"])):
            total = total + h2
            cl.append(true(f"acts-as-the-qutrit-map-on-embedded-states[{x}]", close(np.real(h2 @ Emb), np.real(Emb @ h3)),
                           "HS_emb vec(V rho V^dagger) == vec(V G(rho) V^dagger) for every rho: all statistics of embedded inputs are preserved"))
            choi = S.choi_from_hs(c4, h2)
            ev = np.linalg.eigvalsh((choi + choi.conj().T) / 2)
            cl.append(true(f"completely-positive[{x}]", S.And(*[e >= -tol for e in S.flat(ev)]), "the Choi matrix of every embedded branch is positive semidefinite"))
        first = np.zeros(16)
        first[0] = 1
        cl.append(true("trace-preserving", close(total[0], first), "the embedded gate (sum of the embedded branches) is trace preserving: physicality is preserved"))
        return cl

"""C19 analytical error formulas: jobs"""
from .C02 import e2_jobs, META as _M

META = dict(_M)
META["assumptions"] = _M["assumptions"] + ["T5 (textbook): multinomial moments E f = p, Cov f = (diag p - p p^T)/n, independent schedules -- assumed, replaces the property's enumeration oracle"]
CLASSES = ["contracts.C19_all:MatrixUtilStatistics", "contracts.C19_all:AnalyticalErrors", "contracts.C19_all:SampleMse", "contracts.C19_all:SampleSeries", "contracts.C19_all:FisherEps"]


def jobs(tier, seed):
    return e2_jobs("C19", CLASSES, tier, seed)

CLAIM = {'engine': 'E2-symtwin', 'level': 'proof',
 'text': 'With exact tester sets, a symbolic true object on its constraint set and symbolic real sample sizes, the analytical covariance of the empirical distributions, its trace (MSE of the empirical distributions), the covariance A^+ Cov A^+T and MSE of the linear estimate in variable and in object parametrisation (against tr(J Cov J^T), J the Jacobian of variables -> stacked parameters), Fisher matrices and the Cramer-Rao bound are proved equal to the textbook multinomial moments propagated through the model; the statistics helpers (squared error, mean, sample std, direct sum, conjugation) compute their definitions.',
 'note': 'Relative to T5 (multinomial moments, assumed) which replaces the enumeration oracle of the property. all-inputs@config: 1 qubit, all four types, regular regime (probabilities >= 1e-6). One KNOWN FINDING (listed in known_findings.json): QMPT object-mode MSE with the constraint built in. Floats as reals.',
 'technique': 'contract-based deductive verification (symbolic execution of the real source -> VCs, exact rational normaliser)'}

"""C03 (E2 part): variables <-> objects, stacked vectors, implied entries, index maps point at the entry."""
from qverif.symtwin.verify import E2Contract, eq, true
from ._cfg import make_csys, DIMS, stacked

MODS = dict(state="quara.objects.state", povm="quara.objects.povm", gate="quara.objects.gate", mprocess="quara.objects.mprocess")
CLS = dict(state="State", povm="Povm", gate="Gate", mprocess="MProcess")


def m_count(m):
    """outcome count; a tuple is a multi-index outcome shape of a measurement process"""
    if isinstance(m, (tuple, list)):
        out = 1
        for k in m:
            out *= k
        return out
    return m


def n_var(kind, d, m, on_para):
    n = d * d
    m = m_count(m)
    if kind == "state":
        return n - 1 if on_para else n
    if kind == "povm":
        return (m - 1) * n if on_para else m * n
    if kind == "gate":
        return n * n - n if on_para else n * n
    return m * n * n - n if on_para else m * n * n


def empty_obj(W, kind, c_sys, m, on_para):
    """a template object of the right type / outcome count (zero parameters)"""
    np = W.np
    n = c_sys.dim ** 2
    mod = W.mod(MODS[kind])
    kw = dict(is_physicality_required=False, on_para_eq_constraint=on_para)
    if kind == "state":
        return mod.State(c_sys, np.zeros(n, dtype=np.float64), **kw)
    if kind == "povm":
        return mod.Povm(c_sys, [np.zeros(n, dtype=np.float64) for _ in range(m)], **kw)
    if kind == "gate":
        return mod.Gate(c_sys, np.zeros((n, n), dtype=np.float64), **kw)
    shape = tuple(m) if isinstance(m, (tuple, list)) else None
    return mod.MProcess(c_sys, [np.zeros((n, n), dtype=np.float64) for _ in range(m_count(m))], shape=shape, **kw)


def all_cfgs(tier):
    out = []
    systems = ["1q", "1qt"] + (["2q"] if tier == "thorough" else [])
    ms = [2, 3] if tier == "quick" else [2, 3, 4, 5]
    for s in systems:
        for on_para in (True, False):
            out.append((s, "state", 0, on_para))
            out.append((s, "gate", 0, on_para))
            for m in ms:
                out.append((s, "povm", m, on_para))
                if not (s == "2q" and m > 3) and not (s == "1qt" and m > 3):
                    out.append((s, "mprocess", m, on_para))
    if tier == "quick":
        out.append(("2q", "state", 0, True))
        out.append(("2q", "povm", 3, True))
    return out


class VarObjectRoundTrip(E2Contract):
    name = "var<->object"
    prop = "C03"
    targets = ("quara.objects.qoperation:QOperation.generate_from_var", "quara.objects.state:State.to_var", "quara.objects.povm:Povm.to_var",
               "quara.objects.gate:Gate.to_var", "quara.objects.mprocess:MProcess.to_var", "quara.objects.mprocess:MProcess.generate_from_var",
               "quara.objects.state:convert_var_to_vec", "quara.objects.state:convert_vec_to_var",
               "quara.objects.povm:convert_var_to_vecs", "quara.objects.povm:convert_vecs_to_var",
               "quara.objects.gate:convert_var_to_hs", "quara.objects.gate:convert_hs_to_var",
               "quara.objects.mprocess:convert_var_to_hss", "quara.objects.mprocess:convert_hss_to_var",
               "*.convert_var_to_stacked_vector", "*.convert_stacked_vector_to_var", "*.to_stacked_vector")

    def configs(self, tier):
        # measurement processes with a multi-index outcome shape (as composition / tensor product produce them) included
        return all_cfgs(tier) + [("1q", "mprocess", (2, 2), True), ("1q", "mprocess", (3, 2), False)] + (
            [("1q", "mprocess", (2, 3), True), ("1qt", "mprocess", (2, 2), False)] if tier == "thorough" else [])

    def inputs(self, W, cfg, mk):
        s, kind, m, on_para = cfg
        c_sys = make_csys(W, s)
        return dict(c_sys=c_sys, var=mk.array("var", n_var(kind, c_sys.dim, m, on_para)))

    def run(self, W, cfg, inp):
        s, kind, m, on_para = cfg
        tmpl = empty_obj(W, kind, inp["c_sys"], m, on_para)
        obj = tmpl.generate_from_var(inp["var"])
        var2 = obj.to_var()
        obj2 = tmpl.generate_from_var(var2)
        cls = type(tmpl)
        sv = cls.convert_var_to_stacked_vector(inp["c_sys"], inp["var"], on_para)
        var3 = cls.convert_stacked_vector_to_var(inp["c_sys"], sv, on_para)
        out = dict(obj=stacked(W, obj), var2=var2, obj2=stacked(W, obj2), sv=sv, var3=var3,
                   to_stacked=obj.to_stacked_vector())
        if kind == "mprocess":
            out["shape"] = [int(k) for k in obj.shape]
        return out

    def post(self, W, cfg, inp, out):
        s, kind, m, on_para = cfg
        np = W.np
        d = inp["c_sys"].dim
        n = d * d
        cl = [eq("var->obj->var", out["var2"], inp["var"], "to_var(generate_from_var(var)) == var"),
              eq("obj->var->obj", out["obj2"], out["obj"], "generate_from_var(to_var(obj)) == obj for obj on the constraint set"),
              eq("stacked==object-entries", out["sv"], np.hstack([a.flatten() for a in out["obj"]]),
                 "convert_var_to_stacked_vector(var) == flattened object generated from var"),
              eq("to_stacked_vector", out["to_stacked"], out["sv"], "obj.to_stacked_vector() == convert_var_to_stacked_vector(var)"),
              eq("stacked->var", out["var3"], inp["var"], "convert_stacked_vector_to_var(convert_var_to_stacked_vector(var)) == var")]
        if kind == "mprocess":
            cl.append(eq("outcome-shape-kept", out["shape"], list(m) if isinstance(m, (tuple, list)) else [m],
                         "generate_from_var keeps the outcome shape of the object it is called on"))
        # implied entries exactly as specified
        if on_para:
            if kind == "state":
                cl.append(eq("implied-entry", out["obj"][0][0], 1 / np.sqrt(d), "vec[0] == 1/sqrt(d)"))
            elif kind == "povm":
                tot = out["obj"][0]
                for v in out["obj"][1:]:
                    tot = tot + v
                e0 = np.zeros(n)
                e0[0] = 1
                cl.append(eq("implied-entry", tot, np.sqrt(d) * e0, "sum_x vecs[x] == sqrt(d) e0 (last element implied)"))
            elif kind == "gate":
                e0 = np.zeros(n)
                e0[0] = 1
                cl.append(eq("implied-entry", out["obj"][0][0], e0, "first row of HS == e0"))
            else:
                tot = out["obj"][0][0]
                for h in out["obj"][1:]:
                    tot = tot + h[0]
                e0 = np.zeros(n)
                e0[0] = 1
                cl.append(eq("implied-entry", tot, e0, "sum_x first row of hss[x] == e0 (first row of the last HS implied)"))
        # every variable index points at the entry holding its value
        mod = W.mod(MODS[kind])
        vals = []
        for k in range(out["var2"].shape[0]):
            if kind == "state":
                i = mod.convert_var_index_to_state_index(k, on_para)
                back = mod.convert_state_index_to_var_index(i, on_para)
                vals.append((out["obj"][0][i], back))
            elif kind == "povm":
                x, i = mod.convert_var_index_to_povm_index(inp["c_sys"], out["obj"], k, on_para)
                back = mod.convert_povm_index_to_var_index(inp["c_sys"], out["obj"], (x, i), on_para)
                vals.append((out["obj"][x][i], back))
            elif kind == "gate":
                r, c = mod.convert_var_index_to_gate_index(inp["c_sys"], k, on_para)
                back = mod.convert_gate_index_to_var_index(inp["c_sys"], (r, c), on_para)
                vals.append((out["obj"][0][r, c], back))
            else:
                x, r, c = mod.convert_var_index_to_mprocess_index(inp["c_sys"], out["obj"], k, on_para)
                back = mod.convert_mprocess_index_to_var_index(inp["c_sys"], (x, r, c), out["obj"], on_para)
                vals.append((out["obj"][x][r, c], back))
        cl.append(eq("index-points-at-entry", [v for v, _ in vals], inp["var"],
                     "object entry at convert_var_index_to_*_index(k) == var[k] for every k"))
        cl.append(eq("index-map-inverse", [b for _, b in vals], list(range(len(vals))),
                     "convert_*_index_to_var_index(convert_var_index_to_*_index(k)) == k for every k"))
        return cl

    def canary(self, W, cfg, inp, out):
        return [eq("canary", out["var2"], inp["var"] * 2, "(false) to_var(generate_from_var(var)) == 2 var")]


class FlagOffObjectRoundTrip(E2Contract):
    """without the built-in constraint every object (not only constrained ones) survives object -> var -> object"""
    name = "object->var->object (flag off, arbitrary object)"
    prop = "C03"
    targets = ("quara.objects.qoperation:QOperation.generate_from_var", "*.to_var")

    def configs(self, tier):
        return [c for c in all_cfgs(tier) if not c[3]]

    def inputs(self, W, cfg, mk):
        from ._cfg import obj_state, obj_povm, obj_gate, obj_mprocess
        s, kind, m, on_para = cfg
        c_sys = make_csys(W, s)
        o = dict(state=lambda: obj_state(W, mk, c_sys, on_para=False), povm=lambda: obj_povm(W, mk, c_sys, m, on_para=False),
                 gate=lambda: obj_gate(W, mk, c_sys, on_para=False), mprocess=lambda: obj_mprocess(W, mk, c_sys, m, on_para=False))[kind]()
        return dict(obj=o)

    def run(self, W, cfg, inp):
        o = inp["obj"]
        return stacked(W, o.generate_from_var(o.to_var()))

    def post(self, W, cfg, inp, out):
        return [eq("obj->var->obj", out, stacked(W, inp["obj"]), "generate_from_var(to_var(obj)) == obj for every obj")]


class GradientIndicator(E2Contract):
    name = "calc_gradient"
    prop = "C03"
    targets = ("quara.objects.state:calc_gradient_from_state", "quara.objects.povm:calc_gradient_from_povm",
               "quara.objects.gate:calc_gradient_from_gate", "quara.objects.mprocess:calc_gradient_from_mprocess")

    def configs(self, tier):
        return [c for c in all_cfgs(tier) if c[0] in ("1q",) or (c[0] == "1qt" and c[1] in ("state", "povm"))]

    def inputs(self, W, cfg, mk):
        s, kind, m, on_para = cfg
        c_sys = make_csys(W, s)
        return dict(c_sys=c_sys, var=mk.array("var", n_var(kind, c_sys.dim, m, on_para)))

    def run(self, W, cfg, inp):
        s, kind, m, on_para = cfg
        tmpl = empty_obj(W, kind, inp["c_sys"], m, on_para)
        obj = tmpl.generate_from_var(inp["var"])
        return [stacked(W, obj.calc_gradient(k)) for k in range(inp["var"].shape[0])]

    def post(self, W, cfg, inp, out):
        # d(object)/d(var_k) among the non-implied entries: the indicator of the entry that holds var_k
        s, kind, m, on_para = cfg
        np = W.np
        tmpl = empty_obj(W, kind, inp["c_sys"], m, on_para)
        cls = type(tmpl)
        cl = []
        nv = inp["var"].shape[0]
        for k in range(nv):
            e = np.zeros(nv)
            e[k] = 1
            # position of var_k in the stacked vector = where the affine map var -> stacked has slope 1 for e_k
            base = cls.convert_var_to_stacked_vector(inp["c_sys"], np.zeros(nv), on_para)
            moved = cls.convert_var_to_stacked_vector(inp["c_sys"], e, on_para)
            slope = moved - base
            g = np.hstack([a.flatten() for a in out[k]])
            # gradient object is the indicator of the entry holding var_k (implied entries excluded, as documented)
            ind = np.zeros(g.shape[0])
            pos = [i for i in range(g.shape[0]) if W.S.exact_eq(slope[i], 1)]
            ind[pos[0]] = 1
            cl.append(eq(f"indicator[{k}]", g, ind, "calc_gradient(k) is the indicator of the entry holding var[k]"))
        return cl


class SetQOperationsIndexing(E2Contract):
    """global variable vector of an operation set: block order, index maps in both directions, rebuild"""
    name = "SetQOperations"
    prop = "C03"
    targets = ("quara.objects.qoperations:SetQOperations.var_total", "quara.objects.qoperations:SetQOperations.size_var_total",
               "quara.objects.qoperations:SetQOperations.index_var_total_from_local_info",
               "quara.objects.qoperations:SetQOperations.local_info_from_index_var_total",
               "quara.objects.qoperations:SetQOperations._get_operation_item_var_first_index",
               "quara.objects.qoperations:SetQOperations._get_mode_from_index_var_total",
               "quara.objects.qoperations:SetQOperations._get_operation_mode_to_total_index_map",
               "quara.objects.qoperations:SetQOperations.set_qoperations_from_var_total")
    n_conformance = 1
    frame = False

    MIXES = {
        "one-each": dict(state=[(0, True)], gate=[(0, True)], povm=[(2, True)], mprocess=[(2, True)]),
        "three-povms": dict(state=[(0, False)], gate=[], povm=[(2, True), (3, True), (4, False)], mprocess=[]),
        "two-each-mixed-flags": dict(state=[(0, True), (0, False)], gate=[(0, False), (0, True)], povm=[(3, True), (2, False)],
                                     mprocess=[(2, True), (3, False)]),
        "three-mprocesses": dict(state=[], gate=[(0, True)], povm=[], mprocess=[(3, True), (2, True), (2, False)]),
        "states-only": dict(state=[(0, True), (0, True), (0, False)], gate=[], povm=[], mprocess=[]),
    }

    def configs(self, tier):
        return list(self.MIXES) if tier == "thorough" else ["one-each", "three-povms", "two-each-mixed-flags", "three-mprocesses"]

    def inputs(self, W, cfg, mk):
        from ._cfg import obj_state, obj_povm, obj_gate, obj_mprocess
        c_sys = make_csys(W, "1q")
        mix = self.MIXES[cfg]
        objs = dict(state=[], gate=[], povm=[], mprocess=[])
        for i, (m, flag) in enumerate(mix["state"]):
            objs["state"].append(obj_state(W, mk, c_sys, f"s{i}_", flag))
        for i, (m, flag) in enumerate(mix["gate"]):
            objs["gate"].append(obj_gate(W, mk, c_sys, f"g{i}_", flag))
        for i, (m, flag) in enumerate(mix["povm"]):
            objs["povm"].append(obj_povm(W, mk, c_sys, m, f"p{i}_", flag))
        for i, (m, flag) in enumerate(mix["mprocess"]):
            objs["mprocess"].append(obj_mprocess(W, mk, c_sys, m, f"m{i}_", flag))
        return dict(objs=objs)

    def run(self, W, cfg, inp):
        o = inp["objs"]
        sq = W.mod("quara.objects.qoperations").SetQOperations(states=o["state"], gates=o["gate"], povms=o["povm"], mprocesses=o["mprocess"])
        vt = sq.var_total()
        n = sq.size_var_total()
        infos = [sq.local_info_from_index_var_total(k) for k in range(n)]
        back = [sq.index_var_total_from_local_info(i["mode"], i["index_operations"], i["index_var_local"]) for i in infos]
        rebuilt = sq.set_qoperations_from_var_total(vt)
        reb = {m: [stacked(W, x) for x in rebuilt.qoperations(m)] for m in ("state", "gate", "povm", "mprocess")}
        out_of_range = []
        for k in (-1, n):
            try:
                sq.local_info_from_index_var_total(k)
                out_of_range.append("returned")
            except IndexError:
                out_of_range.append("IndexError")
        return dict(vt=vt, n=n, infos=[(i["mode"], i["index_operations"], i["index_var_local"]) for i in infos], back=back, reb=reb,
                    out_of_range=out_of_range)

    def post(self, W, cfg, inp, out):
        np = W.np
        o = inp["objs"]
        order = ["state", "gate", "povm", "mprocess"]
        expect_vt, expect_info = [], []
        for mode in order:
            for i, x in enumerate(o[mode]):
                v = x.to_var()
                for l in range(v.shape[0]):
                    expect_vt.append(v[l])
                    expect_info.append((mode, i, l))
        n = len(expect_vt)
        # on-constraint objects for the rebuild clause: generate_from_var(to_var(x)) (C03 round trip) is the reference
        ref_reb = {m: [stacked(W, x.generate_from_var(x.to_var())) for x in o[m]] for m in order}
        modes = [i[0] for i in out["infos"]]
        return [eq("size_var_total==len(var_total)", [out["n"], out["vt"].shape[0]], [n, n], "size_var_total() == len(var_total()) == sum of the operations' variable counts"),
                eq("var_total-layout", out["vt"], expect_vt, "var_total is states, gates, povms, mprocesses in that order, each operation's to_var() in list order"),
                eq("local_info/mode", modes, [e[0] for e in expect_info], "mode blocks in the order state, gate, povm, mprocess"),
                eq("local_info/operation-and-local-index", [list(i[1:]) for i in out["infos"]], [list(e[1:]) for e in expect_info],
                   "local_info_from_index_var_total(k) names the operation and local index holding var_total[k], for every k"),
                eq("index-maps-mutually-inverse", out["back"], list(range(n)), "index_var_total_from_local_info(local_info_from_index_var_total(k)) == k for every k"),
                eq("rebuild-from-var_total", out["reb"], ref_reb, "set_qoperations_from_var_total(var_total()) reproduces every operation"),
                eq("out-of-range-index-raises", out["out_of_range"], ["IndexError", "IndexError"], "indices -1 and size are rejected")]

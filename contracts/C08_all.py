"""C08: the affine forward model (A, b) of the four tomography classes equals the circuit's Born statistics.

Testers are symbolic (on their equality-constraint sets, mixed outcome counts), the unknown is a symbolic
variable vector; for every schedule j and outcome x the prediction (A var + b)_(j,x) is proved equal to the
Born probability of the schedule's circuit computed by the independent reference semantics (not by
compose_qoperations), in the same outcome order."""
import itertools

from qverif.symtwin.verify import E2Contract, eq, true, Raised
from ._cfg import make_csys, DIMS, stacked
from .C03_e2 import n_var, empty_obj
from .C06_all import param_obj, spec_chain, serial, EPS

STD = "quara.protocol.qtomography.standard."


def build_qt(W, kind, testers, on_para, m_unknown, schedules):
    if kind == "qst":
        return W.mod(STD + "standard_qst").StandardQst(testers["povms"], on_para_eq_constraint=on_para, schedules=schedules)
    if kind == "povmt":
        return W.mod(STD + "standard_povmt").StandardPovmt(testers["states"], m_unknown, on_para_eq_constraint=on_para, schedules=schedules)
    if kind == "qpt":
        return W.mod(STD + "standard_qpt").StandardQpt(testers["states"], testers["povms"], on_para_eq_constraint=on_para, schedules=schedules)
    return W.mod(STD + "standard_qmpt").StandardQmpt(testers["states"], testers["povms"], m_unknown, on_para_eq_constraint=on_para, schedules=schedules)


UNKNOWN = dict(qst="state", povmt="povm", qpt="gate", qmpt="mprocess")


def schedule_variants(kind, n_states, n_povms):
    if kind == "qst":
        full = [[("state", 0), ("povm", j)] for j in range(n_povms)]
    elif kind == "povmt":
        full = [[("state", i), ("povm", 0)] for i in range(n_states)]
    elif kind == "qpt":
        full = [[("state", i), ("gate", 0), ("povm", j)] for i in range(n_states) for j in range(n_povms)]
    else:
        full = [[("state", i), ("mprocess", 0), ("povm", j)] for i in range(n_states) for j in range(n_povms)]
    # at least twelve schedules (two-digit schedule indices), in blocks - not periodic, so that no re-ordering of the schedules is invisible
    many = [full[k * len(full) // 12] for k in range(12)] if len(full) < 12 else list(full)
    return {"all": "all", "subset": full[1:], "repetition": full + [full[0]], "permutation": list(reversed(full)), "many": many}, full


class ForwardModel(E2Contract):
    name = "forward model"
    prop = "C08"
    targets = (STD + "standard_qst:StandardQst._set_coeffs", STD + "standard_povmt:StandardPovmt._set_coeffs", STD + "standard_qpt:calc_c_qpt",
               STD + "standard_qmpt:cqpt_to_cqmpt", STD + "standard_qmpt:StandardQmpt._set_coeffs",
               STD + "standard_qtomography:StandardQTomography.calc_matA", STD + "standard_qtomography:StandardQTomography.calc_vecB",
               STD + "standard_qtomography:StandardQTomography.calc_prob_dists", STD + "standard_qtomography:StandardQTomography.generate_prob_dists_sequence",
               "quara.qcircuit.experiment:Experiment.calc_prob_dist", "quara.qcircuit.experiment:Experiment.calc_prob_dists",
               "quara.protocol.qtomography.qtomography:QTomography.num_variables")
    frame = False
    max_paths = 16
    n_conformance = 1

    def configs(self, tier):
        out = []
        for kind in ("qst", "povmt", "qpt", "qmpt"):
            for on_para in (True, False):
                for var in ("all", "subset", "repetition", "permutation"):
                    out.append(("1q", kind, on_para, var, 2))
        out += [("1q", "povmt", True, "all", 3), ("1q", "qmpt", True, "all", 3), ("1qt", "qst", True, "all", 2), ("1qt", "povmt", False, "all", 3),
                # dimension 3 for the process-type tomographies (dim*2 != dim**2)
                ("1qt", "qmpt", True, "subset", 2), ("1qt", "qpt", True, "subset", 2),
                # twelve schedules: two-digit schedule indices
                ("1q", "qst", True, "many", 2), ("1q", "povmt", True, "many", 2)]
        if tier == "thorough":
            out += [("2q", "qst", True, "all", 2), ("2q", "povmt", True, "all", 3), ("1q", "qmpt", False, "all", 4), ("1q", "povmt", True, "all", 4),
                    ("1qt", "qst", False, "permutation", 2)]
        return out

    def inputs(self, W, cfg, mk):
        s, kind, on_para, variant, m_unknown = cfg
        c_sys = make_csys(W, s)
        d = c_sys.dim
        testers = {}
        n_states = 2 if kind in ("qpt", "qmpt") else 3
        if kind in ("povmt", "qpt", "qmpt"):
            testers["states"] = [param_obj(W, mk, "state", c_sys, 0, f"ts{i}_") for i in range(n_states)]
        if kind in ("qst", "qpt", "qmpt"):
            # tester POVMs with DIFFERENT outcome counts
            testers["povms"] = [param_obj(W, mk, "povm", c_sys, 2 + (j % 2), f"tp{j}_") for j in range(2)]
        ukind = UNKNOWN[kind]
        var = mk.array("var", n_var(ukind, d, m_unknown, on_para))
        variants, full = schedule_variants(kind, len(testers.get("states", [])), len(testers.get("povms", [])))
        schedules = variants[variant]
        concrete = full if schedules == "all" else schedules
        # the unknown object the variables denote (by the class's own parametrisation, C03) and the reference statistics
        tmpl = empty_obj(W, ukind, c_sys, m_unknown, on_para)
        unknown = tmpl.generate_from_var(W.np.copy(var))
        ref = []
        for sch in concrete:
            chain = []
            for k, i in reversed(sch):
                if k == ukind:
                    chain.append((k, stacked(W, unknown)))
                elif k == "state":
                    chain.append((k, [testers["states"][i].vec]))
                elif k == "povm":
                    chain.append((k, list(testers["povms"][i].vecs)))
            kind_, probs = spec_chain(W, c_sys, chain)
            counts = [len(a) for k, a in reversed(chain) if k in ("mprocess", "povm")]
            ref.append(serial(probs, counts))
        if on_para:
            for row in ref:
                for p in row:
                    mk.require(p >= 2 * EPS)
        return dict(testers=testers, var=var, schedules=schedules, ref=ref, unknown=unknown, on_para=on_para)

    def sample(self, cfg, names, rng):
        import math
        s, kind, on_para, variant, m_unknown = cfg
        d = DIMS[s]
        vals = {n: rng.uniform(-0.05, 0.05) for n in names}
        for j in range(2):
            m = 2 + (j % 2)
            for x in range(m - 1):
                if f"tp{j}__{x * d * d}" in vals:
                    vals[f"tp{j}__{x * d * d}"] = math.sqrt(d) / m + rng.uniform(-0.03, 0.03)
        ukind = UNKNOWN[kind]
        if ukind == "povm":
            off = 0 if on_para else 0
            for x in range(m_unknown - (1 if on_para else 0)):
                vals[f"var_{x * d * d}"] = math.sqrt(d) / m_unknown + rng.uniform(-0.03, 0.03)
        if ukind == "mprocess":
            for x in range(m_unknown - (1 if on_para else 0)):
                vals[f"var_{x * d ** 4}"] = 1.0 / m_unknown + rng.uniform(-0.03, 0.03)
        if ukind == "gate" and not on_para:
            vals["var_0"] = 1.0
        if ukind == "state" and not on_para:
            vals["var_0"] = 1 / math.sqrt(d)
        return vals

    def run(self, W, cfg, inp):
        s, kind, on_para, variant, m_unknown = cfg
        qt = build_qt(W, kind, inp["testers"], on_para, m_unknown, inp["schedules"])
        A, b = qt.calc_matA(), qt.calc_vecB()
        pred = A @ inp["var"] + b
        out = dict(pred=pred, ncols=A.shape[1], num_variables=qt.num_variables, num_schedules=qt.num_schedules,
                   outcomes=[qt.num_outcomes(j) for j in range(qt.num_schedules)],
                   per_schedule=[qt.get_coeffs_1st_mat(j) @ inp["var"] + qt.get_coeffs_0th_vec(j) for j in range(qt.num_schedules)])
        if on_para:
            # the circuit itself (regular regime) and the model-based distributions
            unknown = qt.convert_var_to_qoperation(inp["var"])
            out["circuit"] = qt.generate_prob_dists_sequence(unknown)
            out["model_dists"] = [row for row in qt.calc_prob_dists(unknown)]
        return out

    def post(self, W, cfg, inp, out):
        s, kind, on_para, variant, m_unknown = cfg
        ref = inp["ref"]
        flat_ref = [p for row in ref for p in row]
        cl = [eq("model==born-statistics", out["pred"], flat_ref,
                 "(A var + b)_(j,x) == Born probability of schedule j's circuit on the object the variables denote, same outcome order"),
              eq("per-schedule-blocks", out["per_schedule"], ref, "the coefficient blocks of schedule j give schedule j's distribution"),
              eq("one-column-per-variable", [out["ncols"], out["num_variables"]], [inp["var"].shape[0]] * 2,
                 "A has one column per variable and num_variables == len(var)"),
              eq("num_outcomes", out["outcomes"], [len(r) for r in ref], "num_outcomes(j) == number of outcomes of schedule j's circuit")]
        if on_para:
            cl.append(eq("circuit==born-statistics", out["circuit"], ref,
                         "generate_prob_dists_sequence(object) == the same statistics (regular regime)"))
            cl.append(eq("calc_prob_dists==born-statistics", out["model_dists"], ref,
                         "calc_prob_dists(object) returns one row per schedule with that schedule's distribution"))
        return cl

    def canary(self, W, cfg, inp, out):
        flat_ref = [p for row in inp["ref"] for p in row]
        return [eq("canary", out["pred"], [2 * p + 1 for p in flat_ref], "(false)")]


from .C06_all import ZeroProbabilityBranch as _ZeroBranch


class CircuitZeroBranchUnderC08(_ZeroBranch):
    """the last step of every QMPT circuit (a POVM measured on the ensemble a measurement process leaves) when an outcome of the measurement
    process has probability zero - outside the regular regime the forward-model contract is stated in; C06's contract, re-checked under C08"""
    prop = "C08"



class FullRankIllConditioned(E2Contract):
    """is_fullrank_matA on concrete tester sets: informationally complete but ILL-CONDITIONED (measurement axes x, z and an axis tilted 2e-5 rad out
    of the x-z plane: smallest singular value about 1e-5) => full rank; x, z, x (not informationally complete) => rank deficient"""
    name = "is_fullrank_matA (concrete tester sets)"
    prop = "C08"
    targets = (STD + "standard_qtomography:StandardQTomography.is_fullrank_matA",)
    frame = False
    n_conformance = 1
    max_paths = 4

    def configs(self, tier):
        return [("tilted", True), ("tilted", False), ("deficient", True), ("deficient", False)]

    def inputs(self, W, cfg, mk):
        return dict(probe=mk.real("probe"))

    def sample(self, cfg, names, rng):
        return {n: 0.5 for n in names}

    def run(self, W, cfg, inp):
        import math
        np = W.np
        c_sys = make_csys(W, "1q")
        t = 2e-5
        axes = [(1.0, 0.0, 0.0), (0.0, 0.0, 1.0), ((math.cos(t) / math.sqrt(2), math.sin(t), math.cos(t) / math.sqrt(2)) if cfg[0] == "tilted" else (1.0, 0.0, 0.0))]
        povms = []
        for (x, y, z) in axes:
            v0 = np.array([1.0, x, y, z], dtype=np.float64) / math.sqrt(2)
            v1 = np.array([1.0, -x, -y, -z], dtype=np.float64) / math.sqrt(2)
            povms.append(W.mod("quara.objects.povm").Povm(c_sys, [v0, v1], is_physicality_required=False))
        qt = W.mod(STD + "standard_qst").StandardQst(povms, on_para_eq_constraint=cfg[1])
        return bool(qt.is_fullrank_matA())

    def post(self, W, cfg, inp, out):
        return [eq("full-rank<=>informationally-complete", out, cfg[0] == "tilted",
                   "the model has full column rank exactly when the tester set is informationally complete, however ill-conditioned")]

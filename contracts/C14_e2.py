"""C14 (E2 part): seeds, generators and the global random state (ghost random streams).

Symbolic world: numpy.random / scipy.stats.multinomial are ghost streams (stream-id, position); the contract
inspects which streams were drawn from.  Native world: the same clauses are evaluated by perturbing the global
random state between two calls.  The distributions themselves are trusted."""
import itertools

from qverif.symtwin.verify import E2Contract, eq, true, Raised
from qverif.symtwin import symrandom
from .C09_all import exact_testers

DG = "quara.qcircuit.data_generator"


def _concrete_dists(W):
    np = W.np
    return [np.array([0.5, 0.5]), np.array([0.2, 0.3, 0.5])]


ENTRY_POINTS = ["empi_dists_sequence_from_prob_dists", "empi_dist_sequence_from_prob_dist", "data_from_prob_dist", "dataset_from_prob_dists",
                "MultinomialDistribution.execute_random_sampling",
                "Experiment.generate_empi_dists_sequence", "Experiment.generate_data", "Experiment.generate_dataset", "Experiment.generate_empi_dist_sequence",
                ] + [f"{k}.{m}" for k in ("StandardQst", "StandardPovmt", "StandardQpt", "StandardQmpt")
                     for m in ("generate_empi_dists", "generate_empi_dist", "generate_empi_dists_sequence")]


def make_call(W, entry):
    """returns f(seed_or_generator) -> result for one data-generation entry point with fixed, exact arguments"""
    np = W.np
    dg = W.mod(DG)
    if entry == "empi_dists_sequence_from_prob_dists":
        return lambda s: dg.generate_empi_dists_sequence_from_prob_dists(_concrete_dists(W), [[10, 20], [5, 7]], s)
    if entry == "empi_dist_sequence_from_prob_dist":
        return lambda s: dg.generate_empi_dist_sequence_from_prob_dist(_concrete_dists(W)[1], [10, 20, 40], s)
    if entry == "data_from_prob_dist":
        return lambda s: dg.generate_data_from_prob_dist(_concrete_dists(W)[0], 2, s)
    if entry == "dataset_from_prob_dists":
        return lambda s: dg.generate_dataset_from_prob_dists(_concrete_dists(W)[:1], [2], [s])
    if entry == "MultinomialDistribution.execute_random_sampling":
        md = W.mod("quara.objects.multinomial_distribution").MultinomialDistribution(np.array([0.25, 0.25, 0.5], dtype=np.float64), (3,))
        return lambda s: md.execute_random_sampling(6, 1, s)
    c_sys, states, povms = exact_testers(W, "1q", False)
    STD = "quara.protocol.qtomography.standard."
    if entry.startswith("Experiment"):
        exp = W.mod("quara.qcircuit.experiment").Experiment(states=[states[2]], povms=povms, gates=[],
                                                               schedules=[[("state", 0), ("povm", j)] for j in range(3)], seed_data=5)
        if entry.endswith("generate_data"):
            return lambda s: exp.generate_data(2, 2, s)
        if entry.endswith("generate_dataset"):
            return lambda s: exp.generate_dataset([1, 1, 1], s)
        if entry.endswith("generate_empi_dist_sequence"):
            return lambda s: exp.generate_empi_dist_sequence(1, [10, 20], s)
        return lambda s: exp.generate_empi_dists_sequence([[10, 10, 10], [20, 20, 20]], s)
    cls = entry.split(".")[0]
    if cls == "StandardQst":
        qt = W.mod(STD + "standard_qst").StandardQst(povms, on_para_eq_constraint=True, seed_data=5)
        true = states[1]
    elif cls == "StandardPovmt":
        qt = W.mod(STD + "standard_povmt").StandardPovmt(states, 2, on_para_eq_constraint=True, seed_data=5)
        true = povms[0]
    elif cls == "StandardQpt":
        qt = W.mod(STD + "standard_qpt").StandardQpt(states, povms, on_para_eq_constraint=True, seed_data=5)
        true = W.mod("quara.objects.gate").Gate(c_sys, np.eye(4, dtype=np.float64), is_physicality_required=False)
    else:
        qt = W.mod(STD + "standard_qmpt").StandardQmpt(states, povms, 2, on_para_eq_constraint=True, seed_data=5)
        hss = [np.eye(4, dtype=np.float64) / 2, np.eye(4, dtype=np.float64) / 2]
        true = W.mod("quara.objects.mprocess").MProcess(c_sys, hss, is_physicality_required=False)
    if entry.endswith("generate_empi_dist"):
        return lambda s: qt.generate_empi_dist(0, true, 10, s)
    if entry.endswith("generate_empi_dists"):
        return lambda s: qt.generate_empi_dists(true, 10, s)
    return lambda s: qt.generate_empi_dists_sequence(true, [10, 20], s)


def _norm(x):
    """plain nested lists of floats (native) for comparisons"""
    import numpy
    if isinstance(x, (list, tuple)):
        return [_norm(v) for v in x]
    if isinstance(x, numpy.ndarray):
        return x.tolist()
    return x


def empi_pairs(x):
    """all (num_sum, distribution) pairs in a nested result"""
    out = []
    if isinstance(x, tuple) and len(x) == 2 and not isinstance(x[0], (list, tuple)) and hasattr(x[1], "shape"):
        return [x]
    if isinstance(x, (list, tuple)):
        for v in x:
            out += empi_pairs(v)
    return out


class SeededGeneration(E2Contract):
    name = "data generation / seeds"
    prop = "C14"
    targets = (DG + ":generate_data_from_prob_dist", DG + ":generate_dataset_from_prob_dists", DG + ":generate_empi_dist_sequence_from_prob_dist",
               DG + ":generate_empi_dists_sequence_from_prob_dists", "quara.utils.number_util:to_stream",
               "quara.qcircuit.experiment:Experiment.generate_data", "quara.qcircuit.experiment:Experiment.generate_empi_dists_sequence",
               "quara.protocol.qtomography.standard.standard_qst:StandardQst.generate_empi_dist", "quara.protocol.qtomography.standard.standard_qst:StandardQst.generate_empi_dists",
               "quara.protocol.qtomography.standard.standard_qst:StandardQst.generate_empi_dists_sequence",
               "quara.protocol.qtomography.standard.standard_povmt:StandardPovmt.generate_empi_dists",
               "quara.protocol.qtomography.standard.standard_qpt:StandardQpt.generate_empi_dists",
               "quara.protocol.qtomography.standard.standard_qmpt:StandardQmpt.generate_empi_dists")
    frame = False
    n_conformance = 0          # ghost draws are not the generator's numbers: value conformance is meaningless here
    max_paths = 64

    SCENARIOS = ("seed7", "seed0", "generator", "none")

    def configs(self, tier):
        return [(e, sc) for e in ENTRY_POINTS for sc in self.SCENARIOS]

    def inputs(self, W, cfg, mk):
        return dict(probe=mk.real("probe"))

    def run(self, W, cfg, inp):
        entry, sc = cfg
        f = make_call(W, entry)
        out = {}
        if W.symbolic:
            rnd = W.np.random
            if sc in ("seed7", "seed0"):
                sd = 7 if sc == "seed7" else 0
                symrandom.reset()
                g0 = (symrandom.GLOBAL.sid, symrandom.GLOBAL.pos)
                r = f(sd)
                log = list(symrandom.DRAW_LOG)
                out["seed/uses-global-stream"] = any(e[0][0] == "G" for e in log) or (symrandom.GLOBAL.sid, symrandom.GLOBAL.pos) != g0
                out["seed/reproducible"] = all(e[0] == ("seed", sd) for e in log) and len(log) > 0
                symrandom.reset()
                f(rnd.Generator(rnd.MT19937(sd)))
                out["seed/same-as-fresh-generator"] = list(symrandom.DRAW_LOG) == log
                out["empi"] = [(n, list((d * n).a.tolist()) if hasattr(d, "a") else d) for n, d in empi_pairs(r)]
            elif sc == "generator":
                symrandom.reset()
                gen = rnd.Generator(rnd.MT19937(11))
                gen.pos = 5
                f(gen)
                log = list(symrandom.DRAW_LOG)
                out["generator/advances"] = gen.pos == 5 + len(log) and len(log) > 0 and [e[1] for e in log] == list(range(5, 5 + len(log)))
                out["generator/uses-only-it"] = all(e[0] == ("seed", 11) for e in log)
            else:
                symrandom.reset()
                f(None)
                n1 = len(symrandom.DRAW_LOG)
                f(None)
                log = list(symrandom.DRAW_LOG)
                out["none/advances-the-global-state"] = n1 > 0 and symrandom.GLOBAL.pos == len(symrandom.DRAW_LOG)
                out["none/uses-global-stream"] = len(log) > 0 and all(e[0] == ("G",) for e in log)
                out["none/continues-the-global-stream"] = n1 > 0 and [e[1] for e in log] == list(range(len(log)))
            return out
        import numpy
        state = lambda: numpy.random.get_state()[1].tolist()
        if sc in ("seed7", "seed0"):
            sd = 7 if sc == "seed7" else 0
            numpy.random.seed(123)
            s_before = state()
            a = _norm(f(sd))
            s_after = state()
            numpy.random.seed(456)
            numpy.random.random(5)
            b = _norm(f(sd))
            out["seed/uses-global-stream"] = (a != b) or (s_before != s_after)
            out["seed/reproducible"] = a == b
            out["seed/same-as-fresh-generator"] = a == _norm(f(numpy.random.Generator(numpy.random.MT19937(sd))))
            r = f(sd)
            out["empi"] = [(n, [round(float(x) * n, 9) for x in d]) for n, d in empi_pairs(r)]
        elif sc == "generator":
            gen = numpy.random.Generator(numpy.random.MT19937(11))
            s0 = str(gen.bit_generator.state)
            numpy.random.seed(1)
            x1 = _norm(f(gen))
            s1 = str(gen.bit_generator.state)
            numpy.random.seed(2)
            x2 = _norm(f(numpy.random.Generator(numpy.random.MT19937(11))))
            out["generator/advances"] = s0 != s1
            out["generator/uses-only-it"] = x1 == x2
        else:
            numpy.random.seed(99)
            s_before = state()
            y1 = _norm(f(None))
            out["none/advances-the-global-state"] = state() != s_before
            f(None)
            e1 = state()
            numpy.random.seed(99)
            y2 = _norm(f(None))
            numpy.random.seed(100)
            f(None)
            f(None)
            e2 = state()
            out["none/uses-global-stream"] = y1 == y2
            # the state after two unseeded calls depends on the state before them (no re-seeding on the way)
            out["none/continues-the-global-stream"] = e1 != e2
        return out

    def post(self, W, cfg, inp, out):
        entry, sc = cfg
        if sc in ("seed7", "seed0"):
            cl = [eq("seed/independent-of-global-state", out["seed/uses-global-stream"], False,
                     "with an integer seed no draw comes from (or advances) the global random state"),
                  eq("seed/function-of-the-seed", out["seed/reproducible"], True,
                     "with an integer seed all draws come from the stream identified by the seed: same seed, same output"),
                  eq("seed/same-as-a-fresh-generator-of-that-seed", out["seed/same-as-fresh-generator"], True,
                     "an integer seed s (0 included) means one generator MT19937(s), consumed once from its start by the whole call")]
            ok = True
            for n, counts in out["empi"]:
                tot = 0
                for c in counts:
                    tot = tot + c
                if not W.symbolic:
                    ok = ok and abs(tot - n) < 1e-6 and all(abs(c - round(c)) < 1e-6 and c >= 0 for c in counts)
            cl.append(eq("empirical-distribution==counts/n", ok, True, "every empirical distribution is a vector of counts divided by its sample size"))
            return cl
        if sc == "generator":
            return [eq("generator/advances-so-successive-draws-differ", out["generator/advances"], True,
                       "a caller-owned generator is advanced by exactly the draws made"),
                    eq("generator/no-other-source", out["generator/uses-only-it"], True, "and nothing else is drawn from")]
        return [eq("none/global-state", out["none/uses-global-stream"], True, "without seed the global numpy state is the source"),
                eq("none/the-call-advances-the-global-state", out["none/advances-the-global-state"], True,
                   "an unseeded call draws from - and therefore advances - the global numpy state"),
                eq("none/successive-calls-continue-the-global-stream", out["none/continues-the-global-stream"], True,
                   "unseeded calls consume the global stream onwards; nothing on the way re-seeds it")]


# ------------------------------------------------------------------ which distribution, with which sample size, goes where

def _routing_case(W, entry, scale):
    """(call, expected) for one entry point: expected is a list of (position in the output, sample size, probability vector)"""
    np = W.np
    dg = W.mod(DG)
    d = _concrete_dists(W)
    sz = lambda *xs: [x * scale for x in xs]
    if entry == "dg.empi_dists_sequence_from_prob_dists":
        sizes = [sz(10, 20), sz(5, 7)]
        return (lambda s: dg.generate_empi_dists_sequence_from_prob_dists(d, sizes, s)), [((i, k), sizes[i][k], d[i]) for i in range(2) for k in range(2)]
    if entry == "dg.empi_dist_sequence_from_prob_dist":
        sizes = sz(10, 20, 40)
        return (lambda s: dg.generate_empi_dist_sequence_from_prob_dist(d[1], sizes, s)), [((k,), sizes[k], d[1]) for k in range(3)]
    c_sys, states, povms = exact_testers(W, "1q", False)
    STD = "quara.protocol.qtomography.standard."
    true_state = W.mod("quara.objects.state").State(c_sys, np.array([1, 0.3, -0.2, 0.5], dtype=np.float64) / np.sqrt(2), is_physicality_required=False)
    if entry == "Experiment.generate_empi_dists_sequence":
        exp = W.mod("quara.qcircuit.experiment").Experiment(states=[true_state], povms=povms, gates=[], schedules=[[("state", 0), ("povm", j)] for j in range(3)])
        sizes = [sz(10, 11, 12), sz(20, 21, 22)]
        ps = exp.calc_prob_dists()
        return (lambda s: exp.generate_empi_dists_sequence(sizes, s)), [((j, k), sizes[k][j], ps[j]) for j in range(3) for k in range(2)]
    kind, meth = entry.split(".")
    if kind == "StandardQst":
        qt = W.mod(STD + "standard_qst").StandardQst(povms, on_para_eq_constraint=True)
        obj = true_state
    elif kind == "StandardPovmt":
        qt = W.mod(STD + "standard_povmt").StandardPovmt(states, 2, on_para_eq_constraint=True)
        obj = W.mod("quara.objects.povm").Povm(c_sys, [np.array([0.8, 0.1, 0.2, 0.3], dtype=np.float64), np.array([np.sqrt(2) - 0.8, -0.1, -0.2, -0.3], dtype=np.float64)],
                                                is_physicality_required=False)
    elif kind == "StandardQpt":
        qt = W.mod(STD + "standard_qpt").StandardQpt(states, povms, on_para_eq_constraint=True)
        hs = np.array([[1, 0, 0, 0], [0, 0.5, 0.25, 0], [0, -0.25, 0.5, 0], [0.125, 0, 0, 0.75]], dtype=np.float64)
        obj = W.mod("quara.objects.gate").Gate(c_sys, hs, is_physicality_required=False)
    else:
        qt = W.mod(STD + "standard_qmpt").StandardQmpt(states, povms, 2, on_para_eq_constraint=True)
        h0 = np.array([[0.5, 0, 0, 0.25], [0, 0.25, 0, 0], [0, 0, 0.25, 0], [0.25, 0, 0, 0.5]], dtype=np.float64)
        h1 = np.array([[0.5, 0, 0, -0.25], [0, 0.125, 0, 0], [0, 0, 0.125, 0], [-0.25, 0, 0, 0.5]], dtype=np.float64)
        obj = W.mod("quara.objects.mprocess").MProcess(c_sys, [h0, h1], is_physicality_required=False)
    ps = qt.generate_prob_dists_sequence(obj) if hasattr(qt, "generate_prob_dists_sequence") else qt.calc_prob_dists(obj)
    J = qt.num_schedules
    if meth == "generate_empi_dists":
        n = scale * 10
        return (lambda s: qt.generate_empi_dists(obj, n, s)), [((j,), n, ps[j]) for j in range(J)]
    if meth == "generate_empi_dist":
        n = scale * 10
        j = J - 1
        return (lambda s: [qt.generate_empi_dist(j, obj, n, s)]), [((0,), n, ps[j])]
    sizes = sz(10, 20)
    return (lambda s: qt.generate_empi_dists_sequence(obj, sizes, s)), [((k, j), sizes[k], ps[j]) for k in range(2) for j in range(J)]


def SC_same(a, b):
    from qverif.symtwin import scalar as SC
    a = a if isinstance(a, SC.Sym) else SC.Sym.const(a)
    b = b if isinstance(b, SC.Sym) else SC.Sym.const(b)
    return a.same(b)


def _at(x, pos):
    for i in pos:
        x = x[i]
    return x


class SampleRouting(E2Contract):
    """every empirical distribution returned is drawn from ITS schedule's probability vector with ITS requested sample size, and labelled with that size"""
    name = "data generation / which distribution, which size, where"
    prop = "C14"
    targets = (DG + ":generate_empi_dist_sequence_from_prob_dist", DG + ":generate_empi_dists_sequence_from_prob_dists",
               "quara.qcircuit.experiment:Experiment.generate_empi_dists_sequence", "quara.qcircuit.experiment:Experiment.generate_empi_dist_sequence",
               "quara.protocol.qtomography.standard.standard_qst:StandardQst.generate_empi_dist", "quara.protocol.qtomography.standard.standard_qst:StandardQst.generate_empi_dists",
               "quara.protocol.qtomography.standard.standard_qst:StandardQst.generate_empi_dists_sequence",
               "quara.protocol.qtomography.standard.standard_povmt:StandardPovmt.generate_empi_dist", "quara.protocol.qtomography.standard.standard_povmt:StandardPovmt.generate_empi_dists_sequence",
               "quara.protocol.qtomography.standard.standard_qpt:StandardQpt.generate_empi_dist", "quara.protocol.qtomography.standard.standard_qpt:StandardQpt.generate_empi_dists_sequence",
               "quara.protocol.qtomography.standard.standard_qmpt:StandardQmpt.generate_empi_dist", "quara.protocol.qtomography.standard.standard_qmpt:StandardQmpt.generate_empi_dists_sequence")
    frame = False
    n_conformance = 0
    max_paths = 64

    def configs(self, tier):
        out = ["dg.empi_dists_sequence_from_prob_dists", "dg.empi_dist_sequence_from_prob_dist", "Experiment.generate_empi_dists_sequence"]
        for k in ("StandardQst", "StandardPovmt", "StandardQpt", "StandardQmpt"):
            for m in ("generate_empi_dists", "generate_empi_dist", "generate_empi_dists_sequence"):
                out.append(f"{k}.{m}")
        return out

    def inputs(self, W, cfg, mk):
        return dict(probe=mk.real("probe"))

    def run(self, W, cfg, inp):
        if W.symbolic:
            f, expected = _routing_case(W, cfg, 1)
            symrandom.reset()
            res = f(7)
            log = {(e[0], e[1]): e for e in symrandom.DRAW_LOG if e[2] == "multinomial"}
            labels, drawn_n, drawn_p, want_n, want_p, counts_ok = [], [], [], [], [], []
            for pos, n, p in expected:
                lab, dist = _at(res, pos)
                tags = symrandom.draw_tags(dist)
                e = log.get(next(iter(tags))) if len(tags) == 1 else None
                if e is not None:
                    # dist * label must be exactly the vector of multinomial counts of that draw
                    cnt = [symrandom._draw_symbol(e[0], e[1], k, "multinomial") for k in range(e[3])]
                    scaled = (dist * lab).a.reshape(-1).tolist()
                    counts_ok.append(len(scaled) == len(cnt) and all(SC_same(a, b) for a, b in zip(scaled, cnt)))
                else:
                    counts_ok.append(False)
                labels.append(lab)
                drawn_n.append(e[4] if e else None)
                drawn_p.append(list(e[5]) if e else None)
                want_n.append(n)
                want_p.append(list(W.np.asarray(p).a.reshape(-1).tolist()) if hasattr(W.np.asarray(p), "a") else list(p))
            return dict(labels=labels, drawn_n=drawn_n, drawn_p=drawn_p, want_n=want_n, want_p=want_p, n_draws=len(log), n_expected=len(expected),
                        counts_ok=counts_ok)
        import numpy
        f, expected = _routing_case(W, cfg, 2000)
        res = f(7)
        labels, want_n, ok_p, drawn = [], [], [], []
        for pos, n, p in expected:
            lab, dist = _at(res, pos)
            labels.append(int(lab))
            want_n.append(int(n))
            counts = numpy.asarray(dist, dtype=float) * float(lab)
            # the number of samples actually drawn shows in the data: frequencies times the label are whole counts summing to the label
            drawn.append(int(lab) if (numpy.all(numpy.abs(counts - numpy.round(counts)) < 1e-6) and abs(counts.sum() - float(lab)) < 1e-6) else -1)
            p = numpy.asarray(p, dtype=float)
            ok_p.append(bool(numpy.all(numpy.abs(numpy.asarray(dist, dtype=float) - p) <= 6.0 * numpy.sqrt(p * (1 - p) / n) + 1e-9)))
        return dict(labels=labels, drawn_n=drawn, drawn_p=ok_p, want_n=want_n, want_p=[True] * len(ok_p), n_draws=len(expected), n_expected=len(expected),
                    counts_ok=[d != -1 for d in drawn])

    def post(self, W, cfg, inp, out):
        return [eq("attached-size==requested-size", out["labels"], out["want_n"], "the sample size attached to each empirical distribution is the one requested for that position"),
                eq("drawn-with-the-requested-size", out["drawn_n"], out["want_n"], "each distribution is drawn with its requested number of samples"),
                eq("drawn-from-its-own-schedule", out["drawn_p"], out["want_p"],
                   "each distribution is drawn from the probability vector of ITS schedule (natively: within 6 standard errors at 2000 x the sample size)"),
                eq("one-draw-per-requested-distribution", out["n_draws"], out["n_expected"], "exactly one multinomial draw per returned distribution"),
                eq("distribution==counts/attached-size", out["counts_ok"], [True] * len(out["counts_ok"]),
                   "every returned distribution times its attached sample size is the vector of counts of its draw (whole numbers summing to that size)")]


class ResetSeed(E2Contract):
    """Experiment.reset_seed_data / QTomography.reset_seed: afterwards the object reports the new seed and the global numpy state is the one
    np.random.seed(new seed) produces (nothing is re-seeded when the new seed is None); reset_seed() without argument re-seeds with the stored seed"""
    name = "reset_seed_data / reset_seed"
    prop = "C14"
    targets = ("quara.qcircuit.experiment:Experiment.reset_seed_data", "quara.protocol.qtomography.qtomography:QTomography.reset_seed")
    frame = False
    n_conformance = 0
    max_paths = 8

    def configs(self, tier):
        return [("experiment", 5, 9), ("experiment", None, 9), ("experiment", 5, None), ("experiment", 9, 5), ("tomography", 5, 9), ("tomography", 5, "stored"),
                ("tomography", None, 9)]

    def inputs(self, W, cfg, mk):
        return dict(probe=mk.real("probe"))

    def _make(self, W, cfg):
        who, first, _ = cfg
        c_sys, states, povms = exact_testers(W, "1q", False)
        if who == "experiment":
            return W.mod("quara.qcircuit.experiment").Experiment(states=[states[2]], povms=povms, gates=[],
                                                                    schedules=[[("state", 0), ("povm", j)] for j in range(3)], seed_data=first)
        return W.mod("quara.protocol.qtomography.standard.standard_qst").StandardQst(povms, on_para_eq_constraint=True, seed_data=first)

    def run(self, W, cfg, inp):
        who, first, new = cfg
        obj = self._make(W, cfg)
        expected_seed = first if new in (None, "stored") else new
        if W.symbolic:
            symrandom.reset()
            W.np.random.seed(4242)          # some unrelated global state
            W.np.random.random(3)
            before = (symrandom.GLOBAL.sid, symrandom.GLOBAL.pos)
            self._reset(obj, who, new)
            after = (symrandom.GLOBAL.sid, symrandom.GLOBAL.pos)
            reseeds = (new is not None) if who == "experiment" else (expected_seed is not None)
            want = (("G", "seed", expected_seed), 0) if reseeds else before
            return dict(state_ok=after == want, seed=(obj.seed_data if who == "experiment" else obj._experiment.seed_data))
        import numpy
        numpy.random.seed(4242)
        numpy.random.random(3)
        before = numpy.random.get_state()[1].tolist()
        self._reset(obj, who, new)
        after = numpy.random.get_state()[1].tolist()
        reseeds = (new is not None) if who == "experiment" else (expected_seed is not None)
        if reseeds:
            numpy.random.seed(expected_seed)
            want = numpy.random.get_state()[1].tolist()
        else:
            want = before
        return dict(state_ok=after == want, seed=(obj.seed_data if who == "experiment" else obj._experiment.seed_data))

    @staticmethod
    def _reset(obj, who, new):
        if who == "experiment":
            obj.reset_seed_data(new)
        elif new == "stored":
            obj.reset_seed()
        else:
            obj.reset_seed(new)

    def post(self, W, cfg, inp, out):
        who, first, new = cfg
        expected_seed = first if (new == "stored" or (new is None and who == "tomography")) else new
        return [eq("global-state==seeded-with-the-new-seed", out["state_ok"], True,
                   "after the reset the global numpy state is the one np.random.seed(new seed) produces (untouched when there is no seed to set)"),
                eq("reports-the-new-seed", out["seed"], expected_seed, "the object reports the seed now in force")]


class DatasetSeeds(E2Contract):
    """generate_dataset_from_prob_dists with one seed per entry: every entry is generated from a FRESH generator of its own seed (also when the
    same integer appears twice), i.e. entry k equals generate_data_from_prob_dist(p_k, n_k, seed_k)"""
    name = "generate_dataset_from_prob_dists: one fresh stream per entry"
    prop = "C14"
    targets = (DG + ":generate_dataset_from_prob_dists", DG + ":generate_data_from_prob_dist")
    frame = False
    n_conformance = 0
    max_paths = 600

    def configs(self, tier):
        return [(5, 5), (0, 0), (3, 9), (0, 1)]

    def inputs(self, W, cfg, mk):
        return dict(probe=mk.real("probe"))

    def run(self, W, cfg, inp):
        dg = W.mod(DG)
        d = _concrete_dists(W)[:2]
        sizes = [1, 2]
        if W.symbolic:
            symrandom.reset()
            dg.generate_dataset_from_prob_dists(d, sizes, list(cfg))
            log = list(symrandom.DRAW_LOG)
            per_entry = []
            for k in range(2):
                symrandom.reset()
                dg.generate_data_from_prob_dist(d[k], sizes[k], cfg[k])
                per_entry += list(symrandom.DRAW_LOG)
            return dict(same=log == per_entry, n=len(log))
        import numpy
        got = _norm(dg.generate_dataset_from_prob_dists(d, sizes, list(cfg)))
        want = [_norm(dg.generate_data_from_prob_dist(d[k], sizes[k], cfg[k])) for k in range(2)]
        return dict(same=got == want, n=len(got))

    def post(self, W, cfg, inp, out):
        return [eq("entry==data-of-its-own-seed", out["same"], True,
                   "entry k of the dataset == generate_data_from_prob_dist(p_k, n_k, seed_k): a fresh stream of seed_k, whatever the other entries' seeds are")]

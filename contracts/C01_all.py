"""C01: physicality verdicts of all four object types against their mathematical definitions.

PSD verdicts are relative to the trusted spectrum: the spec calls the same library function
(eigvalsh) on the operator computed by the *spec* formula; in the symbolic world both sides
then mention the same opaque eigenvalue symbols w_k (assumed: real, ascending)."""
from qverif.symtwin.verify import E2Contract, eq, true, Raised
from ._cfg import make_csys, DIMS, obj_state, obj_povm, obj_gate, obj_mprocess
from .C01_state import atol_input, sample_with_atol

MU = "quara.utils.matrix_util"
ST = "quara.objects.state"
PV = "quara.objects.povm"
GT = "quara.objects.gate"
MP = "quara.objects.mprocess"


# ------------------------------------------------------------------ spec predicates

def spec_hermitian(S, M, atol):
    d = M.shape[0]
    conds = []
    for i in range(d):
        for j in range(d):
            conds.append(S.abs(M[i, j] - S.np.conjugate(M[j, i])) <= atol)
    return S.And(*conds)


def spec_psd(S, M, atol):
    """Hermitian within atol and every eigenvalue >= 0 or within atol of 0 (spectrum trusted)"""
    w = S.np.linalg.eigvalsh(M)
    conds = [S.Or(w[k] >= 0, S.abs(w[k]) <= atol) for k in range(M.shape[0])]
    return S.And(spec_hermitian(S, M, atol), *conds)


def spec_identity_sum(S, mats, atol):
    d = mats[0].shape[0]
    tot = S.zeros_c((d, d))
    for m in mats:
        tot = tot + m
    conds = []
    for i in range(d):
        for j in range(d):
            conds.append(S.abs(tot[i, j] - (1 if i == j else 0)) <= atol)
    return S.And(*conds)


def spec_tp_viol(S, c_sys, hs):
    """list of  Tr Lambda(B_a) - Tr B_a  over the basis"""
    bs = S.basis(c_sys)
    out = []
    for a, b in enumerate(bs):
        img = S.op_from_vec(c_sys, hs[:, a])
        out.append(S.trace(img) - S.trace(b))
    return out


class WithAtol(E2Contract):
    prop = "C01"
    max_paths = 400

    def sample(self, cfg, names, rng):
        return sample_with_atol(cfg, names, rng)


# ------------------------------------------------------------------ matrix_util helpers

class MutilHermitian(WithAtol):
    name = "matrix_util.is_hermitian"
    targets = (MU + ":is_hermitian", MU + ":allclose")

    def configs(self, tier):
        return [2, 3] + ([4] if tier == "thorough" else [])

    def inputs(self, W, cfg, mk):
        return dict(M=mk.carray("M", (cfg, cfg)), atol=atol_input(mk))

    def run(self, W, cfg, inp):
        return W.mod(MU).is_hermitian(inp["M"], inp["atol"])

    def post(self, W, cfg, inp, out):
        return [eq("verdict", out, spec_hermitian(W.S, inp["M"], inp["atol"]),
                   "is_hermitian(M, atol) <=> max_ij |M_ij - conj(M_ji)| <= atol")]

    def canary(self, W, cfg, inp, out):
        return [eq("canary", out, spec_hermitian(W.S, inp["M"], 2 * inp["atol"]), "(false) tolerance 2*atol")]


class MutilPsd(WithAtol):
    name = "matrix_util.is_positive_semidefinite"
    targets = (MU + ":is_positive_semidefinite",)

    def configs(self, tier):
        return [2, 3] + ([4] if tier == "thorough" else [])

    def inputs(self, W, cfg, mk):
        return dict(M=mk.hermitian("M", cfg), atol=atol_input(mk))

    def run(self, W, cfg, inp):
        return W.mod(MU).is_positive_semidefinite(inp["M"], inp["atol"])

    def post(self, W, cfg, inp, out):
        return [eq("verdict", out, spec_psd(W.S, inp["M"], inp["atol"]),
                   "is_positive_semidefinite(M, atol) <=> Hermitian within atol and all eigenvalues >= 0 or |w| <= atol")]

    def canary(self, W, cfg, inp, out):
        S = W.S
        w = S.np.linalg.eigvalsh(inp["M"])
        return [eq("canary", out, w[cfg - 1] >= 0, "(false) only the largest eigenvalue is looked at")]


# ------------------------------------------------------------------ State

class StatePsd(WithAtol):
    name = "State.is_positive_semidefinite"
    targets = (ST + ":State.is_positive_semidefinite", ST + ":State.is_ineq_constraint_satisfied", ST + ":State.is_hermitian")

    def configs(self, tier):
        return [("1q", None), ("1qt", None)] + ([("2q", None)] if tier == "thorough" else [])

    def inputs(self, W, cfg, mk):
        return dict(state=obj_state(W, mk, make_csys(W, *cfg)), atol=atol_input(mk))

    def run(self, W, cfg, inp):
        s = inp["state"]
        return [s.is_positive_semidefinite(inp["atol"]), s.is_ineq_constraint_satisfied(inp["atol"]),
                s.is_hermitian(inp["atol"])]

    def post(self, W, cfg, inp, out):
        S = W.S
        rho = S.op_from_vec(inp["state"].composite_system, inp["state"].vec)
        spec = spec_psd(S, rho, inp["atol"])
        return [eq("verdict/is_positive_semidefinite", out[0], spec, "<=> density operator PSD within atol"),
                eq("verdict/is_ineq_constraint_satisfied", out[1], spec, "<=> the same"),
                eq("verdict/is_hermitian", out[2], spec_hermitian(S, rho, inp["atol"]), "<=> density operator Hermitian within atol")]


class StatePhysical(WithAtol):
    """is_physical(a, b) routes a to the equality verdict and b to the inequality verdict"""
    name = "State.is_physical"
    targets = ("quara.objects.qoperation:QOperation.is_physical",)

    def configs(self, tier):
        return [("1q", None)] + ([("1qt", None)] if tier == "thorough" else [])

    def inputs(self, W, cfg, mk):
        a = atol_input(mk)
        b = mk.real("btol")
        mk.require(b >= 1e-13)
        mk.require(b <= 1e-2)
        return dict(state=obj_state(W, mk, make_csys(W, *cfg)), atol=a, btol=b)

    def sample(self, cfg, names, rng):
        v = sample_with_atol(cfg, names, rng)
        v["btol"] = 10 ** rng.uniform(-13, -2)
        return v

    def run(self, W, cfg, inp):
        return inp["state"].is_physical(inp["atol"], inp["btol"])

    def post(self, W, cfg, inp, out):
        S = W.S
        rho = S.op_from_vec(inp["state"].composite_system, inp["state"].vec)
        spec = S.And(S.abs(S.trace(rho).real - 1) <= inp["atol"], spec_psd(S, rho, inp["btol"]))
        return [eq("verdict", out, spec, "is_physical(a, b) <=> trace-one within a and PSD within b")]

    def canary(self, W, cfg, inp, out):
        S = W.S
        rho = S.op_from_vec(inp["state"].composite_system, inp["state"].vec)
        spec = S.And(S.abs(S.trace(rho).real - 1) <= inp["btol"], spec_psd(S, rho, inp["atol"]))
        return [eq("canary", out, spec, "(false) tolerances swapped")]


class StateConstructor(WithAtol):
    """constructing with physicality required raises ValueError exactly for non-physical vectors (global atol)"""
    name = "State.__init__"
    targets = (ST + ":State.__init__",)
    frame = False      # constructors adopt the arrays handed to them
    may_raise = True

    def configs(self, tier):
        return [("1q", None)] + ([("1qt", None)] if tier == "thorough" else [])

    def inputs(self, W, cfg, mk):
        d = DIMS[cfg[0]]
        return dict(c_sys=make_csys(W, *cfg), vec=mk.array("v", d * d))

    def run(self, W, cfg, inp):
        st = W.mod(ST).State(inp["c_sys"], inp["vec"], is_physicality_required=True)
        return "constructed"

    def post(self, W, cfg, inp, out):
        S = W.S
        atol = W.mod("quara.settings").Settings.get_atol()
        rho = S.op_from_vec(inp["c_sys"], inp["vec"])
        phys = S.And(S.abs(S.trace(rho).real - 1) <= atol, spec_psd(S, rho, atol))
        if isinstance(out, Raised):
            return [true("raises-iff-not-physical", S.And(out.name == "ValueError", S.Not(phys)),
                         "constructor raises ValueError => the vector is not physical at the global atol")]
        return [true("raises-iff-not-physical", phys, "constructor succeeds => the vector is physical at the global atol")]

    def sample(self, cfg, names, rng):
        # near-physical points so that both outcomes occur
        import math
        d = DIMS[cfg[0]]
        vals = {n: rng.uniform(-0.3, 0.3) for n in names}
        vals["v_0"] = 1 / math.sqrt(d) if rng.random() < 0.7 else rng.uniform(0, 1)
        return vals


class OriginZero(E2Contract):
    """origin object = maximally mixed object (physical); zero object = 0"""
    name = "generate_origin_obj/generate_zero_obj"
    prop = "C01"
    targets = ("quara.objects.qoperation:QOperation.generate_origin_obj", "quara.objects.qoperation:QOperation.generate_zero_obj",
               ST + ":State._generate_origin_obj", PV + ":Povm._generate_origin_obj", GT + ":Gate._generate_origin_obj",
               MP + ":MProcess._generate_origin_obj")

    def configs(self, tier):
        out = []
        for s in (["1q", "1qt"] + (["2q"] if tier == "thorough" else [])):
            out += [(s, "state", 0), (s, "povm", 2), (s, "povm", 3), (s, "gate", 0), (s, "mprocess", 2), (s, "mprocess", 3)]
        out += [("2q", "povm-tensor", 6)] + ([("qxqt", "povm-tensor", 6)] if tier == "thorough" else [])
        # measurement processes whose outcomes carry a multi-index shape (as composition / tensor product produce them)
        out += [("1q", "mprocess-shape", (2, 2)), ("1q", "mprocess-shape", (3, 2))]
        return out

    def inputs(self, W, cfg, mk):
        c_sys = make_csys(W, cfg[0])
        kind, m = cfg[1], cfg[2]
        if kind == "povm-tensor":
            # a POVM on two subsystems built by tensor_product: local outcome counts [2, 3]
            from .C07_all import esys, single
            dims = (2, 2) if cfg[0] == "2q" else (2, 3)
            es = [esys(W, k, d) for k, d in enumerate(dims)]
            pa = obj_povm(W, mk, single(W, es[0]), 2, "pa")
            pb = obj_povm(W, mk, single(W, es[1]), 3, "pb")
            return dict(obj=W.mod("quara.objects.operators").tensor_product(pa, pb))
        if kind == "mprocess-shape":
            return dict(obj=obj_mprocess(W, mk, c_sys, m[0] * m[1], shape=m))
        if kind == "state":
            o = obj_state(W, mk, c_sys)
        elif kind == "povm":
            o = obj_povm(W, mk, c_sys, m)
        elif kind == "gate":
            o = obj_gate(W, mk, c_sys)
        else:
            o = obj_mprocess(W, mk, c_sys, m)
        return dict(obj=o)

    def run(self, W, cfg, inp):
        from ._cfg import stacked
        o = inp["obj"]
        return [stacked(W, o.generate_origin_obj()), stacked(W, o.generate_zero_obj())]

    def post(self, W, cfg, inp, out):
        S = W.S
        np = S.np
        o = inp["obj"]
        c_sys = o.composite_system
        d = c_sys.dim
        kind, m = cfg[1], cfg[2]
        if kind == "mprocess-shape":
            kind, m = "mprocess", m[0] * m[1]
        cl = []
        ident = np.eye(d, dtype=np.complex128)
        if kind == "state":
            cl.append(eq("origin-denotes-I/d", S.op_from_vec(c_sys, out[0][0]), ident / d, "origin state denotes I/d"))
        elif kind in ("povm", "povm-tensor"):
            for x in range(m):
                cl.append(eq(f"origin-denotes-I/m[{x}]", S.op_from_vec(c_sys, out[0][x]), ident / m, "origin POVM element denotes I/m"))
        else:
            # completely depolarising channel: rho -> Tr(rho) I/d   (scaled by 1/m for measurement processes)
            scale = 1 if kind == "gate" else m
            bs = S.basis(c_sys)
            for x, hs in enumerate(out[0]):
                for a, b in enumerate(bs[: min(len(bs), 5)]):
                    img = S.op_from_vec(c_sys, hs[:, a])
                    cl.append(eq(f"origin-denotes-depolarising[{x},{a}]", img, S.trace(b) * ident / (d * scale),
                                 "origin gate maps B_a to Tr(B_a) I/d (/m per outcome)"))
        for x, z in enumerate(out[1]):
            cl.append(eq(f"zero-is-zero[{x}]", z, 0 * z, "zero object is the zero operator"))
        return cl


# ------------------------------------------------------------------ Povm

class PovmIdentitySum(WithAtol):
    name = "Povm.is_identity_sum"
    targets = (PV + ":Povm.is_identity_sum", PV + ":Povm.is_eq_constraint_satisfied", PV + ":Povm._sum_matrix")

    def configs(self, tier):
        out = [("1q", None, 2), ("1q", None, 3), ("1qt", None, 2), ("1q", "pauli", 2)]
        if tier == "thorough":
            out += [("2q", None, 3), ("1qt", None, 4), ("1q", None, 5)]
        return out

    def inputs(self, W, cfg, mk):
        return dict(povm=obj_povm(W, mk, make_csys(W, cfg[0], cfg[1]), cfg[2]), atol=atol_input(mk))

    def run(self, W, cfg, inp):
        return [inp["povm"].is_identity_sum(inp["atol"]), inp["povm"].is_eq_constraint_satisfied(inp["atol"])]

    def post(self, W, cfg, inp, out):
        S = W.S
        p = inp["povm"]
        mats = [S.op_from_vec(p.composite_system, v) for v in p.vecs]
        spec = spec_identity_sum(S, mats, inp["atol"])
        return [eq("verdict/is_identity_sum", out[0], spec, "is_identity_sum(atol) <=> max |(sum_x M_x - I)_ij| <= atol"),
                eq("verdict/is_eq_constraint_satisfied", out[1], spec, "<=> the same")]

    def canary(self, W, cfg, inp, out):
        S = W.S
        p = inp["povm"]
        mats = [S.op_from_vec(p.composite_system, v) for v in p.vecs]
        return [eq("canary", out[0], spec_identity_sum(S, mats, 2 * inp["atol"]), "(false) tolerance 2*atol")]


class PovmPsd(WithAtol):
    name = "Povm.is_positive_semidefinite"
    targets = (PV + ":Povm.is_positive_semidefinite", PV + ":Povm.is_ineq_constraint_satisfied")

    def configs(self, tier):
        return [("1q", None, 2)] + ([("1q", None, 3), ("1qt", None, 2)] if tier == "thorough" else [])

    def inputs(self, W, cfg, mk):
        return dict(povm=obj_povm(W, mk, make_csys(W, cfg[0], cfg[1]), cfg[2]), atol=atol_input(mk))

    def run(self, W, cfg, inp):
        return [inp["povm"].is_positive_semidefinite(inp["atol"]), inp["povm"].is_ineq_constraint_satisfied(inp["atol"])]

    def post(self, W, cfg, inp, out):
        S = W.S
        p = inp["povm"]
        spec = S.And(*[spec_psd(S, S.op_from_vec(p.composite_system, v), inp["atol"]) for v in p.vecs])
        return [eq("verdict/is_positive_semidefinite", out[0], spec, "<=> every element PSD within atol"),
                eq("verdict/is_ineq_constraint_satisfied", out[1], spec, "<=> the same")]


# ------------------------------------------------------------------ Gate

class GateTp(WithAtol):
    name = "gate.is_tp"
    targets = (GT + ":is_tp", GT + ":Gate.is_tp", GT + ":Gate.is_eq_constraint_satisfied")

    def configs(self, tier):
        return [("1q", None), ("1qt", None), ("1q", "pauli"), ("1q", "hermitian")] + ([("2q", None)] if tier == "thorough" else [])

    def inputs(self, W, cfg, mk):
        return dict(gate=obj_gate(W, mk, make_csys(W, *cfg)), atol=atol_input(mk))

    def run(self, W, cfg, inp):
        g = inp["gate"]
        return [g.is_tp(inp["atol"]), g.is_eq_constraint_satisfied(inp["atol"])]

    def post(self, W, cfg, inp, out):
        S = W.S
        g = inp["gate"]
        c_sys = g.composite_system
        d = c_sys.dim
        viol = [v.real for v in spec_tp_viol(S, c_sys, g.hs)]
        atol = inp["atol"]
        small = S.And(*[S.abs(v) <= atol for v in viol])
        if c_sys.is_orthonormal_hermitian_0thprop_identity:
            # first-row branch: Tr B_0 = sqrt(d), so |first-row entry - e0| <= atol  <=>  viol_a <= sqrt(d)*atol.
            # Stated as a sandwich so that the branch is not over-demanded.
            import math
            rd = W.np.sqrt(d)
            wide = S.And(*[S.abs(v) <= rd * atol for v in viol])
            cl = []
            for k in (0, 1):
                cl.append(true(f"verdict[{k}]/true-implies-viol<=sqrt(d)*atol", S.Implies(out[k], wide),
                               "True => max_a |Tr Lambda(B_a) - Tr B_a| <= sqrt(d)*atol (no slack proportional to the operand)"))
                cl.append(true(f"verdict[{k}]/small-viol-implies-true", S.Implies(S.And(*[S.abs(v) * rd <= atol for v in viol]), out[k]),
                               "max_a |Tr Lambda(B_a) - Tr B_a| <= atol/sqrt(d) => True"))
            return cl
        return [eq("verdict[0]/trace-branch", out[0], small, "is_tp <=> max_a |Tr Lambda(B_a) - Tr B_a| <= atol"),
                eq("verdict[1]/trace-branch", out[1], small, "<=> the same")]

    def canary(self, W, cfg, inp, out):
        S = W.S
        g = inp["gate"]
        viol = [v.real for v in spec_tp_viol(S, g.composite_system, g.hs)]
        return [true("canary", S.Implies(out[0], S.And(*[S.abs(v) * 4 <= inp["atol"] for v in viol])), "(false) True => viol <= atol/4")]


class GateCp(WithAtol):
    name = "gate.is_cp"
    targets = (GT + ":is_cp", GT + ":Gate.is_cp", GT + ":Gate.is_ineq_constraint_satisfied")

    def configs(self, tier):
        return [("1q", None)] + ([("1q", "pauli")] if tier == "thorough" else [])

    def inputs(self, W, cfg, mk):
        return dict(gate=obj_gate(W, mk, make_csys(W, *cfg)), atol=atol_input(mk))

    def run(self, W, cfg, inp):
        g = inp["gate"]
        return [g.is_cp(inp["atol"]), g.is_ineq_constraint_satisfied(inp["atol"])]

    def post(self, W, cfg, inp, out):
        S = W.S
        g = inp["gate"]
        choi = S.choi_from_hs(g.composite_system, g.hs)
        spec = spec_psd(S, choi, inp["atol"])
        return [eq("verdict/is_cp", out[0], spec, "is_cp(atol) <=> Choi matrix (spec formula) PSD within atol"),
                eq("verdict/is_ineq_constraint_satisfied", out[1], spec, "<=> the same")]


# ------------------------------------------------------------------ MProcess

class MProcessSumTp(WithAtol):
    name = "MProcess.is_sum_tp"
    targets = (MP + ":MProcess.is_sum_tp", MP + ":MProcess.is_eq_constraint_satisfied")

    def configs(self, tier):
        return [("1q", 2), ("1q", 3)] + ([("1qt", 2), ("2q", 2)] if tier == "thorough" else [])

    def inputs(self, W, cfg, mk):
        return dict(mp=obj_mprocess(W, mk, make_csys(W, cfg[0]), cfg[1]), atol=atol_input(mk))

    def run(self, W, cfg, inp):
        return [inp["mp"].is_sum_tp(inp["atol"]), inp["mp"].is_eq_constraint_satisfied(inp["atol"])]

    def post(self, W, cfg, inp, out):
        S = W.S
        mp = inp["mp"]
        c_sys = mp.composite_system
        tot = mp.hss[0]
        for h in mp.hss[1:]:
            tot = tot + h
        viol = [v.real for v in spec_tp_viol(S, c_sys, tot)]
        atol = inp["atol"]
        rd = W.np.sqrt(c_sys.dim)
        cl = []
        for k in (0, 1):
            cl.append(true(f"verdict[{k}]/true-implies-viol<=sqrt(d)*atol",
                           S.Implies(out[k], S.And(*[S.abs(v) <= rd * atol for v in viol])),
                           "True => the sum of the outcome maps preserves every basis trace within sqrt(d)*atol"))
            cl.append(true(f"verdict[{k}]/small-viol-implies-true",
                           S.Implies(S.And(*[S.abs(v) * rd <= atol for v in viol]), out[k]), "viol <= atol/sqrt(d) => True"))
        return cl


class MProcessCp(WithAtol):
    """MProcess.is_cp / is_ineq_constraint_satisfied: every element's Choi matrix is PSD within atol - every element of the (possibly
    multi-index) outcome shape, not a leading part of them"""
    name = "MProcess.is_cp"
    targets = (MP + ":MProcess.is_cp", MP + ":MProcess.is_ineq_constraint_satisfied", GT + ":is_cp")

    def configs(self, tier):
        return [("1q", 2), ("1q", (2, 2))] + ([("1q", 3), ("1q", (3, 2))] if tier == "thorough" else [])

    def inputs(self, W, cfg, mk):
        m = cfg[1]
        shape = tuple(m) if isinstance(m, tuple) else None
        count = m[0] * m[1] if shape else m
        mp = obj_mprocess(W, mk, make_csys(W, cfg[0]), count, shape=shape)
        if shape:
            # multi-index shapes: the leading shape[0] elements are fixed completely positive maps (multiples of the identity channel), the
            # remaining ones symbolic - the path count of four fully symbolic elements is out of budget
            n = mp.hss[0].shape[0]
            for x in range(shape[0]):
                mp.hss[x][:, :] = W.np.eye(n) / (4 * (x + 1))
        return dict(mp=mp, atol=atol_input(mk))

    def run(self, W, cfg, inp):
        return [inp["mp"].is_cp(inp["atol"]), inp["mp"].is_ineq_constraint_satisfied(inp["atol"])]

    def post(self, W, cfg, inp, out):
        S = W.S
        mp = inp["mp"]
        spec = S.And(*[spec_psd(S, S.choi_from_hs(mp.composite_system, h), inp["atol"]) for h in mp.hss])
        return [eq("verdict/is_cp", out[0], spec, "is_cp(atol) <=> the Choi matrix of EVERY element is PSD within atol"),
                eq("verdict/is_ineq_constraint_satisfied", out[1], spec, "<=> the same")]

    def canary(self, W, cfg, inp, out):
        S = W.S
        mp = inp["mp"]
        spec = S.And(*[spec_psd(S, S.choi_from_hs(mp.composite_system, h), inp["atol"]) for h in mp.hss])
        return [eq("canary", out[0], S.Not(spec), "(false) the verdict is the negation of the definition")]


def _build_kind(W, mk, kind, c_sys, m, **kw):
    if kind == "povm":
        return obj_povm(W, mk, c_sys, m, **kw)
    if kind == "gate":
        return obj_gate(W, mk, c_sys, **kw)
    shape = tuple(m) if isinstance(m, tuple) else None
    mp = obj_mprocess(W, mk, c_sys, m[0] * m[1] if shape else m, shape=shape, **kw)
    if shape:
        # (path budget) the leading shape[0] elements are fixed completely positive maps, the remaining ones symbolic
        n = mp.hss[0].shape[0]
        for x in range(shape[0]):
            mp.hss[x][:, :] = W.np.eye(n) / (4 * (x + 1))
    return mp


class TypePhysical(WithAtol):
    """is_physical(a, b) of Povm / Gate / MProcess routes a to the type's equality verdict and b to its inequality verdict (the verdicts
    themselves are the obligations of the per-verdict contracts above)"""
    name = "Povm/Gate/MProcess.is_physical"
    targets = ("quara.objects.qoperation:QOperation.is_physical", PV + ":Povm.is_eq_constraint_satisfied", PV + ":Povm.is_ineq_constraint_satisfied",
               GT + ":Gate.is_eq_constraint_satisfied", GT + ":Gate.is_ineq_constraint_satisfied",
               MP + ":MProcess.is_eq_constraint_satisfied", MP + ":MProcess.is_ineq_constraint_satisfied")

    def configs(self, tier):
        return [("1q", "povm", 2), ("1q", "gate", 0), ("1q", "mprocess", 2)] + ([("1q", "povm", 3), ("1q", "mprocess", (2, 2))] if tier == "thorough" else [])

    def inputs(self, W, cfg, mk):
        a = atol_input(mk)
        b = mk.real("btol")
        mk.require(b >= 1e-13)
        mk.require(b <= 1e-2)
        return dict(obj=_build_kind(W, mk, cfg[1], make_csys(W, cfg[0]), cfg[2]), atol=a, btol=b)

    def sample(self, cfg, names, rng):
        v = sample_with_atol(cfg, names, rng)
        v["btol"] = 10 ** rng.uniform(-13, -2)
        return v

    def run(self, W, cfg, inp):
        o = inp["obj"]
        return dict(phys=o.is_physical(inp["atol"], inp["btol"]), eq=o.is_eq_constraint_satisfied(inp["atol"]), ineq=o.is_ineq_constraint_satisfied(inp["btol"]))

    def post(self, W, cfg, inp, out):
        S = W.S
        return [eq("verdict", out["phys"], S.And(out["eq"], out["ineq"]),
                   "is_physical(a, b) <=> is_eq_constraint_satisfied(a) and is_ineq_constraint_satisfied(b)")]

    def canary(self, W, cfg, inp, out):
        S = W.S
        return [eq("canary", out["phys"], S.Not(S.And(out["eq"], out["ineq"])), "(false) the verdict is the negation of the conjunction")]


class TypeConstructor(WithAtol):
    """constructing a Povm / Gate / MProcess with physicality required raises ValueError exactly when the same arrays are not physical at the
    global atol"""
    name = "Povm/Gate/MProcess.__init__"
    targets = (PV + ":Povm.__init__", GT + ":Gate.__init__", MP + ":MProcess.__init__")
    frame = False
    may_raise = True

    def configs(self, tier):
        return [("1q", "povm", 2), ("1q", "gate", 0), ("1q", "mprocess", 2)] + ([("1q", "mprocess", (2, 2))] if tier == "thorough" else [])

    def inputs(self, W, cfg, mk):
        return dict(c_sys=make_csys(W, cfg[0]), free=_build_kind(W, mk, cfg[1], make_csys(W, cfg[0]), cfg[2]))

    def sample(self, cfg, names, rng):
        return sample_with_atol(cfg, names, rng)

    def run(self, W, cfg, inp):
        o = inp["free"]
        kind, m = cfg[1], cfg[2]
        kw = dict(is_physicality_required=True)
        if kind == "povm":
            W.mod(PV).Povm(inp["c_sys"], [W.np.copy(v) for v in o.vecs], **kw)
        elif kind == "gate":
            W.mod(GT).Gate(inp["c_sys"], W.np.copy(o.hs), **kw)
        else:
            W.mod(MP).MProcess(inp["c_sys"], [W.np.copy(h) for h in o.hss], shape=tuple(m) if isinstance(m, tuple) else None, **kw)
        return "constructed"

    def post(self, W, cfg, inp, out):
        S = W.S
        phys = inp["free"].is_physical()
        if isinstance(out, Raised):
            return [true("raises-iff-not-physical", S.And(out.name == "ValueError", S.Not(phys)),
                         "constructor raises ValueError => the arrays are not physical at the global atol")]
        return [true("raises-iff-not-physical", phys, "constructor succeeds => the arrays are physical at the global atol")]


"""C06, bounded stand-in: Povm.generate_mprocess(mode_backaction=1) on POVM elements with DEGENERATE non-zero eigenvalues.

The symbolic contract (C06_all.GenerateMProcess) covers spectra whose eigenvalues are separated; the degenerate branch of the code groups
eigenvalues that numpy.linalg.eigh returns as floats, which no symbolic eigenvalue can express.  That branch is therefore evaluated natively
on a finite list of instances (exactly diagonal, Pauli-parity and randomly rotated degenerate elements on 2 qubits / 1 qutrit):
the generated process must be the Lueders instrument  rho -> sum_w w P_w rho P_w  (P_w the projector on the whole eigenspace of w),
must induce the POVM, and MProcess o State must give Born probabilities and the normalised Lueders post-measurement states.
Tolerance 1e-9.  BOUNDED: a finite list of instances, never counted as proved."""
import math
import random

import numpy as np

from qverif.core import native as N
from .C17_enum import Tally, close

OBJ = "quara.objects."


def M(name):
    return N.native_import(OBJ + name)


def _unitary(d, rng):
    a = np.array([[complex(rng.gauss(0, 1), rng.gauss(0, 1)) for _ in range(d)] for _ in range(d)])
    q, r = np.linalg.qr(a)
    return q * (np.diag(r) / np.abs(np.diag(r)))


def instances(tier, seed):
    """(label, system, [(eigenvalue, multiplicity) per element 0], rotation)  ->  list of Hermitian elements summing to the identity"""
    rng = random.Random(1000 + seed)
    X = np.array([[0, 1], [1, 0]], dtype=complex)
    Y = np.array([[0, -1j], [1j, 0]])
    Z = np.diag([1.0 + 0j, -1.0])
    I2 = np.eye(2, dtype=complex)
    out = []
    for nm, A in [("ZI", np.kron(Z, I2)), ("XX", np.kron(X, X)), ("YY", np.kron(Y, Y)), ("IY", np.kron(I2, Y)), ("XZ", np.kron(X, Z))]:
        P = (np.eye(4) + A) / 2
        out.append((f"2q:parity({nm})", "2q", [P, np.eye(4) - P]))
    out.append(("1qt:diag(.5,.5,.25)", "1qt", [np.diag([0.5, 0.5, 0.25]).astype(complex), np.diag([0.5, 0.5, 0.75]).astype(complex)]))
    out.append(("2q:diag(.7,.7,.2,.2)", "2q", [np.diag([0.7, 0.7, 0.2, 0.2]).astype(complex), np.diag([0.3, 0.3, 0.8, 0.8]).astype(complex)]))
    n_rot = 6 if tier == "quick" else 40
    for k in range(n_rot):
        U = _unitary(4, rng)
        P = U @ np.diag([1.0, 1.0, 0.0, 0.0]) @ U.conj().T
        P = (P + P.conj().T) / 2
        out.append((f"2q:rotated-rank2-projector#{k}", "2q", [P, np.eye(4) - P]))
        U = _unitary(4, rng)
        E = U @ np.diag([0.7, 0.7, 0.2, 0.2]) @ U.conj().T
        E = (E + E.conj().T) / 2
        out.append((f"2q:rotated(.7,.7,.2,.2)#{k}", "2q", [E, np.eye(4) - E]))
        U = _unitary(3, rng)
        E = U @ np.diag([0.5, 0.5, 0.25]) @ U.conj().T
        E = (E + E.conj().T) / 2
        out.append((f"1qt:rotated(.5,.5,.25)#{k}", "1qt", [E, np.eye(3) - E]))
        U = _unitary(3, rng)
        E1 = U @ np.diag([0.5, 0.5, 0.0]) @ U.conj().T
        E2 = U @ np.diag([0.25, 0.25, 0.5]) @ U.conj().T
        out.append((f"1qt:three-outcomes-rotated#{k}", "1qt", [(E1 + E1.conj().T) / 2, (E2 + E2.conj().T) / 2, np.eye(3) - (E1 + E1.conj().T) / 2 - (E2 + E2.conj().T) / 2]))
    return out


def _eigenspaces(E, gap=1e-6):
    """reference spectral decomposition: eigenvalues closer than `gap` belong to one eigenspace (the instances have gaps >= 0.2)"""
    w, V = np.linalg.eigh(E)
    groups = []
    for k in range(len(w)):
        P = np.outer(V[:, k], V[:, k].conj())
        if groups and abs(w[k] - groups[-1][0][-1]) < gap:
            groups[-1][0].append(w[k])
            groups[-1][1][:] = groups[-1][1] + P
        else:
            groups.append([[w[k]], P.copy()])
    return [(float(np.mean(ws)), P) for ws, P in groups]


def job_generate_mprocess_degenerate(tier="quick", seed=0):
    cst = M("composite_system_typical")
    povm_m, state_m, ops = M("povm"), M("state"), M("operators")
    t = Tally("generate_mprocess/degenerate-spectra", [OBJ + "povm:Povm.generate_mprocess", OBJ + "mprocess:MProcess.to_povm",
                                                        OBJ + "operators:compose_qoperations"], prop="C06", what="POVM instance")
    rng = random.Random(77 + seed)
    systems = {"2q": cst.generate_composite_system("qubit", 2), "1qt": cst.generate_composite_system("qutrit", 1)}
    for label, s, elems in instances(tier, seed):
        c = systems[s]
        d = c.dim
        basis = [np.asarray(b.toarray() if hasattr(b, "toarray") else b) for b in c.basis()]
        vec = lambda A: np.array([np.trace(b.conj().T @ A).real for b in basis])
        op = lambda v: sum(x * b for x, b in zip(v, basis))
        povm = povm_m.Povm(c, [vec(E) for E in elems], is_physicality_required=False)
        # a state with coherences everywhere
        G = np.array([[complex(rng.gauss(0, 1), rng.gauss(0, 1)) for _ in range(d)] for _ in range(d)])
        rho = G @ G.conj().T
        rho = rho / np.trace(rho).real
        state = state_m.State(c, vec(rho), is_physicality_required=False)
        try:
            mp = povm.generate_mprocess(mode_backaction=1)
            err = None
        except Exception as e:  # noqa
            mp, err = None, f"raised {type(e).__name__}: {str(e)[:120]}"
        t.check("returns-normally", mp is not None, label, "generate_mprocess(mode 1) returns for every POVM", err or "")
        if mp is None:
            continue
        worst, worst_p = 0.0, 0.0
        for x, E in enumerate(elems):
            want = sum(w * (P @ rho @ P) for w, P in _eigenspaces(E))
            got = op(mp.hs(x) @ vec(rho))
            worst = max(worst, float(np.abs(got - want).max()))
            worst_p = max(worst_p, float(np.abs(mp.to_povm().vecs[x] - povm.vecs[x]).max()))
        t.check("lueders-back-action", worst <= 1e-9, label,
                "mode 1: Lambda_x(rho) == sum_w w P_w rho P_w with P_w the projector on the whole eigenspace of eigenvalue w (degenerate eigenvalues grouped)",
                f"max |Lambda_x(rho) - Lueders| = {worst:.3e}")
        t.check("induces-the-povm", worst_p <= 1e-9, label, "to_povm() of the generated process is the POVM", f"max deviation {worst_p:.3e}")

        def post_states():
            ens = ops.compose_qoperations(mp, state)
            bad = 0.0
            for x, E in enumerate(elems):
                px = float(np.trace(E @ rho).real)
                bad = max(bad, abs(ens.prob_dist.ps[x] - px))
                if px > 1e-6:
                    want = sum(w * (P @ rho @ P) for w, P in _eigenspaces(E)) / px
                    bad = max(bad, float(np.abs(op(ens.states[x].vec) - want).max()))
            return bad <= 1e-9, f"max deviation {bad:.3e}"
        t.guard("compose/probabilities-and-post-states", label, post_states,
                "MProcess o State: probability Tr(M_x rho) and normalised post-measurement state Lueders(rho)/Tr(M_x rho)")
    return t.results(f"{len(instances(tier, seed))} POVM instances with degenerate non-zero eigenvalues, tolerance 1e-9 (bounded)")

"""C02 (POVM part)"""
from qverif.symtwin.verify import E2Contract, eq, true
from ._cfg import make_csys, DIMS, obj_povm

PV = "quara.objects.povm"


class PovmMatrices(E2Contract):
    name = "Povm.matrices*"
    prop = "C02"
    targets = (PV + ":Povm.matrices", PV + ":Povm.matrices_with_sparsity", PV + ":Povm.matrix",
               PV + ":to_matrices_from_vecs", PV + ":to_matrices_from_var")

    def configs(self, tier):
        out = [("1q", None, 2), ("1q", None, 3), ("1qt", None, 2), ("1q", "pauli", 2), ("1q", "hermitian", 3), ("2q", None, 3)]
        if tier == "thorough":
            out += [("1q", None, 4), ("1q", None, 5), ("1qt", None, 4), ("qxqt", None, 2)]
        return out

    def inputs(self, W, cfg, mk):
        return dict(povm=obj_povm(W, mk, make_csys(W, cfg[0], cfg[1]), cfg[2], on_para=False))

    def run(self, W, cfg, inp):
        p = inp["povm"]
        m = W.mod(PV)
        return [p.matrices(), p.matrices_with_sparsity(), [p.matrix(x) for x in range(cfg[2])],
                m.to_matrices_from_vecs(p.composite_system, p.vecs),
                m.to_matrices_from_var(p.composite_system, p.to_var(), on_para_eq_constraint=False)]

    def post(self, W, cfg, inp, out):
        p = inp["povm"]
        spec = [W.S.op_from_vec(p.composite_system, v) for v in p.vecs]
        return [eq("formula/matrices", out[0], spec, "matrices()[x] == sum_a vecs[x]_a B_a"),
                eq("formula/matrices_with_sparsity", out[1], spec, "matrices_with_sparsity() == the same"),
                eq("formula/matrix(x)", out[2], spec, "matrix(x) == the same"),
                eq("formula/to_matrices_from_vecs", out[3], spec, "to_matrices_from_vecs == the same"),
                eq("formula/to_matrices_from_var(flag off)", out[4], spec, "to_matrices_from_var(to_var()) == the same")]

    def canary(self, W, cfg, inp, out):
        p = inp["povm"]
        spec = [W.S.op_from_vec(p.composite_system, v).T for v in p.vecs]
        return [eq("canary", out[0], spec, "(false) transposed matrices")]


class PovmMatrixWithSparsity(E2Contract):
    name = "Povm.matrix_with_sparsity"
    prop = "C02"
    targets = (PV + ":Povm.matrix_with_sparsity",)

    def configs(self, tier):
        return [("1q", None, 2), ("1qt", None, 3)]

    def inputs(self, W, cfg, mk):
        return dict(povm=obj_povm(W, mk, make_csys(W, cfg[0], cfg[1]), cfg[2], on_para=False))

    def run(self, W, cfg, inp):
        p = inp["povm"]
        return [p.matrix_with_sparsity(x) for x in range(cfg[2])]

    def post(self, W, cfg, inp, out):
        p = inp["povm"]
        spec = [W.S.op_from_vec(p.composite_system, v) for v in p.vecs]
        return [eq("formula/matrix_with_sparsity(x)", out, spec, "matrix_with_sparsity(x) == sum_a vecs[x]_a B_a (alternative implementation of matrix(x))")]


class PovmVecFromMatrix(E2Contract):
    name = "to_vec(s)_from_matri(x|ces)_with_sparsity"
    prop = "C02"
    targets = (PV + ":to_vec_from_matrix_with_sparsity", PV + ":to_vecs_from_matrices_with_sparsity", PV + ":to_var_from_matrices")

    def configs(self, tier):
        # third component "F": matrices handed over as transposed views (Fortran memory order)
        return [("1q", 2), ("1qt", 2), ("1qt", 2, "F")] + ([("2q", 2), ("1q", 3), ("2q", 2, "F")] if tier == "thorough" else [])

    def inputs(self, W, cfg, mk):
        d = DIMS[cfg[0]]
        eps = mk.real("eps")
        mk.require(eps > 0)
        mk.require(eps <= 1e-2)
        mats = [mk.hermitian(f"M{x}", d) for x in range(cfg[1])]
        if len(cfg) > 2:
            mats = [m.T for m in mats]
        return dict(c_sys=make_csys(W, cfg[0]), mats=mats, eps=eps)

    def sample(self, cfg, names, rng):
        vals = {n: rng.uniform(-1.5, 1.5) for n in names}
        vals["eps"] = 10 ** rng.uniform(-13, -2)
        return vals

    def run(self, W, cfg, inp):
        m = W.mod(PV)
        return [m.to_vec_from_matrix_with_sparsity(inp["c_sys"], inp["mats"][0], inp["eps"])]

    def post(self, W, cfg, inp, out):
        exact = W.S.vec_from_op(inp["c_sys"], inp["mats"][0])
        return [true("truncation-rule", W.S.truncated(out[0], exact, inp["eps"]),
                     "each entry equals <B_a, M> or is 0 where |<B_a, M>| < eps")]


class PovmRoundTrip(E2Contract):
    name = "vecs->matrices->vecs"
    prop = "C02"
    targets = (PV + ":to_matrices_from_vecs", "spec:vec_from_op")

    def configs(self, tier):
        return [("1q", 2), ("1qt", 3), ("2q", 2)]

    def inputs(self, W, cfg, mk):
        return dict(povm=obj_povm(W, mk, make_csys(W, cfg[0]), cfg[1], on_para=False))

    def run(self, W, cfg, inp):
        p = inp["povm"]
        return W.mod(PV).to_matrices_from_vecs(p.composite_system, p.vecs)

    def post(self, W, cfg, inp, out):
        p = inp["povm"]
        back = [W.S.vec_from_op(p.composite_system, m) for m in out]
        return [eq("inverse", back, list(p.vecs), "<B_a, to_matrices_from_vecs(vecs)[x]> == vecs[x]_a")]


class PovmTupleIndex(E2Contract):
    """a POVM on several subsystems (built by tensor_product, local outcome counts pairwise different) addressed by a tuple of local outcomes:
    vec / matrix / matrix_with_sparsity of (x1..xn) is the element at the row-major position of (x1..xn) in nums_local_outcomes, and is the
    Kronecker product of the factors' elements x1..xn"""
    name = "Povm.vec/matrix(tuple index)"
    prop = "C02"
    targets = (PV + ":Povm._md_index2serial_index", PV + ":Povm.vec", PV + ":Povm.matrix", PV + ":Povm.matrix_with_sparsity")
    may_raise = False

    def configs(self, tier):
        out = [((2, 2), (2, 3)), ((2, 2), (3, 2)), ((2, 3), (4, 3))]
        if tier == "thorough":
            out += [((2, 2, 2), (2, 3, 4)), ((2, 2, 2), (3, 2, 2)), ((3, 2), (2, 5))]
        return out

    def inputs(self, W, cfg, mk):
        from .C07_all import esys, make_factor
        dims, counts = cfg
        es = [esys(W, k, d) for k, d in enumerate(dims)]
        return dict(factors=[make_factor(W, mk, "povm", e, m, f"f{k}_") for k, (e, m) in enumerate(zip(es, counts))])

    def run(self, W, cfg, inp):
        import itertools
        p = W.mod("quara.objects.operators").tensor_product(*inp["factors"])
        idx = list(itertools.product(*[range(int(c)) for c in p.nums_local_outcomes]))
        return dict(nums=[int(c) for c in p.nums_local_outcomes], vecs=list(p.vecs), basis=[W.S.dense(b) for b in p.composite_system.basis()],
                    vec=[p.vec(t) for t in idx], matrix=[p.matrix(t) for t in idx],
                    sparse=[p.matrix_with_sparsity(t) for t in idx],
                    by_int=[p.matrix(k) for k in range(len(idx))])

    def post(self, W, cfg, inp, out):
        import itertools
        from .C07_all import kron_all
        dims, counts = cfg
        S = W.S
        nums = out["nums"]
        idx = list(itertools.product(*[range(c) for c in nums]))
        serial = []
        for t in idx:
            s = 0
            for x, c in zip(t, nums):
                s = s * c + x
            serial.append(s)
        mats = [sum(v[a] * out["basis"][a] for a in range(len(out["basis"]))) for v in out["vecs"]]
        cl = [eq("outcome-shape", nums, list(counts), "nums_local_outcomes of the product == the factors' outcome counts (ascending subsystem names)"),
              eq("vec(tuple)==row-major-position", out["vec"], [out["vecs"][s] for s in serial],
                 "vec((x1..xn)) == vecs[x1*n2*..*nn + ... + xn]"),
              eq("matrix(tuple)==row-major-position", out["matrix"], [mats[s] for s in serial], "matrix((x1..xn)) == sum_a vecs[serial]_a B_a"),
              eq("matrix_with_sparsity(tuple)==row-major-position", out["sparse"], [mats[s] for s in serial], "the sparse variant agrees"),
              eq("matrix(int)", out["by_int"], mats, "matrix(k) for an int index == sum_a vecs[k]_a B_a")]
        fm = [[S.op_from_vec(f.composite_system, v) for v in f.vecs] for f in inp["factors"]]
        ref = [kron_all(W.np, [fm[k][x] for k, x in enumerate(t)]) for t in idx]
        cl.append(eq("matrix(tuple)==kron-of-factor-elements", out["matrix"], ref,
                     "matrix((x1..xn)) == M1_x1 (x) ... (x) Mn_xn (uses tensor_product, whose layout is C07's obligation)"))
        return cl

    def canary(self, W, cfg, inp, out):
        return [eq("canary", out["vec"][:2], [out["vecs"][1], out["vecs"][0]], "(false) first two outcomes swapped")]

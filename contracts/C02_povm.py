"""C02 (POVM part)"""
from qverif.symtwin.verify import E2Contract, eq, true
from ._cfg import make_csys, DIMS, obj_povm

PV = "quara.objects.povm"


class PovmMatrices(E2Contract):
    name = "Povm.matrices*"
    prop = "C02"
    targets = (PV + ":Povm.matrices", PV + ":Povm.matrices_with_sparsity", PV + ":Povm.matrix",
               PV + ":to_matrices_from_vecs", PV + ":to_matrices_from_var")

    def configs(self, tier):
        out = [("1q", None, 2), ("1q", None, 3), ("1qt", None, 2), ("1q", "pauli", 2), ("1q", "hermitian", 3), ("2q", None, 3)]
        if tier == "thorough":
            out += [("1q", None, 4), ("1q", None, 5), ("1qt", None, 4), ("qxqt", None, 2)]
        return out

    def inputs(self, W, cfg, mk):
        return dict(povm=obj_povm(W, mk, make_csys(W, cfg[0], cfg[1]), cfg[2], on_para=False))

    def run(self, W, cfg, inp):
        p = inp["povm"]
        m = W.mod(PV)
        return [p.matrices(), p.matrices_with_sparsity(), [p.matrix(x) for x in range(cfg[2])],
                m.to_matrices_from_vecs(p.composite_system, p.vecs),
                m.to_matrices_from_var(p.composite_system, p.to_var(), on_para_eq_constraint=False)]

    def post(self, W, cfg, inp, out):
        p = inp["povm"]
        spec = [W.S.op_from_vec(p.composite_system, v) for v in p.vecs]
        return [eq("formula/matrices", out[0], spec, "matrices()[x] == sum_a vecs[x]_a B_a"),
                eq("formula/matrices_with_sparsity", out[1], spec, "matrices_with_sparsity() == the same"),
                eq("formula/matrix(x)", out[2], spec, "matrix(x) == the same"),
                eq("formula/to_matrices_from_vecs", out[3], spec, "to_matrices_from_vecs == the same"),
                eq("formula/to_matrices_from_var(flag off)", out[4], spec, "to_matrices_from_var(to_var()) == the same")]

    def canary(self, W, cfg, inp, out):
        p = inp["povm"]
        spec = [W.S.op_from_vec(p.composite_system, v).T for v in p.vecs]
        return [eq("canary", out[0], spec, "(false) transposed matrices")]


class PovmMatrixWithSparsity(E2Contract):
    name = "Povm.matrix_with_sparsity"
    prop = "C02"
    targets = (PV + ":Povm.matrix_with_sparsity",)

    def configs(self, tier):
        return [("1q", None, 2), ("1qt", None, 3)]

    def inputs(self, W, cfg, mk):
        return dict(povm=obj_povm(W, mk, make_csys(W, cfg[0], cfg[1]), cfg[2], on_para=False))

    def run(self, W, cfg, inp):
        p = inp["povm"]
        return [p.matrix_with_sparsity(x) for x in range(cfg[2])]

    def post(self, W, cfg, inp, out):
        p = inp["povm"]
        spec = [W.S.op_from_vec(p.composite_system, v) for v in p.vecs]
        return [eq("formula/matrix_with_sparsity(x)", out, spec, "matrix_with_sparsity(x) == sum_a vecs[x]_a B_a (alternative implementation of matrix(x))")]


class PovmVecFromMatrix(E2Contract):
    name = "to_vec(s)_from_matri(x|ces)_with_sparsity"
    prop = "C02"
    targets = (PV + ":to_vec_from_matrix_with_sparsity", PV + ":to_vecs_from_matrices_with_sparsity", PV + ":to_var_from_matrices")

    def configs(self, tier):
        return [("1q", 2), ("1qt", 2)] + ([("2q", 2), ("1q", 3)] if tier == "thorough" else [])

    def inputs(self, W, cfg, mk):
        d = DIMS[cfg[0]]
        eps = mk.real("eps")
        mk.require(eps > 0)
        mk.require(eps <= 1e-2)
        return dict(c_sys=make_csys(W, cfg[0]), mats=[mk.hermitian(f"M{x}", d) for x in range(cfg[1])], eps=eps)

    def sample(self, cfg, names, rng):
        vals = {n: rng.uniform(-1.5, 1.5) for n in names}
        vals["eps"] = 10 ** rng.uniform(-13, -2)
        return vals

    def run(self, W, cfg, inp):
        m = W.mod(PV)
        return [m.to_vec_from_matrix_with_sparsity(inp["c_sys"], inp["mats"][0], inp["eps"])]

    def post(self, W, cfg, inp, out):
        exact = W.S.vec_from_op(inp["c_sys"], inp["mats"][0])
        return [true("truncation-rule", W.S.truncated(out[0], exact, inp["eps"]),
                     "each entry equals <B_a, M> or is 0 where |<B_a, M>| < eps")]


class PovmRoundTrip(E2Contract):
    name = "vecs->matrices->vecs"
    prop = "C02"
    targets = (PV + ":to_matrices_from_vecs", "spec:vec_from_op")

    def configs(self, tier):
        return [("1q", 2), ("1qt", 3), ("2q", 2)]

    def inputs(self, W, cfg, mk):
        return dict(povm=obj_povm(W, mk, make_csys(W, cfg[0]), cfg[1], on_para=False))

    def run(self, W, cfg, inp):
        p = inp["povm"]
        return W.mod(PV).to_matrices_from_vecs(p.composite_system, p.vecs)

    def post(self, W, cfg, inp, out):
        p = inp["povm"]
        back = [W.S.vec_from_op(p.composite_system, m) for m in out]
        return [eq("inverse", back, list(p.vecs), "<B_a, to_matrices_from_vecs(vecs)[x]> == vecs[x]_a")]

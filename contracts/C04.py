"""C04 eq / ineq projections: jobs"""
from .C02 import e2_jobs, META as _M

META = dict(_M)
META["assumptions"] = _M["assumptions"] + [
    "eigh contract assumed: w real ascending, V unitary, M = V diag(w) V^H (the spec uses the same library call)",
    "T1 (Higham 1988): the positive part of a Hermitian matrix is its Frobenius-nearest PSD matrix -- assumed, not proved",
]
CLASSES = ["contracts.C04_all:EqProjection", "contracts.C04_all:IneqProjection", "contracts.C04_all:EqProjectionWithVar", "contracts.C04_all:IneqProjectionWithVar"]


def _native(fn, **kw):
    from . import C04_native as C
    return getattr(C, fn)(**kw)


def jobs(tier, seed):
    from qverif.core.runner import Job
    js = e2_jobs("C04", CLASSES, tier, seed)
    # bounded stand-in (native floats): the same contract over the scales 1e-3 .. 1e3 the property quantifies over
    parts = 2 if tier == "quick" else 8
    for part in range(parts):
        js.append(Job(f"C04/scale-sweep (instances)/{part}", "contracts.C04:_native",
                      dict(fn="job_scale_sweep", tier=tier, seed=seed, part=part, parts=parts), timeout_s=900.0))
    return js


CLAIM = {'engine': 'E2-symtwin', 'level': 'proof',
 'text': 'Equality projections of all four types: exact feasibility, idempotence, identity on feasible points, the variational identity <x-Px, y-Px> = 0 against an arbitrary feasible y, object-level = variable-level (both flags, closures included) and the frame (argument arrays unchanged) are polynomial VCs over all real parameters, discharged per configuration. Inequality projections: the result denotes V max(w,0) V^H of the denoted operator(s), relative to the assumed eigh contract, object-level = variable-level, frame.',
 'note': 'all-inputs@config (1q, 1qt[, 2q]; m 2..3 quick, 2..5 thorough; both flags; orthonormal Hermitian bases, the library precondition). Assumed: eigh contract; T1 (positive part is the nearest PSD matrix) -- nearest-point-ness of the inequality projection rests on T1. Floats as reals in the proofs; magnitude-dependent behaviour (absolute truncation thresholds, rounding of eigh) is evaluated natively on seeded random inputs of the scales 1e-3 .. 1e3 (independent eigendecomposition reference, variational inequality against random feasible competitors, idempotence, frame, object = variable level) as a bounded stand-in, not counted as proved; that sweep carries one known finding (scale 1e3 with the default imaginary-part threshold).',
 'technique': 'contract-based deductive verification (symbolic execution of the real source -> VCs, normaliser + z3)'}

"""C10 (partial): constrained estimators -- wiring of constraint options, projected-linear = projection o linear, start point.

The constraint projections are uninterpreted (the C05 stubs); what is proved is that every estimator that promises
physicality routes its iterate through the right projection.  NOT decided: that the returned estimate is physical to
stopping accuracy / recovers exact data (convergence theory: T2, T3; termination)."""
from qverif.symtwin.verify import E2Contract, eq, true, Raised
from qverif.symtwin import symnp as NP
from ._cfg import make_csys, stacked
from .C03_e2 import n_var, empty_obj
from .C05_all import Dykstra, opaque_vec, MODS, ATTR
from .C08_all import build_qt, UNKNOWN
from .C09_all import exact_testers

PGD = "quara.minimization_algorithm."


class ConstraintWiring(E2Contract):
    name = "set_constraint_from_standard_qt_and_option"
    prop = "C10"
    targets = (PGD + "projected_gradient_descent:ProjectedGradientDescent.set_constraint_from_standard_qt_and_option",
               "quara.objects.qoperation:QOperation.func_calc_proj_physical_with_var", "quara.objects.qoperation:QOperation.func_calc_proj_eq_constraint_with_var",
               "quara.objects.qoperation:QOperation.func_calc_proj_ineq_constraint_with_var", "quara.math.func_proj:proj_to_self")
    n_conformance = 0
    max_paths = 64
    frame = False

    def __init__(self):
        self.stubs = Dykstra().stubs

    def configs(self, tier):
        out = []
        for kind in ("qst", "povmt", "qpt") + (("qmpt",) if tier == "thorough" else ()):
            for on_para in (False, True):
                for eqf in (True, False):
                    for ineqf in (True, False):
                        for algo in ("backtracking",) + (("momentum", "fista") if (eqf and ineqf and not on_para) else ()):
                            for order in (("eq_ineq", "ineq_eq") if (eqf and ineqf) else ("eq_ineq",)):
                                out.append((kind, on_para, eqf, ineqf, algo, order))
        return out

    def inputs(self, W, cfg, mk):
        kind, on_para, eqf, ineqf, algo, order = cfg
        return dict(var=mk.array("var", n_var(UNKNOWN[kind], 2, 2, on_para)), probe=mk.real("eps0"))

    def run(self, W, cfg, inp):
        kind, on_para, eqf, ineqf, algo, order = cfg
        c_sys, states, povms = exact_testers(W, "1q", False)
        qt = build_qt(W, kind, dict(states=states, povms=povms), on_para, 2, "all")
        modn, clsn = {"backtracking": ("projected_gradient_descent_backtracking", "ProjectedGradientDescentBacktracking"),
                      "momentum": ("projected_gradient_descent_with_momentum", "ProjectedGradientDescentWithMomentum"),
                      "fista": ("projected_fast_iterative_shrinkage_thresholding_algorithm", "ProjectedFastIterativeShrinkageThresholdingAlgorithm")}[algo]
        mod = W.mod(PGD + modn)
        alg = getattr(mod, clsn)()
        opt = getattr(mod, clsn + "Option")(on_algo_eq_constraint=eqf, on_algo_ineq_constraint=ineqf, max_iteration_proj_physical=2, max_iteration_optimization=3, mode_proj_order=order)
        alg.set_constraint_from_standard_qt_and_option(qt, opt)
        tmpl = qt.generate_empty_estimation_obj_with_setting_info()
        var = inp["var"]
        got = alg.func_proj(W.np.copy(var))
        cls = type(tmpl)
        want2 = None
        if eqf and ineqf:
            # the property does not say whose projection order wins (option's or template's; Dykstra's limit does not depend on it):
            # the installed function must be the physical projection in one of the two orders
            want = tmpl.calc_proj_physical_with_var(W.np.copy(var), on_para_eq_constraint=on_para, max_iteration=2)
            tmpl.set_mode_proj_order(order)
            want2 = tmpl.calc_proj_physical_with_var(W.np.copy(var), on_para_eq_constraint=on_para, max_iteration=2)
        elif eqf:
            want = cls.calc_proj_eq_constraint_with_var(c_sys, W.np.copy(var), on_para_eq_constraint=on_para)
        elif ineqf:
            want = cls.calc_proj_ineq_constraint_with_var(c_sys, W.np.copy(var), on_para_eq_constraint=on_para)
        else:
            want = var
        return dict(got=got, want=want, want2=want2)

    def post(self, W, cfg, inp, out):
        text = "func_proj is the physical / equality-only / inequality-only / identity projection according to (on_algo_eq_constraint, on_algo_ineq_constraint)"
        if out["want2"] is None:
            return [eq("installed-projection==the-one-the-flags-name", out["got"], out["want"], text)]
        S = W.S
        same = lambda a, b: S.And(*[S.eqv(x, y) for x, y in zip(S.flat(a), S.flat(b))])
        return [true("installed-projection==the-one-the-flags-name", S.Or(same(out["got"], out["want"]), same(out["got"], out["want2"])),
                     text + " (Dykstra scheme in the template's or the option's projection order)")]


def phys_stub():
    """QOperation.calc_proj_physical as an uninterpreted function of (projection order, stacked vector)"""
    def stub(self, max_iteration=1000, is_iteration_history=False):
        kind = type(self).__name__.lower()
        attr, is_list = ATTR[kind]
        new = self.copy()
        pv = opaque_vec(("Pphys", self.mode_proj_order), NP._A(self.to_stacked_vector()))
        cur = getattr(self, attr)
        if is_list:
            n = len(cur)
            parts = pv.reshape((n,) + tuple(cur[0].shape))
            val = [parts[k] for k in range(n)]
            setattr(new, attr, tuple(val) if isinstance(cur, tuple) else val)
        else:
            setattr(new, attr, pv.reshape(cur.shape))
        new._is_physicality_required = False
        if is_iteration_history:
            return new, dict(p=[], q=[], x=[], y=[], error_value=[])
        return new
    return stub


def _wiring_canary(self, W, cfg, inp, out):
    kind, on_para, eqf, ineqf, algo, order = cfg
    if not (eqf or ineqf) or (on_para and eqf and not ineqf):
        # identity map (flags off, or the equality constraint already solved by the parametrisation)
        return [eq("canary", out["got"], 2 * inp["var"], "(false) the installed map doubles its argument")]
    return [eq("canary", out["got"], inp["var"], "(false) the installed projection leaves every point where it is")]


ConstraintWiring.canary = _wiring_canary


class ProjectedLinear(E2Contract):
    """projected linear estimate == to_var(calc_proj_physical(linear estimate)) with the estimator's projection order"""
    name = "ProjectedLinearEstimator"
    prop = "C10"
    targets = ("quara.protocol.qtomography.standard.projected_linear_estimator:ProjectedLinearEstimator.calc_estimate_sequence",
               "quara.protocol.qtomography.standard.projected_linear_estimator:ProjectedLinearEstimator.calc_estimate")
    n_conformance = 0
    max_paths = 64
    frame = True

    def __init__(self):
        self.stubs = {"quara.objects.qoperation:QOperation.calc_proj_physical": phys_stub()}

    def configs(self, tier):
        out = []
        for kind in ("qst", "povmt") + (("qpt",) if tier == "thorough" else ()):
            for on_para in (True, False):
                for order in ("eq_ineq", "ineq_eq"):
                    for timed in (False, True):
                        out.append((kind, on_para, order, timed))
        return out

    def _qt(self, W, cfg):
        kind, on_para, order, timed = cfg
        c_sys, states, povms = exact_testers(W, "1q", False)
        return build_qt(W, kind, dict(states=states, povms=povms), on_para, 2, "all")

    def inputs(self, W, cfg, mk):
        qt = self._qt(W, cfg)
        f = [mk.array(f"f{j}_", qt.num_outcomes(j)) for j in range(qt.num_schedules)]
        return dict(qt=qt, f=f)

    def run(self, W, cfg, inp):
        kind, on_para, order, timed = cfg
        qt = inp["qt"]
        std = "quara.protocol.qtomography.standard."
        data = [(100, fj) for fj in inp["f"]]
        ple = W.mod(std + "projected_linear_estimator").ProjectedLinearEstimator(mode_proj_order=order)
        lin = W.mod(std + "linear_estimator").LinearEstimator()
        r = ple.calc_estimate(qt, data, is_computation_time_required=timed)
        lr = lin.calc_estimate(qt, data)
        obj = lr.estimated_qoperation
        obj.set_mode_proj_order(order)
        want = obj.calc_proj_physical().to_var()
        # a sequence of two different datasets: every element is the projection of ITS OWN linear estimate
        data2 = [(250, 1 - fj) for fj in inp["f"]]
        rs = ple.calc_estimate_sequence(qt, [data, data2], is_computation_time_required=timed)
        want_seq = []
        for dd in (data, data2):
            o = lin.calc_estimate(qt, dd).estimated_qoperation
            o.set_mode_proj_order(order)
            want_seq.append(o.calc_proj_physical().to_var())
        return dict(got=r.estimated_var, want=want, n=len(r.estimated_var_sequence), lin=lr.estimated_var, got_seq=list(rs.estimated_var_sequence), want_seq=want_seq,
                    got_objs=[stacked(W, q) for q in rs.estimated_qoperation_sequence],
                    want_objs=[stacked(W, qt.convert_var_to_qoperation(v)) for v in want_seq])

    def post(self, W, cfg, inp, out):
        return [eq("projected-linear==projection-of-linear", out["got"], out["want"],
                   "the projected linear estimate is precisely to_var(calc_proj_physical(linear estimate)) in the estimator's projection order"),
                eq("one-estimate-per-dataset", out["n"], 1, "one estimate per dataset"),
                eq("sequence-element==projection-of-its-own-linear-estimate", out["got_seq"], out["want_seq"],
                   "every element of a sequence is the physical projection of the linear estimate of ITS dataset"),
                eq("sequence-objects==objects-of-the-sequence-variables", out["got_objs"], out["want_objs"], "estimated_qoperation_sequence denotes the same estimates")]

    def canary(self, W, cfg, inp, out):
        return [eq("canary", out["got"], out["lin"], "(false) the projected linear estimate is the linear estimate")]


class StartPoint(E2Contract):
    """without var_start the backtracking algorithm starts at the origin object's variables (a physical point, C01)"""
    name = "pgdb start point"
    prop = "C10"
    targets = (PGD + "projected_gradient_descent_backtracking:ProjectedGradientDescentBacktracking.optimize",)
    n_conformance = 1
    max_paths = 16
    frame = False

    def configs(self, tier):
        return [("qst", True), ("qst", False), ("povmt", True), ("qpt", True)]

    def inputs(self, W, cfg, mk):
        return dict(probe=mk.real("probe"))

    def run(self, W, cfg, inp):
        kind, on_para = cfg
        c_sys, states, povms = exact_testers(W, "1q", False)
        qt = build_qt(W, kind, dict(states=states, povms=povms), on_para, 2, "all")
        origin = qt.generate_empty_estimation_obj_with_setting_info().generate_origin_obj()
        return dict(origin_var=origin.to_var(), origin=stacked(W, origin))

    def post(self, W, cfg, inp, out):
        kind, on_para = cfg
        np = W.np
        S = W.S
        c_sys = make_csys(W, "1q")
        d = 2
        ident = np.eye(d, dtype=np.complex128)
        cl = []
        if kind == "qst":
            cl.append(eq("start-point-is-maximally-mixed", S.op_from_vec(c_sys, out["origin"][0]), ident / d, "the start point denotes I/d"))
        elif kind == "povmt":
            for x, v in enumerate(out["origin"]):
                cl.append(eq(f"start-point-is-uniform[{x}]", S.op_from_vec(c_sys, v), ident / 2, "start POVM element == I/m"))
        else:
            cl.append(eq("start-point-first-row", out["origin"][0][0], np.array([1, 0, 0, 0], dtype=np.float64), "the start gate is trace preserving"))
        return cl


class DykstraUnderC10(Dykstra):
    """the callee contract C10 rests on: calc_proj_physical / calc_proj_physical_with_var are Dykstra's recurrence in either order
    (the C05 contract, re-checked under C10: a change inside the projection routine breaks 'projected linear estimate == physical projection')"""
    prop = "C10"
    name = "calc_proj_physical(_with_var) [callee contract of the constrained estimators]"

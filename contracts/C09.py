"""C09 linear estimation: jobs"""
from .C02 import e2_jobs, META as _M

META = dict(_M)
CLASSES = ["contracts.C09_all:LinearEstimate", "contracts.C09_all:ModelInvertedUnderC09"]


def jobs(tier, seed):
    return e2_jobs("C09", CLASSES, tier, seed)

CLAIM = {'engine': 'E2-symtwin', 'level': 'proof',
 'text': 'With exact informationally complete (and over-complete, mixed outcome count) tester sets the estimator is executed unmodified on a fully symbolic, unconstrained data vector with symbolic sample counts: the normal equations A^T(Av+b-f)=0, exact recovery from exact data for every object, sequence = pointwise, independence of sample counts and the result accessors are polynomial identities discharged for all data; full column rank by exact elimination.',
 'note': 'all data vectors @ concrete exact tester sets (1 qubit all four types both flags; qutrit QST; more in thorough). inv over the constant field is exact Gaussian elimination in the model (trusted). Floats as reals.',
 'technique': 'contract-based deductive verification (symbolic execution of the real source -> VCs, exact normaliser)'}

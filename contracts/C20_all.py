"""C20 (E1): Experiment accepts exactly the well-formed schedules.

Ghost abstraction of the four object lists: symbolic lengths n_state, n_povm, n_gate, n_mprocess >= 0
(old and new values for setters).  A schedule of concrete length L is a python list of items; an item is either
well-typed (kind: symbolic string over {state, povm, gate, mprocess, <any other string>}, index: symbolic int)
or one of the malformed exemplars below.  Spec (from the property text):

  ItemOK(item)  :=  item is a 2-tuple (str, int)  /\\  kind known  /\\  0 <= index < n_kind
  OrderOK(s)    :=  len(s) >= 2 /\\ kind_0 = state /\\ no other state /\\ at most one povm /\\ last kind in {povm, mprocess}
  WF(s)         :=  all items OK  /\\  OrderOK(s)
"""
import itertools

import z3

from qverif.pyvc.engine import Contract, LoopSpec
from qverif.pyvc.values import Obj, SymSeq, Func, str_const, StrSort, ExcClass, OpaqueStr
from qverif.pyvc.verify import py_of

EXP = "quara.qcircuit.experiment"
KINDS = ["state", "povm", "gate", "mprocess"]

# malformed item exemplars: (tag, engine value, native value)
MALFORMED = [
    ("list-not-tuple", ["state", 0], ["state", 0]),
    ("int", 5, 5),
    ("none", None, None),
    ("str", "state", "state"),
    ("arity0", (), ()),
    ("arity1", ("state",), ("state",)),
    ("arity3", ("state", 0, 0), ("state", 0, 0)),
    ("kind-int", (0, 0), (0, 0)),
    ("kind-none", (None, 0), (None, 0)),
    ("index-float", ("state", 1.0), ("state", 1.0)),
    ("index-bool", ("state", True), ("state", True)),
    ("index-none", ("state", None), ("state", None)),
    ("index-str", ("state", "0"), ("state", "0")),
]


class AbsList(SymSeq):
    """a list of objects abstracted to its length"""

    def __init__(self, n, name):
        self.length = n
        self.shape = "int"
        self.arrays = []
        self.name = name

    def get(self, k):
        return Obj(self.name + "[k]")

    def snapshot(self):
        return self


def sizes(mode, prefix="n"):
    if mode is not None and mode[0] == "concrete":
        return {k: int(mode[1][f"{prefix}_{k}"]) for k in KINDS}
    return {k: z3.Int(f"{prefix}_{k}") for k in KINDS}


def kind_sym(name):
    return z3.Const(name, StrSort)


def known_kind(k):
    return z3.Or([k == str_const(x) for x in KINDS])


def size_of_kind(k, n):
    out = z3.IntVal(-1)
    for x in KINDS:
        out = z3.If(k == str_const(x), n[x], out)
    return out


def item_ok(item, n):
    """spec predicate for an engine item value"""
    if not (isinstance(item, tuple) and len(item) == 2):
        return z3.BoolVal(False)
    k, i = item
    if not (z3.is_expr(k) and k.sort() == StrSort) or not (z3.is_expr(i) and i.sort() == z3.IntSort()):
        if isinstance(k, str) and isinstance(i, int) and not isinstance(i, bool):
            kk, ii = str_const(k), z3.IntVal(i)
            return z3.And(known_kind(kk), ii >= 0, ii < size_of_kind(kk, n))
        return z3.BoolVal(False)
    return z3.And(known_kind(k), i >= 0, i < size_of_kind(k, n))


def order_ok(items):
    """spec predicate for a list of well-typed items (kinds may still be unknown strings)"""
    L = len(items)
    if L < 2:
        return z3.BoolVal(False)
    ks = [it[0] for it in items]
    st, pv, mp = str_const("state"), str_const("povm"), str_const("mprocess")
    n_state = z3.Sum([z3.If(k == st, 1, 0) for k in ks])
    n_povm = z3.Sum([z3.If(k == pv, 1, 0) for k in ks])
    return z3.And(ks[0] == st, z3.Or(ks[-1] == pv, ks[-1] == mp), n_state < 2, n_povm < 2)


def make_item(j, cls, mode):
    """cls: 'ok' (well-typed symbolic) or index into MALFORMED"""
    if cls == "ok":
        if mode is not None and mode[0] == "concrete":
            k, i = mode[1][f"kind{j}"], mode[1][f"idx{j}"]
            return (k, i)
        return (kind_sym(f"kind{j}"), z3.Int(f"idx{j}"))
    return MALFORMED[cls][1]


def native_item(j, cls, vals):
    if cls == "ok":
        return (vals[f"kind{j}"], vals[f"idx{j}"])
    return MALFORMED[cls][2]


def self_obj(n, extra=None):
    attrs = {"_states": AbsList(n["state"], "states"), "_povms": AbsList(n["povm"], "povms"), "_gates": AbsList(n["gate"], "gates"),
             "_mprocesses": AbsList(n["mprocess"], "mprocesses")}
    attrs.update(extra or {})
    return Obj("self", attrs=attrs)


class _NativeObj:
    pass


def native_experiment(n):
    """an Experiment-like object with real lists of placeholder objects (validation only reads lengths / truthiness)"""
    from qverif.core import native as N
    cls = N.resolve(EXP + ":Experiment")
    o = cls.__new__(cls)
    o._states = [object()] * n["state"]
    o._povms = [object()] * n["povm"]
    o._gates = [object()] * n["gate"]
    o._mprocesses = [object()] * n["mprocess"]
    return o


def nat_item_ok(item, n):
    return (type(item) == tuple and len(item) == 2 and type(item[0]) == str and type(item[1]) == int
            and item[0] in KINDS and 0 <= item[1] < n[item[0]])


def nat_order_ok(items):
    if len(items) < 2:
        return False
    ks = [it[0] for it in items]
    return ks[0] == "state" and ks[-1] in ("povm", "mprocess") and ks.count("state") < 2 and ks.count("povm") < 2


# ------------------------------------------------------------------ _validate_schedule_item

def item_contract(cls, with_objdict):
    target = EXP + ":Experiment._validate_schedule_item"

    def make_inputs(mode=None):
        if mode is not None and mode[0] == "bounds":
            return dict(bounds=[])
        n = sizes(mode)
        n_new = sizes(mode, "m") if with_objdict else None
        req = [v >= 0 for v in n.values()] if mode is None else []
        if with_objdict and mode is None:
            req += [v >= 0 for v in n_new.values()]
        item = make_item(0, cls, mode)
        objdict = None
        if with_objdict:
            objdict = {k: AbsList(n_new[k], "new_" + k) for k in KINDS}
        eff = n_new if with_objdict else n
        return dict(args=dict(self=self_obj(n), item=item, objdict=objdict), requires=req, ghost=dict(n=n, eff=eff, item=item))

    def post(ctx):
        g = ctx.ghost
        ok = item_ok(g["item"], g["eff"])
        if ctx.kind == "raise":
            return [("accepts-iff-item-ok", z3.Not(ok)),
                    ("rejects-with-item-error-types", z3.BoolVal(ctx.exc in ("ValueError", "IndexError", "TypeError")))]
        return [("accepts-iff-item-ok", ok), ("rejects-with-item-error-types", z3.BoolVal(True))]

    def canary(ctx):
        g = ctx.ghost
        if ctx.kind == "raise":
            return []
        if cls != "ok":
            return []
        k, i = g["item"]
        return [("accepts-iff-item-ok", z3.And(known_kind(k), i >= 1, i < size_of_kind(k, g["eff"])))]

    def concretize(model, inputs, ghost):
        out = {}
        for k in KINDS:
            out[f"n_{k}"] = py_of(model, ghost["n"][k])
            if with_objdict:
                out[f"m_{k}"] = py_of(model, ghost["eff"][k])
        if cls == "ok":
            out["kind0"] = py_of(model, ghost["item"][0])
            out["idx0"] = py_of(model, ghost["item"][1])
        return out

    def native_call(a):
        n = {k: a[f"n_{k}"] for k in KINDS}
        exp = native_experiment(n)
        objdict = None
        if with_objdict:
            objdict = {k: [object()] * a[f"m_{k}"] for k in KINDS}
        try:
            exp._validate_schedule_item(native_item(0, cls, a), objdict=objdict)
            return ("return", None)
        except Exception as e:  # noqa
            return ("raise", type(e).__name__)

    def native_check(a, outcome):
        eff = {k: a[f"m_{k}" if with_objdict else f"n_{k}"] for k in KINDS}
        ok = nat_item_ok(native_item(0, cls, a), eff)
        if outcome[0] == "raise":
            return {"accepts-iff-item-ok": not ok, "rejects-with-item-error-types": outcome[1] in ("ValueError", "IndexError", "TypeError")}
        return {"accepts-iff-item-ok": ok, "rejects-with-item-error-types": True}

    def canary_native(a, outcome):
        if outcome[0] != "return" or cls != "ok":
            return {}
        eff = {k: a[f"m_{k}" if with_objdict else f"n_{k}"] for k in KINDS}
        return {"accepts-iff-item-ok": a["kind0"] in KINDS and 1 <= a["idx0"] < eff[a["kind0"]]}

    c = Contract(target, make_inputs, post, canary=canary if cls == "ok" else None, concretize=concretize, native_check=native_check,
                 native_call=native_call, prop="C20", scope="unbounded (all list sizes, all indices, all kind strings)",
                 clause_text={"accepts-iff-item-ok": "returns normally <=> the item is a (known kind, in-range int index) 2-tuple",
                              "rejects-with-item-error-types": "a rejected item raises ValueError / IndexError / TypeError (mapped to the schedule-item error by the caller)"})
    c.canary_native = canary_native
    return c


def item_gen(cls, with_objdict):
    def g(rng):
        a = {}
        for k in KINDS:
            a[f"n_{k}"] = rng.randint(0, 3)
            a[f"m_{k}"] = rng.randint(0, 3)
        a["kind0"] = rng.choice(KINDS + ["other", "State"])
        a["idx0"] = rng.randint(-1, 3)
        return a
    return g


# ------------------------------------------------------------------ _validate_schedule_order

def order_contract(L):
    target = EXP + ":Experiment._validate_schedule_order"

    def make_inputs(mode=None):
        if mode is not None and mode[0] == "bounds":
            return dict(bounds=[])
        n = sizes(mode)
        items = [make_item(j, "ok", mode) for j in range(L)]
        return dict(args=dict(self=self_obj(n), schedule=list(items)), requires=[], ghost=dict(items=items))

    def post(ctx):
        ok = order_ok(ctx.ghost["items"])
        if ctx.kind == "raise":
            return [("accepts-iff-order-ok", z3.Not(ok)), ("rejects-with-ValueError", z3.BoolVal(ctx.exc == "ValueError"))]
        return [("accepts-iff-order-ok", ok), ("rejects-with-ValueError", z3.BoolVal(True))]

    def concretize(model, inputs, ghost):
        out = {f"n_{k}": 1 for k in KINDS}
        for j, it in enumerate(ghost["items"]):
            out[f"kind{j}"] = py_of(model, it[0])
            out[f"idx{j}"] = py_of(model, it[1])
        return out

    def native_call(a):
        exp = native_experiment({k: 1 for k in KINDS})
        try:
            exp._validate_schedule_order([native_item(j, "ok", a) for j in range(L)])
            return ("return", None)
        except Exception as e:  # noqa
            return ("raise", type(e).__name__)

    def native_check(a, outcome):
        ok = nat_order_ok([native_item(j, "ok", a) for j in range(L)])
        if outcome[0] == "raise":
            return {"accepts-iff-order-ok": not ok, "rejects-with-ValueError": outcome[1] == "ValueError"}
        return {"accepts-iff-order-ok": ok, "rejects-with-ValueError": True}

    def canary(ctx):
        if ctx.kind == "raise" or L < 2:
            return []
        items = ctx.ghost["items"]
        return [("accepts-iff-order-ok", z3.And(order_ok(items), items[-1][0] == str_const("povm")))]

    def canary_native(a, outcome):
        if outcome[0] != "return":
            return {}
        return {"accepts-iff-order-ok": a[f"kind{L - 1}"] == "povm"}

    glob = {"collections": Obj("collections", methods={"Counter": _counter})}
    c = Contract(target, make_inputs, post, globals_=glob, canary=canary if L >= 2 else None, concretize=concretize, native_check=native_check,
                 native_call=native_call, prop="C20", scope=f"all kind strings and indices, schedule length {L}",
                 clause_text={"accepts-iff-order-ok": "returns normally <=> length >= 2, starts with the only state, at most one povm, ends with povm or mprocess",
                              "rejects-with-ValueError": "a rejected order raises ValueError (mapped to the schedule-order error by the caller)"})
    c.canary_native = canary_native
    return c


def _counter(ctx, items=()):
    from qverif.pyvc.engine import CounterVal
    return CounterVal(list(items))


def order_gen(L):
    def g(rng):
        a = {f"n_{k}": 1 for k in KINDS}
        for j in range(L):
            a[f"kind{j}"] = rng.choice(KINDS + ["other"])
            a[f"idx{j}"] = 0
        if L >= 2 and rng.random() < 0.5:
            a["kind0"] = "state"
            a[f"kind{L - 1}"] = rng.choice(["povm", "mprocess"])
        return a
    return g


# ------------------------------------------------------------------ _validate_schedules (modular: callees by contract)

def schedules_contract(shape, with_objdict):
    """shape: tuple of schedules, each a tuple of item classes ('ok' or malformed index)"""
    target = EXP + ":Experiment._validate_schedules"

    def make_inputs(mode=None):
        if mode is not None and mode[0] == "bounds":
            return dict(bounds=[])
        n = sizes(mode)
        n_new = sizes(mode, "m") if with_objdict else None
        eff = n_new if with_objdict else n
        req = ([v >= 0 for v in n.values()] + ([v >= 0 for v in n_new.values()] if with_objdict else [])) if mode is None else []
        scheds, j = [], 0
        for sch in shape:
            items = []
            for cls in sch:
                items.append(make_item(j, cls, mode))
                j += 1
            scheds.append(items)
        objdict = {k: AbsList(n_new[k], "new_" + k) for k in KINDS} if with_objdict else None

        def stub_item(ctx, item, objdict=None):
            ok = item_ok(item, eff)
            if ctx.branch(ok):
                return None
            ctx.raise_(["ValueError", "IndexError", "TypeError"][ctx.eng.pm.choice(3)])

        def stub_order(ctx, schedule):
            if all(isinstance(it, tuple) and len(it) == 2 and z3.is_expr(it[0]) for it in schedule):
                ok = order_ok(schedule)
            else:
                ok = z3.BoolVal(False)
            if ctx.branch(ok):
                return None
            ctx.raise_("ValueError")
        me = self_obj(n)
        me.methods = {"_validate_schedule_item": stub_item, "_validate_schedule_order": stub_order}
        return dict(args=dict(self=me, schedules=[list(s) for s in scheds], objdict=objdict), requires=req,
                    ghost=dict(n=n, eff=eff, scheds=scheds))

    def wf(g):
        conds = []
        for items in g["scheds"]:
            oks = [item_ok(it, g["eff"]) for it in items]
            typed = all(isinstance(it, tuple) and len(it) == 2 and z3.is_expr(it[0]) for it in items)
            conds.append(z3.And(oks + [order_ok(items) if typed else z3.BoolVal(False)]))
        return conds

    def post(ctx):
        g = ctx.ghost
        conds = wf(g)
        allwf = z3.And(conds) if conds else z3.BoolVal(True)
        if ctx.kind == "raise":
            # the first non-well-formed schedule decides: item error iff it has an invalid item, else order error
            return [("accepts-iff-all-well-formed", z3.Not(allwf)),
                    ("rejects-with-schedule-errors-only", z3.BoolVal(ctx.exc in ("QuaraScheduleItemError", "QuaraScheduleOrderError"))),
                    ("item-error-iff-an-item-is-invalid", _error_kind_goal(g, ctx.exc))]
        return [("accepts-iff-all-well-formed", allwf), ("rejects-with-schedule-errors-only", z3.BoolVal(True)),
                ("item-error-iff-an-item-is-invalid", z3.BoolVal(True))]

    def _error_kind_goal(g, exc):
        # for the FIRST schedule that is not well-formed: invalid item <=> item error
        conds = wf(g)
        goal = z3.BoolVal(True)
        prev_ok = z3.BoolVal(True)
        for items, c in zip(g["scheds"], conds):
            has_bad_item = z3.Not(z3.And([item_ok(it, g["eff"]) for it in items])) if items else z3.BoolVal(False)
            want_item = exc == "QuaraScheduleItemError"
            here = z3.And(prev_ok, z3.Not(c))
            goal = z3.And(goal, z3.Implies(here, has_bad_item if want_item else z3.Not(has_bad_item)))
            prev_ok = z3.And(prev_ok, c)
        return goal

    def concretize(model, inputs, ghost):
        out = {}
        for k in KINDS:
            out[f"n_{k}"] = py_of(model, ghost["n"][k])
            out[f"m_{k}"] = py_of(model, ghost["eff"][k])
        j = 0
        for sch, items in zip(shape, ghost["scheds"]):
            for cls, it in zip(sch, items):
                if cls == "ok":
                    out[f"kind{j}"] = py_of(model, it[0])
                    out[f"idx{j}"] = py_of(model, it[1])
                j += 1
        return out

    def native_scheds(a):
        out, j = [], 0
        for sch in shape:
            items = []
            for cls in sch:
                items.append(native_item(j, cls, a))
                j += 1
            out.append(items)
        return out

    def native_call(a):
        exp = native_experiment({k: a[f"n_{k}"] for k in KINDS})
        objdict = {k: [object()] * a[f"m_{k}"] for k in KINDS} if with_objdict else None
        try:
            exp._validate_schedules(native_scheds(a), objdict=objdict)
            return ("return", None)
        except Exception as e:  # noqa
            return ("raise", type(e).__name__)

    def native_check(a, outcome):
        eff = {k: a[f"m_{k}" if with_objdict else f"n_{k}"] for k in KINDS}
        scheds = native_scheds(a)
        first_bad = None
        for items in scheds:
            items_ok = all(nat_item_ok(it, eff) for it in items)
            if not (items_ok and nat_order_ok(items)):
                first_bad = "QuaraScheduleItemError" if not items_ok else "QuaraScheduleOrderError"
                break
        if outcome[0] == "raise":
            return {"accepts-iff-all-well-formed": first_bad is not None,
                    "rejects-with-schedule-errors-only": outcome[1] in ("QuaraScheduleItemError", "QuaraScheduleOrderError"),
                    "item-error-iff-an-item-is-invalid": outcome[1] == first_bad}
        return {"accepts-iff-all-well-formed": first_bad is None, "rejects-with-schedule-errors-only": True,
                "item-error-iff-an-item-is-invalid": True}

    glob = {"QuaraScheduleItemError": ExcClass("QuaraScheduleItemError"), "QuaraScheduleOrderError": ExcClass("QuaraScheduleOrderError")}
    return Contract(target, make_inputs, post, globals_=glob, concretize=concretize, native_check=native_check, native_call=native_call,
                    prop="C20", scope="all list sizes / indices / kind strings for this schedule-list shape", max_paths=20000,
                    clause_text={"accepts-iff-all-well-formed": "returns normally <=> every schedule is well formed",
                                 "rejects-with-schedule-errors-only": "anything else is rejected with the schedule-item or schedule-order error, never another exception",
                                 "item-error-iff-an-item-is-invalid": "for the first offending schedule: item error iff one of its items is invalid, order error otherwise"})


def schedule_shapes(tier):
    """schedule-list shapes: all item-class combinations for short schedules, first-malformed-position factorisation beyond"""
    mal = list(range(len(MALFORMED)))
    shapes = []
    # one schedule, all-ok items, every length
    for L in range(0, 5 if tier == "quick" else 6):
        shapes.append((("ok",) * L,))
    # one malformed item at each position (all exemplars for short, a sample for longer)
    for L in (1, 2, 3):
        for pos in range(L):
            for m in (mal if L <= 2 else mal[::3]):
                s = ["ok"] * L
                s[pos] = m
                shapes.append((tuple(s),))
    # two malformed items
    for a, b in [(0, 4), (7, 9), (10, 2)]:
        shapes.append(((a, b),))
        shapes.append((("ok", a, b),))
    # several schedules: the first bad one decides
    shapes += [(("ok", "ok"), ("ok", "ok")), (("ok", "ok"), ("ok", "ok", "ok")), (("ok", "ok"), (3, "ok")), (("ok", "ok"), ("ok",)), ((), ("ok", "ok")), ()]
    return shapes


# ------------------------------------------------------------------ setters

def setter_contract(which):
    """Experiment.<which>.setter: accepted <=> the current schedules are well formed against the NEW lists; old value kept on rejection"""
    target = EXP + f":Experiment.{which}.setter"
    kind = {"states": "state", "povms": "povm", "gates": "gate", "mprocesses": "mprocess"}[which]

    def make_inputs(mode=None):
        if mode is not None and mode[0] == "bounds":
            return dict(bounds=[])
        n = sizes(mode)
        new_len = _int_or(mode, "new_len")
        req = [v >= 0 for v in n.values()] + [new_len >= 0] if mode is None else []
        wf_new = z3.Bool("wf_against_new_lists")
        item_bad = z3.Bool("first_offender_has_bad_item")
        value = AbsList(new_len, "value")
        seen = {}

        def stub_validate_type(ctx, targets, expected_type):
            return None

        def stub_validate_schedules(ctx, schedules, objdict=None):
            seen["objdict"] = objdict
            if ctx.branch(wf_new):
                return None
            ctx.raise_("QuaraScheduleItemError" if ctx.branch(item_bad) else "QuaraScheduleOrderError")
        me = self_obj(n, {"_schedules": Obj("schedules")})
        me.methods = {"_validate_type": stub_validate_type, "_validate_schedules": stub_validate_schedules}
        return dict(args=dict(self=me, value=value), requires=req, ghost=dict(n=n, value=value, wf=wf_new, me=me, seen=seen, new_len=new_len))

    def post(ctx):
        g = ctx.ghost
        me = g["me"]
        attr = "_" + which
        cur = me.attrs[attr]
        od = g["seen"].get("objdict")
        routed = z3.BoolVal(isinstance(od, dict) and od.get(kind) is g["value"]
                            and all(od.get(k) is me.attrs["_" + {"state": "states", "povm": "povms", "gate": "gates", "mprocess": "mprocesses"}[k]]
                                    or k == kind for k in KINDS) if od is not None else False)
        if ctx.kind == "raise":
            return [("accepted-iff-schedules-valid-for-new-list", z3.Not(g["wf"])),
                    ("old-value-kept-on-rejection", z3.BoolVal(cur is not g["value"])),
                    ("new-list-routed-to-its-own-slot", routed),
                    ("rejects-with-schedule-errors-only", z3.BoolVal(ctx.exc in ("QuaraScheduleItemError", "QuaraScheduleOrderError")))]
        return [("accepted-iff-schedules-valid-for-new-list", g["wf"]),
                ("new-value-installed-on-acceptance", z3.BoolVal(cur is g["value"])),
                ("new-list-routed-to-its-own-slot", routed),
                ("rejects-with-schedule-errors-only", z3.BoolVal(True))]

    glob = {"QuaraScheduleItemError": ExcClass("QuaraScheduleItemError"), "QuaraScheduleOrderError": ExcClass("QuaraScheduleOrderError"),
            "State": ExcClass("State"), "Povm": ExcClass("Povm"), "Gate": ExcClass("Gate"), "MProcess": ExcClass("MProcess")}
    def native_search(key, canary=False):
        """concrete replay of the setter on a real Experiment: accepted <=> every stored schedule index fits the NEW list"""
        if canary:
            return None
        from qverif.core import native as N
        cst = N.native_import("quara.objects.composite_system_typical")
        c = cst.generate_composite_system("qubit", 1)
        qt = N.native_import("quara.objects.qoperation_typical")
        mk = {"state": lambda: qt.generate_qoperation("state", "z0", c), "povm": lambda: qt.generate_qoperation("povm", "z", c),
              "gate": lambda: qt.generate_qoperation("gate", "x", c), "mprocess": lambda: qt.generate_qoperation("mprocess", "z-type1", c)}
        Experiment = N.native_import("quara.qcircuit.experiment").Experiment
        for idx in (1, 0):
            for new_len in (0, 1, 2, 3):
                mid = [] if kind in ("state", "povm") else [(kind, idx)]
                sched = [[("state", idx if kind == "state" else 0)] + mid + [("povm", idx if kind == "povm" else 0)]]
                lists = dict(states=[mk["state"]() for _ in range(2)], povms=[mk["povm"]() for _ in range(2)], gates=[mk["gate"]() for _ in range(2)],
                             mprocesses=[mk["mprocess"]() for _ in range(2)])
                try:
                    exp = Experiment(schedules=sched, **lists)
                except Exception as e:  # noqa
                    continue
                new = [mk[kind]() for _ in range(new_len)]
                old = getattr(exp, which)
                try:
                    setattr(exp, which, new)
                    outcome = ("return", None)
                except Exception as e:  # noqa
                    outcome = ("raise", type(e).__name__)
                wf = idx < new_len
                stored_new = getattr(exp, which) is new
                bad = None
                if (outcome[0] == "return") != wf:
                    bad = "accepted-iff-schedules-valid-for-new-list"
                elif outcome[0] == "return" and not stored_new:
                    bad = "new-value-installed-on-acceptance"
                elif outcome[0] == "raise" and getattr(exp, which) is not old:
                    bad = "old-value-kept-on-rejection"
                if bad is not None:
                    return dict(args=dict(kind=kind, schedules=sched, old_len=2, new_len=new_len), outcome=outcome, clause=bad)
        return None

    con = Contract(target, make_inputs, post, globals_=glob, prop="C20", scope="modular: _validate_schedules by contract", setter=True,
                    clause_text={"accepted-iff-schedules-valid-for-new-list": "the setter succeeds <=> _validate_schedules accepts the stored schedules against the new list",
                                 "old-value-kept-on-rejection": "on rejection the stored list is unchanged",
                                 "new-value-installed-on-acceptance": "on acceptance the new list is stored",
                                 "new-list-routed-to-its-own-slot": "validation sees the new list in its own slot and the current lists in the other three"})
    con.native_search = native_search
    return con


def _int_or(mode, name):
    if mode is not None and mode[0] == "concrete":
        return int(mode[1][name])
    return z3.Int(name)


# ------------------------------------------------------------------ tomography classes: accept exactly their own shape

TOMO = {
    "qst": ("quara.protocol.qtomography.standard.standard_qst:StandardQst._validate_schedules", ["state", "povm"], 0, dict(state=1, gate=0, mprocess=0)),
    "povmt": ("quara.protocol.qtomography.standard.standard_povmt:StandardPovmt._validate_schedules", ["state", "povm"], 1, dict(povm=1, gate=0, mprocess=0)),
    "qpt": ("quara.protocol.qtomography.standard.standard_qpt:StandardQpt._validate_schedules", ["state", "gate", "povm"], 1, dict(gate=1, mprocess=0)),
    "qmpt": ("quara.protocol.qtomography.standard.standard_qmpt:StandardQmpt._validate_schedules", ["state", "mprocess", "povm"], 1, dict(mprocess=1, gate=0)),
}


EXACT_LEN = {"qmpt"}        # classes whose own check pins the length (the others rely on the Experiment-level rules, see the lemma)


def tomo_level(which, items):
    """the tomography-level predicate on a schedule long enough to be indexed"""
    _, kinds, fixed_pos, _ = TOMO[which]
    conds = [items[p][0] == str_const(k) for p, k in enumerate(kinds)]
    conds.append(items[fixed_pos][1] == 0)
    return z3.And(conds)


def tomo_contract(which, L):
    target, kinds, fixed_pos, _ = TOMO[which]
    need = len(kinds)

    def make_inputs(mode=None):
        if mode is not None and mode[0] == "bounds":
            return dict(bounds=[])
        items = [make_item(j, "ok", mode) for j in range(L)]
        return dict(args=dict(self=Obj("self"), schedules=[list(items)]), requires=[], ghost=dict(items=items))

    def post(ctx):
        items = ctx.ghost["items"]
        if L < need or (which in EXACT_LEN and L != need):
            # too short (or, where the class checks it, too long) to have the class's shape: must be rejected
            return [("accepts-iff-own-shape-prefix", z3.BoolVal(ctx.kind == "raise"))]
        ok = tomo_level(which, items)
        if ctx.kind == "raise":
            return [("accepts-iff-own-shape-prefix", z3.Not(ok))]
        return [("accepts-iff-own-shape-prefix", ok)]

    def concretize(model, inputs, ghost):
        out = {}
        for j, it in enumerate(ghost["items"]):
            out[f"kind{j}"] = py_of(model, it[0])
            out[f"idx{j}"] = py_of(model, it[1])
        return out

    def native_call(a):
        from qverif.core import native as N
        cls = N.resolve(target.rsplit(".", 1)[0])
        o = cls.__new__(cls)
        try:
            o._validate_schedules([[native_item(j, "ok", a) for j in range(L)]])
            return ("return", None)
        except Exception as e:  # noqa
            return ("raise", type(e).__name__)

    def native_check(a, outcome):
        items = [native_item(j, "ok", a) for j in range(L)]
        if L < need or (which in EXACT_LEN and L != need):
            return {"accepts-iff-own-shape-prefix": outcome[0] == "raise"}
        ok = all(items[p][0] == k for p, k in enumerate(kinds)) and items[fixed_pos][1] == 0
        return {"accepts-iff-own-shape-prefix": ok == (outcome[0] == "return")}

    c = Contract(target, make_inputs, post, concretize=concretize, native_check=native_check, native_call=native_call, prop="C20",
                 scope=f"all kind strings and indices, schedule length {L}",
                 clause_text={"accepts-iff-own-shape-prefix": "the tomography-level check accepts <=> the leading items have the class's kinds and the unknown's index is 0"})
    lem = tomo_lemma(which, L)
    c.lemmas = [lem] if lem else []
    return c


def tomo_lemma(which, L):
    """Experiment-WF /\\ tomography-level /\\ the class's own list sizes  =>  the schedule has exactly the class's shape"""
    target, kinds, fixed_pos, fixed_sizes = TOMO[which]
    need = len(kinds)
    if L < need:
        return None
    items = [(kind_sym(f"lk{j}"), z3.Int(f"li{j}")) for j in range(L)]
    n = {k: z3.Int(f"ln_{k}") for k in KINDS}
    hyps = [v >= 0 for v in n.values()] + [n[k] == v for k, v in fixed_sizes.items()]
    hyps += [item_ok(it, n) for it in items] + [order_ok(items), tomo_level(which, items)]
    if which in EXACT_LEN:
        hyps.append(z3.BoolVal(L == need))
    goal = z3.BoolVal(L == need)
    return (f"WF-and-tomography-level=>own-shape[L={L}]", hyps, goal)


def tomo_gen(which, L):
    def g(rng):
        a = {}
        kinds = TOMO[which][1]
        for j in range(L):
            a[f"kind{j}"] = rng.choice(KINDS + ["other"]) if rng.random() < 0.5 or j >= len(kinds) else kinds[j]
            a[f"idx{j}"] = rng.randint(0, 1)
        return a
    return g


# ------------------------------------------------------------------ StandardQTomography._validate_schedules_str

SQT = "quara.protocol.qtomography.standard.standard_qtomography"


def schedules_str_contract():
    """the string form of the schedules argument: accepted <=> it is exactly "all" (every other string, the empty one and the proper
    substrings of "all" included, raises ValueError)"""
    target = SQT + ":StandardQTomography._validate_schedules_str"

    def make_inputs(mode=None):
        if mode is not None and mode[0] == "bounds":
            return dict(bounds=[])
        s = mode[1]["s"] if (mode is not None and mode[0] == "concrete") else kind_sym("s")
        return dict(args=dict(self=Obj("self"), schedules=s), requires=[], ghost=dict(s=s))

    def post(ctx):
        s = ctx.ghost["s"]
        is_all = (s == str_const("all")) if z3.is_expr(s) else z3.BoolVal(s == "all")
        if ctx.kind == "raise":
            return [("accepts-iff-all", z3.Not(is_all)), ("rejects-with-ValueError", z3.BoolVal(ctx.exc == "ValueError"))]
        return [("accepts-iff-all", is_all), ("rejects-with-ValueError", z3.BoolVal(True))]

    def canary(ctx):
        if ctx.kind == "raise":
            return []
        s = ctx.ghost["s"]
        return [("accepts-iff-all", s == str_const("ALL"))]

    def concretize(model, inputs, ghost):
        return dict(s=py_of(model, ghost["s"]))

    def native_call(a):
        from qverif.core import native as N
        cls = N.resolve(SQT + ":StandardQTomography")
        o = cls.__new__(cls)
        try:
            o._validate_schedules_str(a["s"])
            return ("return", None)
        except Exception as e:  # noqa
            return ("raise", type(e).__name__)

    def native_check(a, outcome):
        if outcome[0] == "raise":
            return {"accepts-iff-all": a["s"] != "all", "rejects-with-ValueError": outcome[1] == "ValueError"}
        return {"accepts-iff-all": a["s"] == "all", "rejects-with-ValueError": True}

    def canary_native(a, outcome):
        if outcome[0] != "return":
            return {}
        return {"accepts-iff-all": a["s"] == "ALL"}

    c = Contract(target, make_inputs, post, canary=canary, concretize=concretize, native_check=native_check, native_call=native_call, prop="C20",
                 scope="unbounded (all strings)",
                 clause_text={"accepts-iff-all": "returns normally <=> the string is exactly \"all\"",
                              "rejects-with-ValueError": "every other string raises ValueError"})
    c.canary_native = canary_native
    return c


def schedules_str_gen():
    def g(rng):
        pool = ["all", "", "a", "l", "al", "ll", "ALL", "All", "all ", " all", "alll", "foo", "none", "al l"]
        if rng.random() < 0.6:
            return dict(s=rng.choice(pool))
        return dict(s="".join(rng.choice("alAL _x") for _ in range(rng.randint(0, 4))))
    return g

"""C19: analytical error formulas equal the textbook multinomial moments propagated through the model.

ASSUMED (theorem T5, textbook): for n samples of a distribution p the empirical distribution f has E f = p and
Cov f = (diag p - p p^T) / n; schedules are independent.  Given T5, every formula below is a rational identity
in the true object's variables and the (symbolic, real > 0) sample sizes, with exact tester sets."""
from qverif.symtwin.verify import E2Contract, eq, true, Raised
from ._cfg import DIMS, make_csys, stacked
from .C03_e2 import n_var, empty_obj
from .C08_all import build_qt, UNKNOWN
from .C09_all import exact_testers

STD = "quara.protocol.qtomography.standard."
MU = "quara.utils.matrix_util"
EPS = 1e-8


class MatrixUtilStatistics(E2Contract):
    name = "matrix_util statistics helpers"
    prop = "C19"
    targets = (MU + ":calc_covariance_mat", MU + ":calc_covariance_mat_total", MU + ":calc_direct_sum", MU + ":calc_conjugate",
               MU + ":calc_se", MU + ":calc_mse_prob_dists", MU + ":replace_prob_dist", MU + ":calc_fisher_matrix", MU + ":calc_fisher_matrix_total")
    max_paths = 16

    def configs(self, tier):
        return [(2, 3), (3, 2)] + ([(4, 3), (2, 4)] if tier == "thorough" else [])

    def inputs(self, W, cfg, mk):
        m, k = cfg
        q = [mk.array(f"q{j}_", m) for j in range(2)]
        n = [mk.real("n0"), mk.real("n1")]
        for x in n:
            mk.require(x >= 1)
        for qq in q:
            tot = 0
            for i in range(m - 1):
                mk.require(qq[i] >= 1e-6)
                tot = tot + qq[i]
            qq[m - 1] = 1 - tot          # normalised by parametrisation
            mk.require(qq[m - 1] >= 1e-6)
        xs = [[mk.array(f"x{r}{j}_", m) for j in range(2)] for r in range(3)]
        ys = [[mk.array(f"y{r}{j}_", m) for j in range(2)] for r in range(3)]
        g = [mk.array(f"g{j}_", (m, k)) for j in range(2)]
        X = mk.array("X", (k, 2 * m))
        w = [mk.real("w0"), mk.real("w1")]
        for x in w:
            mk.require(x >= 0)
        return dict(q=q, n=n, xs=xs, ys=ys, g=g, X=X, w=w)

    def sample(self, cfg, names, rng):
        vals = {n: rng.uniform(-1, 1) for n in names}
        m = cfg[0]
        for n in names:
            if n[0] == "q":
                vals[n] = rng.uniform(0.1, 0.9) / m
            if n in ("n0", "n1"):
                vals[n] = float(rng.randint(5, 500))
            if n in ("w0", "w1"):
                vals[n] = rng.uniform(0.1, 1)
        return vals

    def run(self, W, cfg, inp):
        mu = W.mod(MU)
        q, n = inp["q"], inp["n"]
        cov0 = mu.calc_covariance_mat(q[0], n[0])
        tot = mu.calc_covariance_mat_total([(n[0], q[0]), (n[1], q[1])])
        conj = mu.calc_conjugate(inp["X"], tot)
        se = mu.calc_se(inp["xs"][0], inp["ys"][0])
        I = 1j
        cx = [inp["xs"][0][0] + I * inp["xs"][1][0], inp["xs"][0][1] - I * inp["xs"][2][1]]
        cy = [inp["ys"][0][0] - I * inp["ys"][1][0], inp["ys"][0][1] + I * inp["ys"][2][1]]
        se_c = mu.calc_se(cx, cy)
        mse, std = mu.calc_mse_prob_dists(inp["xs"], inp["ys"])
        rep = mu.replace_prob_dist(q[0])
        f0 = mu.calc_fisher_matrix(q[0], list(inp["g"][0]))
        ft = mu.calc_fisher_matrix_total(q, [list(g) for g in inp["g"]], inp["w"])
        return dict(cov0=cov0, tot=tot, conj=conj, se=se, se_c=se_c, mse=mse, std=std, rep=rep, f0=f0, ft=ft)

    def post(self, W, cfg, inp, out):
        m, k = cfg
        np = W.np
        q, n = inp["q"], inp["n"]

        def cov(p, nn):
            return (np.diag(p) - np.outer(p, p)) / nn

        def fisher(p, g):
            tot = np.zeros((k, k))
            for x in range(m):
                tot = tot + np.outer(g[x], g[x]) / p[x]
            return tot
        d0 = (inp["xs"][0][0] - inp["ys"][0][0], inp["xs"][1][0] + inp["ys"][1][0])
        d1 = (inp["xs"][0][1] - inp["ys"][0][1], -inp["xs"][2][1] - inp["ys"][2][1])
        se_complex = np.dot(d0[0], d0[0]) + np.dot(d0[1], d0[1]) + np.dot(d1[0], d1[0]) + np.dot(d1[1], d1[1])
        ses = []
        for r in range(3):
            s = 0
            for j in range(2):
                d = inp["xs"][r][j] - inp["ys"][r][j]
                s = s + np.dot(d, d)
            ses.append(s)
        mean = (ses[0] + ses[1] + ses[2]) / 3
        var = ((ses[0] - mean) ** 2 + (ses[1] - mean) ** 2 + (ses[2] - mean) ** 2) / 2
        blk = np.zeros((2 * m, 2 * m))
        blk[:m, :m] = cov(q[0], n[0])
        blk[m:, m:] = cov(q[1], n[1])
        return [eq("covariance", out["cov0"], cov(q[0], n[0]), "calc_covariance_mat(q, n) == (diag q - q q^T) / n  (T5)"),
                eq("covariance-total/direct-sum", out["tot"], blk, "block diagonal of the per-schedule covariances"),
                eq("conjugate", out["conj"], inp["X"] @ blk @ inp["X"].T, "calc_conjugate(X, V) == X V X^T"),
                eq("squared-error", out["se"], ses[0], "calc_se == sum_j |x_j - y_j|^2"),
                eq("squared-error/complex-entries", out["se_c"], se_complex, "calc_se == sum_j |x_j - y_j|^2 (modulus squared) for complex arrays"),
                eq("mse-mean", out["mse"], mean, "mean of the squared errors"),
                eq("mse-std^2", out["std"] * out["std"], var, "sample standard deviation (ddof=1) squared == unbiased sample variance"),
                eq("replace_prob_dist(regular)", out["rep"], q[0], "entries above the threshold are left unchanged"),
                eq("fisher", out["f0"], fisher(q[0], inp["g"][0]), "Fisher matrix == sum_x grad p_x grad p_x^T / p_x"),
                eq("fisher-total", out["ft"], inp["w"][0] * fisher(q[0], inp["g"][0]) + inp["w"][1] * fisher(q[1], inp["g"][1]), "weighted sum over schedules")]


class AnalyticalErrors(E2Contract):
    name = "analytical MSE / covariance / Fisher / Cramer-Rao"
    prop = "C19"
    targets = (STD + "standard_qtomography:StandardQTomography.calc_covariance_mat_single", STD + "standard_qtomography:StandardQTomography.calc_covariance_mat_total",
               STD + "standard_qtomography:StandardQTomography.calc_covariance_linear_mat_total", STD + "standard_qtomography:StandardQTomography.calc_mse_linear_analytical",
               STD + "standard_qtomography:StandardQTomography.calc_mse_empi_dists_analytical", STD + "standard_qtomography:StandardQTomography.calc_fisher_matrix",
               STD + "standard_qtomography:StandardQTomography.calc_fisher_matrix_total", STD + "standard_qtomography:StandardQTomography.calc_cramer_rao_bound",
               STD + "standard_povmt:StandardPovmt._calc_mse_linear_analytical_mode_qoperation", STD + "standard_povmt:StandardPovmt.calc_cramer_rao_bound",
               MU + ":calc_left_inv")
    frame = False
    max_paths = 16
    n_conformance = 1

    def configs(self, tier):
        out = [("qst", True), ("qst", False), ("povmt", True), ("povmt", False), ("qpt", True), ("qmpt", True),
               # a 3-outcome unknown POVM (the implied last element is one of three) and testers with outcome counts 2, 3, 2, 2
               ("povmt", True, "m3"), ("qst", True, "mixed")]
        if tier == "thorough":
            out += [("qpt", False), ("qmpt", False), ("povmt", False, "m3"), ("qst", False, "mixed")]
        return out

    def _setup(self, W, cfg):
        kind, on_para = cfg[0], cfg[1]
        variant = cfg[2] if len(cfg) > 2 else "std"
        c_sys, states, povms = exact_testers(W, "1q", variant == "mixed")
        if variant == "mixed":
            states = states[:4]
            povms = [povms[0], povms[3], povms[1], povms[2]]
        m_unknown = 3 if variant == "m3" else 2
        qt = build_qt(W, kind, dict(states=states, povms=povms), on_para, m_unknown, "all")
        return c_sys, qt, m_unknown

    def inputs(self, W, cfg, mk):
        kind, on_para = cfg[0], cfg[1]
        c_sys, qt, m_unknown = self._setup(W, cfg)
        ukind = UNKNOWN[kind]
        # the true object is on its equality-constraint set (a physical object's necessary condition): with the flag off the
        # variables are the stacked parameters of the object generated from constrained variables
        var_on = mk.array("var", n_var(ukind, 2, m_unknown, True))
        if on_para:
            var = var_on
        else:
            cls = type(empty_obj(W, ukind, c_sys, m_unknown, True))
            var = cls.convert_var_to_stacked_vector(c_sys, var_on, True)
        A, b = qt.calc_matA(), qt.calc_vecB()
        p = A @ var + b
        for k in range(p.shape[0]):
            mk.require(p[k] >= 1e-6)
            mk.require(p[k] <= 1)
        ns = [mk.real(f"n{j}") for j in range(qt.num_schedules)]
        for x in ns:
            mk.require(x >= 1)
        return dict(qt=qt, var=var, ns=ns, c_sys=c_sys, m_unknown=m_unknown)

    def sample(self, cfg, names, rng):
        import math
        kind, on_para = cfg[0], cfg[1]
        vals = {n: rng.uniform(-0.03, 0.03) for n in names}
        for n in names:
            if n.startswith("n"):
                vals[n] = float(rng.randint(10, 1000))
        ukind = UNKNOWN[kind]
        if ukind == "povm":
            m_unknown = 3 if (len(cfg) > 2 and cfg[2] == "m3") else 2
            for x in range(m_unknown - 1):
                vals[f"var_{4 * x}"] = math.sqrt(2) / m_unknown
        if ukind == "gate":
            for k in range(3):
                vals[f"var_{k * 4 + k + 1}"] = 0.5
        if ukind == "mprocess":
            vals["var_0"] = 0.5
        return vals

    def run(self, W, cfg, inp):
        qt, var, ns = inp["qt"], inp["var"], inp["ns"]
        obj = qt.convert_var_to_qoperation(var)
        N = 0
        for x in ns:
            N = N + x
        out = dict(cov_single=[qt.calc_covariance_mat_single(obj, j, ns[j]) for j in range(qt.num_schedules)],
                   cov_lin=qt.calc_covariance_linear_mat_total(obj, ns),
                   mse_var=qt.calc_mse_linear_analytical(obj, ns, mode="var"),
                   mse_obj=qt.calc_mse_linear_analytical(obj, ns, mode="qoperation"),
                   mse_default=qt.calc_mse_linear_analytical(obj, ns),
                   mse_empi=qt.calc_mse_empi_dists_analytical(obj, ns),
                   fisher=[qt.calc_fisher_matrix(j, var) for j in range(qt.num_schedules)])
        if var.shape[0] <= 4 and not (len(cfg) > 2 and cfg[2] == "mixed"):
            # (the symbolic inverse of the total Fisher matrix is out of budget for the 4-schedule, 9-outcome tester set: no Cramer-Rao clause there)
            out["crb"] = qt.calc_cramer_rao_bound(var, N, ns)
        return out

    def post(self, W, cfg, inp, out):
        kind, on_para = cfg[0], cfg[1]
        np = W.np
        qt, var, ns = inp["qt"], inp["var"], inp["ns"]
        A, b = qt.calc_matA(), qt.calc_vecB()
        S = qt.num_schedules
        sizes = [qt.num_outcomes(j) for j in range(S)]
        K = A.shape[0]
        p = A @ var + b
        covs, k = [], 0
        big = np.zeros((K, K))
        for j in range(S):
            pj = p[k:k + sizes[j]]
            c = (np.diag(pj) - np.outer(pj, pj)) / ns[j]
            covs.append(c)
            big[k:k + sizes[j], k:k + sizes[j]] = c
            k += sizes[j]
        Apinv = np.linalg.inv(A.T @ A) @ A.T
        V = Apinv @ big @ Apinv.T
        # Jacobian of the (affine) map variables -> stacked object parameters
        tmpl = empty_obj(W, UNKNOWN[kind], inp["c_sys"], inp["m_unknown"], on_para)
        cls = type(tmpl)
        nv = var.shape[0]
        f0 = cls.convert_var_to_stacked_vector(inp["c_sys"], np.zeros(nv), on_para)
        cols = []
        for a in range(nv):
            e = np.zeros(nv)
            e[a] = 1
            cols.append(cls.convert_var_to_stacked_vector(inp["c_sys"], e, on_para) - f0)
        J = np.stack(cols, axis=1)
        empi = 0
        for c in covs:
            empi = empi + np.trace(c)
        cl = [eq("covariance-single", out["cov_single"], covs, "covariance of schedule j's empirical distribution == (diag p_j - p_j p_j^T) / n_j"),
              eq("covariance-of-linear-estimate", out["cov_lin"], V, "Cov(v_hat) == A^+ Cov(f) A^+T with A^+ = (A^T A)^-1 A^T"),
              eq("mse-empirical-distributions", out["mse_empi"], empi, "E |f - p|^2 == sum_j tr Cov_j"),
              eq("mse-linear/var-mode", out["mse_var"], np.trace(V), "E |v_hat - v|^2 == tr Cov(v_hat)"),
              eq("mse-linear/object-mode", out["mse_obj"], np.trace(J @ V @ J.T),
                 "E |object(v_hat) - object(v)|^2 == tr(J Cov(v_hat) J^T), J the Jacobian of variables -> stacked object parameters"),
              eq("mse-linear/default-mode-is-the-object-mode", out["mse_default"], out["mse_obj"],
                 "called without a mode (as the simulation checks and the graph helpers do) the formula is the object-mode one")]
        k = 0
        fish = []
        for j in range(S):
            Aj = A[k:k + sizes[j]]
            pj = p[k:k + sizes[j]]
            F = np.zeros((nv, nv))
            for x in range(sizes[j]):
                F = F + np.outer(Aj[x], Aj[x]) / pj[x]
            fish.append(F)
            k += sizes[j]
        cl.append(eq("fisher-matrix", out["fisher"], fish, "Fisher matrix of schedule j == sum_x grad p_jx grad p_jx^T / p_jx"))
        if "crb" in out:
            N = 0
            for x in ns:
                N = N + x
            Ft = np.zeros((nv, nv))
            for j in range(S):
                Ft = Ft + (ns[j] / N) * fish[j]
            Finv = np.linalg.inv(Ft)
            cl.append(eq("cramer-rao-bound", out["crb"], np.trace(J @ Finv @ J.T) / N,
                         "Cramer-Rao bound in object parametrisation == tr(J F^-1 J^T) / N with F = sum_j (n_j/N) F_j"))
        return cl

    def canary(self, W, cfg, inp, out):
        return [eq("canary", out["mse_empi"], 2 * out["mse_empi"] + 1, "(false) the MSE of the empirical distributions is an affine function of itself")]


class SampleMse(E2Contract):
    """the sample statistics the analytical formulas are compared with: mean squared distance between estimated and true OBJECTS (all parameters,
    implied ones included) and its sample standard deviation"""
    name = "data_analysis.calc_mse_qoperations"
    prop = "C19"
    targets = ("quara.data_analysis.data_analysis:calc_mse_qoperations", "quara.data_analysis.data_analysis:_calc_mse_linear_analytical_mode_qoperation")
    frame = True
    max_paths = 8
    n_conformance = 1

    def configs(self, tier):
        return [(k, f) for k in ("state", "povm", "gate", "mprocess") for f in (True, False)]

    def inputs(self, W, cfg, mk):
        kind, on_para = cfg
        c_sys = make_csys(W, "1q")
        tmpl = empty_obj(W, kind, c_sys, 2, on_para)
        nv = n_var(kind, 2, 2, on_para)
        np = W.np

        def var(tag, shift):
            # states / POVMs: every variable symbolic; gates / measurement processes: the first row block and the last variables symbolic,
            # the rest fixed rationals (the polynomial in 4 x 32 symbols is out of budget)
            if nv <= 8:
                return mk.array(tag, nv)
            free = [0, 1, 5, nv // 2, nv - 2, nv - 1]
            sym = mk.array(tag, len(free))
            v = np.array([((3 * k + shift) % 7 - 3) / 8 for k in range(nv)], dtype=np.float64)
            for j, k in enumerate(free):
                v[k] = sym[j]
            return v
        xs = [tmpl.generate_from_var(var(f"x{i}_", i)) for i in range(3)]
        y = tmpl.generate_from_var(var("y", 5))
        return dict(xs=xs, y=y)

    def run(self, W, cfg, inp):
        da = W.mod("quara.data_analysis.data_analysis")
        mse, std = da.calc_mse_qoperations(inp["xs"], [inp["y"]] * 3, with_std=True)
        return dict(mse=mse, std=std, mse_only=da.calc_mse_qoperations(inp["xs"], [inp["y"]] * 3, with_std=False))

    def post(self, W, cfg, inp, out):
        np = W.np
        pts = []
        for x in inp["xs"]:
            acc = 0
            for a, b in zip(stacked(W, x), stacked(W, inp["y"])):
                dlt = np.asarray(a).reshape(-1) - np.asarray(b).reshape(-1)
                acc = acc + np.dot(dlt, dlt)
            pts.append(acc)
        mean = (pts[0] + pts[1] + pts[2]) / 3
        var = ((pts[0] - mean) ** 2 + (pts[1] - mean) ** 2 + (pts[2] - mean) ** 2) / 2
        return [eq("mse==mean-squared-distance-of-objects", out["mse"], mean, "mean over the sample of |stacked(estimate) - stacked(true)|^2 (every parameter of the object, implied ones included)"),
                eq("mse-without-std", out["mse_only"], mean, "the same value when the standard deviation is not requested"),
                eq("std^2==unbiased-sample-variance", out["std"] * out["std"], var, "standard deviation with ddof = 1"),
                true("std>=0", out["std"] >= 0, "the standard deviation is non-negative")]

    def canary(self, W, cfg, inp, out):
        return [eq("canary", out["mse"], 2 * out["mse"] + 1, "(false)")]


class _FakeResult:
    """the two members convert_to_series reads from an estimation result"""

    def __init__(self, seq, times):
        self.estimated_qoperation_sequence = seq
        self.computation_times = times


class SampleSeries(E2Contract):
    """data_analysis.convert_to_series: per data size, the mean squared distance to the true object over ALL repetitions (and its sample standard
    deviation, and the computation times of every repetition); plus the general-norm MSE and the covariance helpers of the same module"""
    name = "data_analysis.convert_to_series / helpers"
    prop = "C19"
    targets = ("quara.data_analysis.data_analysis:convert_to_series", "quara.data_analysis.data_analysis:calc_mse_qoperations",
               "quara.data_analysis.data_analysis:calc_mse_general_norm", "quara.data_analysis.data_analysis:calc_covariance_matrix_of_prob_dist",
               "quara.data_analysis.data_analysis:calc_covariance_matrix_of_prob_dists")
    frame = True
    max_paths = 8
    n_conformance = 1

    def configs(self, tier):
        # (repetitions, data sizes): more repetitions than data sizes, fewer, equal
        return [(3, 2), (2, 3), (2, 2)] + ([(4, 1), (3, 3)] if tier == "thorough" else [])

    def inputs(self, W, cfg, mk):
        reps, sizes = cfg
        c_sys = make_csys(W, "1q")
        tmpl = empty_obj(W, "state", c_sys, 0, True)
        ests = [[tmpl.generate_from_var(mk.array(f"x{r}_{d}_", 3)) for d in range(sizes)] for r in range(reps)]
        times = [[mk.real(f"t{r}_{d}") for d in range(sizes)] for r in range(reps)]
        p = [mk.array("p0_", 2), mk.array("p1_", 3)]
        n = mk.real("n")
        mk.require(n >= 1)
        return dict(ests=ests, times=times, true=tmpl.generate_from_var(mk.array("y", 3)), p=p, n=n,
                    xs=[mk.array(f"v{k}_", 3) for k in range(3)], yv=mk.array("yv", 3))

    def run(self, W, cfg, inp):
        da = W.mod("quara.data_analysis.data_analysis")
        results = [_FakeResult(list(s), list(t)) for s, t in zip(inp["ests"], inp["times"])]
        mses, stds, comp = da.convert_to_series(results, inp["true"])
        np = W.np
        norm = lambda a, b: np.sum(a - 2 * b)          # deliberately NOT symmetric in its two arguments
        return dict(mses=list(mses), stds=list(stds), comp=[list(c) for c in comp],
                    general=da.calc_mse_general_norm(inp["xs"], inp["yv"], norm),
                    cov=da.calc_covariance_matrix_of_prob_dist(inp["p"][0], inp["n"]),
                    covs=da.calc_covariance_matrix_of_prob_dists(inp["p"], inp["n"]))

    def post(self, W, cfg, inp, out):
        reps, sizes = cfg
        np = W.np
        yv = np.asarray(stacked(W, inp["true"])[0]).reshape(-1)
        mean, var = [], []
        for d in range(sizes):
            pts = []
            for r in range(reps):
                dlt = np.asarray(stacked(W, inp["ests"][r][d])[0]).reshape(-1) - yv
                pts.append(np.dot(dlt, dlt))
            mu = sum(pts[1:], pts[0]) / reps
            mean.append(mu)
            var.append(sum(((x - mu) ** 2 for x in pts[1:]), (pts[0] - mu) ** 2) / (reps - 1))
        cl = [eq("series-length", len(out["mses"]), sizes, "one entry per data size"),
              eq("mse[d]==mean-over-all-repetitions", out["mses"], mean, "mses[d] == (1/R) sum_r |estimate_{r,d} - true|^2 over ALL R repetitions"),
              eq("std[d]^2==unbiased-sample-variance", [s * s for s in out["stds"]], var, "stds[d]^2 == sample variance (ddof 1) over all repetitions"),
              eq("computation-times-transposed", out["comp"], [[inp["times"][r][d] for r in range(reps)] for d in range(sizes)],
                 "comp_time[d][r] == computation time of repetition r at data size d")]
        g = sum((np.sum(x - 2 * inp["yv"]) ** 2 for x in inp["xs"][1:]), np.sum(inp["xs"][0] - 2 * inp["yv"]) ** 2) / 3
        cl.append(eq("general-norm-mse", out["general"], g, "calc_mse_general_norm == (1/len) sum_i norm_function(x_i, y)^2, sample first, true value second"))
        p0, p1 = inp["p"]
        c0 = (np.diag(p0) - np.outer(p0, p0)) / inp["n"]
        c1 = (np.diag(p1) - np.outer(p1, p1)) / inp["n"]
        tot = np.zeros((5, 5))
        tot[:2, :2] = c0
        tot[2:, 2:] = c1
        cl += [eq("covariance-of-one-distribution", out["cov"], c0, "(diag(p) - p p^T) / N"),
               eq("covariance-of-distributions==direct-sum", out["covs"], tot, "direct sum of the per-distribution covariance matrices")]
        return cl

    def canary(self, W, cfg, inp, out):
        return [eq("canary", out["mses"][0], 2 * out["mses"][0] + 1, "(false)")]


class FisherEps(E2Contract):
    """calc_fisher_matrix / calc_fisher_matrix_total with a caller-given eps and a distribution that HAS an entry below it (a zero-probability outcome
    of a pure true object): the total is the weighted sum of the per-schedule matrices computed WITH THAT eps, each sum_x g_x g_x^T / r_x with r the
    documented replacement of the distribution at eps"""
    name = "matrix_util Fisher matrices with a given eps"
    prop = "C19"
    targets = (MU + ":calc_fisher_matrix", MU + ":calc_fisher_matrix_total", MU + ":replace_prob_dist")
    max_paths = 16
    n_conformance = 2

    def configs(self, tier):
        return [3] + ([4] if tier == "thorough" else [])

    def inputs(self, W, cfg, mk):
        m = cfg
        eps = mk.real("eps")
        mk.require(eps >= 1e-4)
        mk.require(eps <= 5e-2)
        g = [mk.array(f"g{j}_", (m, 2)) for j in range(2)]
        w = [mk.real("w0"), mk.real("w1")]
        for x in w:
            mk.require(x >= 0)
        return dict(eps=eps, g=g, w=w)

    def sample(self, cfg, names, rng):
        vals = {n: rng.uniform(-1, 1) for n in names}
        vals["eps"] = 10 ** rng.uniform(-4, -1.4)
        vals["w0"], vals["w1"] = rng.uniform(0.1, 1), rng.uniform(0.1, 1)
        return vals

    @staticmethod
    def _dists(W, m):
        np = W.np
        q0 = np.array([0.0] + [1.0 / (m - 1)] * (m - 1), dtype=np.float64)           # one zero-probability outcome
        q1 = np.array([0.5, 0.0] + [0.5 / (m - 2)] * (m - 2), dtype=np.float64)
        return [q0, q1]

    def run(self, W, cfg, inp):
        mu = W.mod(MU)
        q = self._dists(W, cfg)
        return dict(single=[mu.calc_fisher_matrix(q[j], list(inp["g"][j]), inp["eps"]) for j in range(2)],
                    total=mu.calc_fisher_matrix_total(q, [list(g) for g in inp["g"]], inp["w"], inp["eps"]))

    def post(self, W, cfg, inp, out):
        np = W.np
        m = cfg
        q = self._dists(W, m)
        eps = inp["eps"]
        ref = []
        for j in range(2):
            F = np.zeros((2, 2))
            for x in range(m):
                r = eps if float(q[j][x]) == 0.0 else q[j][x] - eps / (m - 1)
                F = F + np.outer(inp["g"][j][x], inp["g"][j][x]) / r
            ref.append(F)
        return [eq("fisher(eps)", out["single"], ref, "Fisher matrix == sum_x grad p_x grad p_x^T / r_x, r the replacement of the distribution at the GIVEN eps"),
                eq("fisher-total(eps)", out["total"], inp["w"][0] * ref[0] + inp["w"][1] * ref[1], "the total uses the same eps for every schedule")]

"""C16 (E1 part): quara.utils.index_util -- serial <-> multi-dimensional index maps.

Unbounded: all list lengths L >= 0, all sizes nums[k] >= 1, all indices.
Ghost spec functions (recursive definitions; only *instances* of their defining
equations are given to the solver):

  Wt(L) = 1,  Wt(j) = Wt(j+1) * nums[j]                      (suffix products;  Wt(0) = prod nums)
  R(L)  = 0,  R(j)  = R(j+1) + idx[j] * Wt(j+1)              (row-major value, literal "x0*(len1*len2)+x1*len2+x2")
  U(0)  = 0,  U(k+1)= U(k) * nums[k] + idx[k]                (Horner form)
  T(0)  = s,  T(t+1)= T(t) div nums[L-1-t]                   (decode: remaining quotient)
  D(j)  = T(L-1-j) mod nums[j]                               (decode: digit j)
  Rd(L) = 0,  Rd(j) = Rd(j+1) + D(j) * Wt(j+1)               (row-major value of the digits D)

Quantified statements (every digit in range, result[k] == idx[k] for all k) are proved for an
arbitrary-but-fixed symbolic position `kk` (0 <= kk < L): quantifier-free VCs.
"""
import z3

from qverif.pyvc.engine import Contract, LoopSpec
from qverif.pyvc.values import SymSeq
from qverif.pyvc.verify import py_of
from ._e1 import int_seq, seq_len, seq_get, product_bounds

MOD = "quara.utils.index_util"

Wt = z3.Function("Wt", z3.IntSort(), z3.IntSort())
Rf = z3.Function("R", z3.IntSort(), z3.IntSort())
Uf = z3.Function("U", z3.IntSort(), z3.IntSort())
Tf = z3.Function("T", z3.IntSort(), z3.IntSort())
Df = z3.Function("D", z3.IntSort(), z3.IntSort())
Rd = z3.Function("Rd", z3.IntSort(), z3.IntSort())


def euclid(q, r, n):
    """instance of the lemma  n>0 /\\ 0<=r<n  =>  (q*n+r) div n == q /\\ (q*n+r) mod n == r  (proved as its own obligation)"""
    return z3.Implies(z3.And(n > 0, r >= 0, r < n), z3.And((q * n + r) / n == q, (q * n + r) % n == r))


def euclid_lemma():
    q, r, n = z3.Ints("q!l r!l n!l")
    return ("euclid-division-unique", [], euclid(q, r, n))


def guard(j, L, fact):
    return z3.Implies(z3.And(j >= 0, j < L), fact)


# ------------------------------------------------------------------ encode

def encode_contract():
    def make_inputs(mode=None):
        if mode is not None and mode[0] == "bounds":
            return dict(bounds=[dict(nums_length=a, index_multi_dimensional=b) for a in range(mode[1] + 1) for b in range(mode[1] + 1)])
        nums = int_seq("nums", mode, "nums_length")
        idx = int_seq("idx", mode, "index_multi_dimensional")
        L1, L2 = seq_len(nums), seq_len(idx)
        req = [L1 >= 0, L2 >= 0]
        if mode is not None:
            n = min(len(nums), len(idx))
            req += [nums[k] >= 1 for k in range(len(nums))]
            req += [z3.And(idx[k] >= 0, idx[k] < nums[k]) if mode[0] == "bounded" else z3.BoolVal(True) for k in range(n)]
        return dict(args=dict(nums_length=nums, index_multi_dimensional=idx), requires=req,
                    ghost=dict(L1=L1, L2=L2, nums=nums, idx=idx))

    def axioms_at(g, j):
        """instances of the recursive definitions and of `requires` at position j"""
        L = g["L1"]
        nums, idx = g["nums"], g["idx"]
        nj, ij = seq_get(nums, j), seq_get(idx, j)
        return [
            guard(j, L, Wt(j) == Wt(j + 1) * nj),
            guard(j, L, Rf(j) == Rf(j + 1) + ij * Wt(j + 1)),
            guard(j, L, Uf(j + 1) == Uf(j) * nj + ij),
            guard(j, L, z3.And(nj >= 1, ij >= 0, ij < nj)),       # requires, instantiated
        ]

    def base(g):
        L = g["L1"]
        return [Wt(L) == 1, Rf(L) == 0, Uf(0) == 0]

    def loop_facts(ctx, t):
        g = ctx.ghost
        L = g["L1"]
        return base(g) + axioms_at(g, L - 1 - t) + axioms_at(g, L - t)

    def invariant(ctx, t):
        g = ctx.ghost
        L = g["L1"]
        serial, temp_len = ctx.env["serial_index"], ctx.env["temp_len"]
        return [
            ("serial==R", serial == Rf(L - t)),
            ("temp_len==Wt", temp_len == Wt(L - t)),
            ("horner", Uf(L) == Uf(L - t) * temp_len + serial),
            ("range", z3.And(serial >= 0, serial < temp_len)),
        ]

    def post(ctx):
        g = ctx.ghost
        L1, L2 = g["L1"], g["L2"]
        if ctx.kind == "raise":
            return [("raises-ValueError-iff-length-mismatch",
                     (L1 != L2) if ctx.exc == "ValueError" else z3.BoolVal(False))]
        res = ctx.value
        return [
            ("raises-ValueError-iff-length-mismatch", L1 == L2),
            ("result==row-major-value", res == Rf(0)),
            ("result==horner-value", res == Uf(L1)),
            ("0<=result<prod(nums)", z3.And(res >= 0, res < Wt(0))),
        ]

    def facts(ctx):
        g = ctx.ghost
        out = base(g)
        if isinstance(g["nums"], list):      # bounded mode: the ghost functions are fully determined
            for j in range(len(g["nums"])):
                out += axioms_at(g, z3.IntVal(j)) if j < len(g["idx"]) else []
        return out

    def canary(ctx):
        if ctx.kind == "raise":
            return []
        return [("result==row-major-value", ctx.value == Rf(0) + 1)]

    def concretize(model, inputs, ghost):
        return dict(nums_length=py_of(model, inputs["nums_length"], 12),
                    index_multi_dimensional=py_of(model, inputs["index_multi_dimensional"], 12))

    def native_check(args, outcome):
        nums, idx = args["nums_length"], args["index_multi_dimensional"]
        if len(nums) != len(idx):
            ok = outcome == ("raise", "ValueError")
            return {"raises-ValueError-iff-length-mismatch": ok}
        if outcome[0] != "return":
            return {"raises-ValueError-iff-length-mismatch": False}
        # independent spec: literal row-major formula
        val = 0
        for k in range(len(nums)):
            w = 1
            for m in nums[k + 1:]:
                w *= m
            val += idx[k] * w
        total = 1
        for m in nums:
            total *= m
        in_req = all(n >= 1 for n in nums) and all(0 <= i < n for i, n in zip(idx, nums))
        return {"raises-ValueError-iff-length-mismatch": True,
                "result==row-major-value": outcome[1] == val,
                "result==horner-value": outcome[1] == val,
                "0<=result<prod(nums)": (0 <= outcome[1] < total) or not in_req}

    def canary_native(args, outcome):
        t = native_check(args, outcome)
        if outcome[0] != "return":
            return {}
        # canary claims result == spec + 1: false exactly when the true clause holds
        return {"result==row-major-value": not t.get("result==row-major-value", False)}

    loops = {0: LoopSpec("for (length, local_index) in reversed(list(zip(nums_length, index_multi_dimensional)))",
                         invariant, facts=loop_facts)}
    c = _mk(make_inputs, post, loops, facts, canary, concretize, native_check)
    c.canary_native = canary_native
    return c


def _mk(make_inputs, post, loops, facts, canary, concretize, native_check):
    return Contract(MOD + ":index_serial_from_index_multi_dimensional", make_inputs, post, loops=loops, facts=facts,
                    canary=canary, concretize=concretize, native_check=native_check, prop="C16", scope="unbounded",
                    clause_text={
                        "raises-ValueError-iff-length-mismatch": "raises ValueError <=> len(nums) != len(index)",
                        "result==row-major-value": "result == sum_k idx[k] * prod_{m>k} nums[m]  (row-major: last index fastest)",
                        "result==horner-value": "result == Horner value U(L)",
                        "0<=result<prod(nums)": "0 <= result < prod(nums) for in-range indices"})


def encode_gen(rng):
    L = rng.randint(0, 5)
    nums = [rng.randint(1, 6) for _ in range(L)]
    if rng.random() < 0.15:
        idx = [0] * rng.randint(0, 5)
    else:
        idx = [rng.randint(0, n - 1) for n in nums]
    return dict(nums_length=nums, index_multi_dimensional=idx)


# ------------------------------------------------------------------ decode

def decode_contract(variant):
    """variant 'A': digits in range and encode(decode(s)) == s on [0, prod nums)
       variant 'B': decode(encode(idx)) == idx  (hypothesis s == U(L) for in-range idx)"""

    def make_inputs(mode=None):
        if mode is not None and mode[0] == "bounds":
            return dict(bounds=[dict(nums_length=a) for a in range(mode[1] + 1)])
        nums = int_seq("nums", mode, "nums_length")
        L = seq_len(nums)
        kk = z3.Int("kk")
        if mode is not None and mode[0] == "concrete":
            s = mode[1]["index_serial"]
        else:
            s = z3.Int("s")
        req = [L >= 0, kk >= 0, kk < L]
        g = dict(L=L, nums=nums, s=s, kk=kk)
        if variant == "B":
            idx = SymSeq.fresh("int", "idx", L) if mode is None else [z3.Int(f"idx_{i}") for i in range(len(nums))]
            g["idx"] = idx
            if mode is not None:
                # bounded: s is the Horner value by construction
                u = z3.IntVal(0)
                for k in range(len(nums)):
                    u = u * nums[k] + idx[k]
                    req += [idx[k] >= 0, idx[k] < nums[k]]
                req += [s == u]
            else:
                req += [s == Uf(L)]
        else:
            req += [s >= 0] if not isinstance(s, int) else []
        if mode is not None:
            req += [nums[k] >= 1 for k in range(len(nums))]
        return dict(args=dict(nums_length=nums, index_serial=s), requires=req, ghost=g)

    def axioms_at(g, j):
        L, nums = g["L"], g["nums"]
        nj = seq_get(nums, j)
        out = [guard(j, L, Wt(j) == Wt(j + 1) * nj),
               guard(j, L, nj >= 1)]
        if variant == "A":
            out += [guard(j, L, Tf(L - j) == Tf(L - 1 - j) / nj),
                    guard(j, L, Df(j) == Tf(L - 1 - j) % nj),
                    guard(j, L, Rd(j) == Rd(j + 1) + Df(j) * Wt(j + 1))]
        else:
            ij = seq_get(g["idx"], j)
            out += [guard(j, L, Uf(j + 1) == Uf(j) * nj + ij),
                    guard(j, L, z3.And(ij >= 0, ij < nj)),
                    euclid(Uf(j), ij, nj)]
        return out

    def base(g):
        L = g["L"]
        out = [Wt(L) == 1]
        if variant == "A":
            out += [Tf(0) == g["s"], Rd(L) == 0]
        else:
            out += [Uf(0) == 0]
        return out

    def loop_facts(ctx, t):
        g = ctx.ghost
        L = g["L"]
        return base(g) + axioms_at(g, L - 1 - t) + axioms_at(g, L - t) + axioms_at(g, g["kk"])

    def invariant(ctx, t):
        g = ctx.ghost
        L, kk, s = g["L"], g["kk"], g["s"]
        tmp = ctx.env["tmp_index_serial"]
        dig = ctx.env["index_multi_dimensional"]
        n_dig = dig.length if isinstance(dig, SymSeq) else z3.IntVal(len(dig))
        dig_at = (lambda k: dig.get(k)) if isinstance(dig, SymSeq) else None
        inv = [("len(digits)==t", n_dig == t)]
        if variant == "A":
            inv += [("tmp==T(t)", z3.And(tmp == Tf(t), tmp >= 0)),
                    ("s==tmp*Wt+Rd", s == tmp * Wt(L - t) + Rd(L - t)),
                    ("0<=Rd<Wt", z3.And(Rd(L - t) >= 0, Rd(L - t) < Wt(L - t), Wt(L - t) >= 1))]
            if dig_at:
                inv += [("digit[kk]==D(kk)", z3.Implies(L - 1 - kk < t, dig_at(L - 1 - kk) == Df(kk)))]
        else:
            inv += [("tmp==U(L-t)", tmp == Uf(L - t))]
            if dig_at:
                inv += [("digit[kk]==idx[kk]", z3.Implies(L - 1 - kk < t, dig_at(L - 1 - kk) == seq_get(g["idx"], kk)))]
        return inv

    def post(ctx):
        g = ctx.ghost
        L, kk, s = g["L"], g["kk"], g["s"]
        if ctx.kind == "raise":
            return [("returns-normally", z3.BoolVal(False))]
        res = ctx.value
        n_res = res.length if hasattr(res, "length") else z3.IntVal(len(res))
        rk = res.get(kk) if hasattr(res, "get") else seq_get(list(res), kk)
        out = [("returns-normally", z3.BoolVal(True)), ("len(result)==len(nums)", n_res == L)]
        if variant == "A":
            nk = seq_get(g["nums"], kk)
            out += [("0<=result[k]<nums[k]", z3.And(rk >= 0, rk < nk)),
                    ("result[k]==D(k)", rk == Df(kk)),
                    ("encode(decode(s))==s", z3.Implies(s < Wt(0), Rd(0) == s))]
        else:
            out += [("decode(encode(idx))==idx", rk == seq_get(g["idx"], kk))]
        return out

    def facts(ctx):
        g = ctx.ghost
        out = base(g) + axioms_at(g, g["kk"])
        if isinstance(g["nums"], list):
            for j in range(len(g["nums"])):
                out += axioms_at(g, z3.IntVal(j))
        return out

    def canary(ctx):
        g = ctx.ghost
        if ctx.kind == "raise":
            return []
        res = ctx.value
        rk = res.get(g["kk"]) if hasattr(res, "get") else seq_get(list(res), g["kk"])
        if variant == "A":
            return [("0<=result[k]<nums[k]", z3.And(rk >= 1, rk < seq_get(g["nums"], g["kk"])))]
        return [("decode(encode(idx))==idx", rk == seq_get(g["idx"], g["kk"]) + 1)]

    def concretize(model, inputs, ghost):
        return dict(nums_length=py_of(model, inputs["nums_length"], 12), index_serial=py_of(model, ghost["s"]))

    def native_check(args, outcome):
        nums, s = args["nums_length"], args["index_serial"]
        if outcome[0] != "return":
            return {"returns-normally": False}
        res = list(outcome[1])
        total = 1
        for m in nums:
            total *= m
        val = 0
        for k in range(min(len(nums), len(res))):
            w = 1
            for m in nums[k + 1:]:
                w *= m
            val += res[k] * w
        in_range = len(res) == len(nums) and all(0 <= r < n for r, n in zip(res, nums))
        # variant B: s is an encoded index tuple iff 0 <= s < total; its pre-image is unique (spec by brute force)
        ok_b = True
        if 0 <= s < total and len(nums) <= 6:
            import itertools
            for idx in itertools.product(*[range(n) for n in nums]):
                u = 0
                for n, i in zip(nums, idx):
                    u = u * n + i
                if u == s:
                    ok_b = list(idx) == res
                    break
        return {"returns-normally": True, "len(result)==len(nums)": len(res) == len(nums),
                "0<=result[k]<nums[k]": in_range or s < 0, "result[k]==D(k)": True,
                "encode(decode(s))==s": (val == s) or not (0 <= s < total),
                "decode(encode(idx))==idx": ok_b}

    loops = {0: LoopSpec("for local_length in reversed(nums_length)", invariant,
                         shapes={"index_multi_dimensional": ("seq", "int")}, facts=loop_facts)}
    def canary_native(args, outcome):
        if outcome[0] != "return":
            return {}
        res, nums = list(outcome[1]), args["nums_length"]
        if variant == "A":     # canary claims every digit >= 1
            return {"0<=result[k]<nums[k]": all(1 <= r < n for r, n in zip(res, nums))}
        t = native_check(args, outcome)   # canary claims result[k] == idx[k] + 1
        return {"decode(encode(idx))==idx": not t.get("decode(encode(idx))==idx", False) or len(nums) == 0}

    c = _decode_contract_obj(make_inputs, post, loops, facts, canary, concretize, native_check)
    c.canary_native = canary_native
    if variant == "B":
        c.lemmas = [euclid_lemma()]
    return c


def _decode_contract_obj(make_inputs, post, loops, facts, canary, concretize, native_check):
    return Contract(MOD + ":index_multi_dimensional_from_index_serial", make_inputs, post, loops=loops, facts=facts,
                    canary=canary, concretize=concretize, native_check=native_check, prop="C16", scope="unbounded",
                    clause_text={
                        "0<=result[k]<nums[k]": "every digit is in range: 0 <= result[k] < nums[k] (arbitrary k)",
                        "encode(decode(s))==s": "0 <= s < prod(nums)  =>  row-major value of the returned digits == s",
                        "decode(encode(idx))==idx": "s == Horner value of in-range idx  =>  result[k] == idx[k] (arbitrary k)",
                        "len(result)==len(nums)": "len(result) == len(nums)"})


def decode_gen(rng):
    L = rng.randint(0, 5)
    nums = [rng.randint(1, 6) for _ in range(L)]
    total = 1
    for n in nums:
        total *= n
    return dict(nums_length=nums, index_serial=rng.randint(0, max(total - 1, 0)))



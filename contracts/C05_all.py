"""C05 (partial): the physical projection is Dykstra's alternating projection, for either order.

The two constraint projections are UNINTERPRETED functions in the symbolic world (twin stubs: the same application gives
the same opaque symbols), so the obligations are about the iteration scheme only:
  y_{k+1} = P1(x_k + p_k),  p_{k+1} = x_k + p_k - y_{k+1},  x_{k+1} = P2(y_{k+1} + q_k),  q_{k+1} = y_{k+1} + q_k - x_{k+1}
with (P1, P2) = (P_eq, P_ineq) for "eq_ineq" and swapped for "ineq_eq", x_0 = x, p_0 = q_0 = 0;
error_k = |p_{k-1} - p_k|^2 + |q_{k-1} - q_k|^2 and the loop stops iff error_k < eps (k >= 1).
NOT decided: convergence to the nearest physical point (Boyle-Dykstra theorem T2 on top of C04), termination, the accuracy
implied by the stopping threshold, agreement with an SDP solve."""
from qverif.symtwin.verify import E2Contract, eq, true, Raised
from qverif.symtwin import scalar as SC
from qverif.symtwin import symnp as NP
from ._cfg import make_csys, DIMS, stacked
from .C03_e2 import n_var, empty_obj

QO = "quara.objects.qoperation"
MODS = dict(state="quara.objects.state:State", gate="quara.objects.gate:Gate", povm="quara.objects.povm:Povm", mprocess="quara.objects.mprocess:MProcess")


def opaque_vec(tag, vec):
    """an uninterpreted function applied to a vector: result entries are opaque symbols keyed by (tag, argument)"""
    key = tuple(SC.Sym.const(v).key() if not isinstance(v, SC.Sym) else v.key() for v in vec.a.reshape(-1).tolist())
    out = NP.zeros(vec.shape, NP.float64)
    flat = out.a.reshape(-1)
    for i in range(flat.shape[0]):
        sid = SC.T.defined("opaque", (tag, key, i), (lambda env, i=i: 0.0, ()))
        flat[i] = SC.Sym.of_id(sid)
    return out


def var_stub(tag):
    def stub(c_sys, var, on_para_eq_constraint=True, eps_truncate_imaginary_part=None):
        return opaque_vec(tag, NP._A(var))
    return staticmethod(stub)


def obj_stub(tag, attr, is_list):
    def stub(self):
        new = self.copy()
        sv = self.to_stacked_vector()
        pv = opaque_vec(tag, NP._A(sv))
        cur = getattr(self, attr)
        if is_list:
            n = len(cur)
            parts = pv.reshape((n,) + tuple(cur[0].shape))
            val = [parts[k] for k in range(n)]
            setattr(new, attr, tuple(val) if isinstance(cur, tuple) else val)
        else:
            setattr(new, attr, pv.reshape(cur.shape))
        new._is_physicality_required = False
        return new
    return stub


ATTR = dict(state=("_vec", False), gate=("_hs", False), povm=("_vecs", True), mprocess=("_hss", True))


class Dykstra(E2Contract):
    name = "calc_proj_physical(_with_var)"
    prop = "C05"
    targets = (QO + ":QOperation.calc_proj_physical", QO + ":QOperation.calc_proj_physical_with_var",
               QO + ":QOperation._calc_stopping_criterion_birgin_raydan2_vectors", QO + ":QOperation._is_satisfied_stopping_criterion_birgin_raydan_vectors",
               QO + ":QOperation._is_satisfied_stopping_criterion_birgin_raydan_qoperations", QO + ":QOperation.func_calc_proj_physical_with_var",
               QO + ":QOperation.func_calc_proj_physical")
    frame = True
    n_conformance = 0            # the projections are uninterpreted here; numerical behaviour is C04's business
    max_paths = 64

    def __init__(self):
        self.stubs = {}
        for kind, target in MODS.items():
            attr, is_list = ATTR[kind]
            self.stubs[target + ".calc_proj_eq_constraint_with_var"] = var_stub("Peq")
            self.stubs[target + ".calc_proj_ineq_constraint_with_var"] = var_stub("Pineq")
            self.stubs[target + ".calc_proj_eq_constraint"] = obj_stub("Peq", attr, is_list)
            self.stubs[target + ".calc_proj_ineq_constraint"] = obj_stub("Pineq", attr, is_list)

    def configs(self, tier):
        out = []
        kinds = ["state", "gate"] + (["povm", "mprocess"] if tier == "thorough" else ["povm"])
        for kind in kinds:
            for order in ("eq_ineq", "ineq_eq"):
                for it in (1, 2, 3):
                    out.append((kind, order, it))
        return out

    def inputs(self, W, cfg, mk):
        kind, order, it = cfg
        c_sys = make_csys(W, "1q")
        m = 2
        eps = mk.real("eps")
        mk.require(eps > 0)
        mk.require(eps <= 1e-2)
        return dict(c_sys=c_sys, var=mk.array("var", n_var(kind, 2, m, False)), eps=eps)

    def sample(self, cfg, names, rng):
        vals = {n: rng.uniform(-1, 1) for n in names}
        vals["eps"] = rng.choice([1e-2, 1e-3, 1e-6])
        return vals

    def canary(self, W, cfg, inp, out):
        return [eq("canary", out["res_v"], inp["var"], "(false) the physical projection returns its argument")]

    def run(self, W, cfg, inp):
        kind, order, it = cfg
        tmpl = empty_obj(W, kind, inp["c_sys"], 2, False)
        obj = tmpl.generate_from_var(W.np.copy(inp["var"]), mode_proj_order=order, eps_proj_physical=inp["eps"], is_estimation_object=True)
        config_before = {k: v for k, v in vars(obj).items() if isinstance(v, (bool, int, float, str, type(None)))}
        res_v, hist_v = obj.calc_proj_physical_with_var(W.np.copy(inp["var"]), on_para_eq_constraint=False, max_iteration=it, is_iteration_history=True)
        res_o, hist_o = obj.calc_proj_physical(max_iteration=it, is_iteration_history=True)

        def vecs(lst):
            return [None if x is None else (x if not hasattr(x, "to_stacked_vector") else x.to_stacked_vector()) for x in lst]
        closure = obj.func_calc_proj_physical_with_var(on_para_eq_constraint=False, mode_proj_order=order, max_iteration=it)(W.np.copy(inp["var"]))
        # the flag given to the CALL (not the flag of the object the method is called on) says how argument and result are parametrised:
        # the object has the flag off; call it with constrained variables and the flag on
        cls = type(obj)
        var_on = cls.convert_stacked_vector_to_var(inp["c_sys"], W.np.copy(inp["var"]), True)
        stacked_of_var_on = cls.convert_var_to_stacked_vector(inp["c_sys"], W.np.copy(var_on), True)
        res_cross = obj.calc_proj_physical_with_var(W.np.copy(var_on), on_para_eq_constraint=True, max_iteration=it)
        res_cross_ref = cls.convert_stacked_vector_to_var(
            inp["c_sys"], obj.calc_proj_physical_with_var(W.np.copy(stacked_of_var_on), on_para_eq_constraint=False, max_iteration=it), True)
        return dict(res_v=res_v, hist_v={k: vecs(v) if k != "error_value" else list(v) for k, v in hist_v.items()},
                    res_o=res_o.to_stacked_vector(), hist_o={k: vecs(v) if k != "error_value" else list(v) for k, v in hist_o.items()},
                    closure=closure, arg_after=obj.to_stacked_vector(), res_cross=res_cross, res_cross_ref=res_cross_ref,
                    config_kept=all(type(getattr(obj, k)) is type(v) and getattr(obj, k) == v for k, v in config_before.items()))

    def post(self, W, cfg, inp, out):
        kind, order, it = cfg
        np = W.np
        x = inp["var"]
        P1, P2 = (("Peq", "Pineq") if order == "eq_ineq" else ("Pineq", "Peq"))
        zero = np.zeros(x.shape[0])
        cls = type(empty_obj(W, kind, inp["c_sys"], 2, False))

        def proj(tag, v):
            # symbolic world: the uninterpreted function; native world: the real projection (so refutations replay natively)
            if W.symbolic:
                return opaque_vec(tag, NP._A(v))
            f = cls.calc_proj_eq_constraint_with_var if tag == "Peq" else cls.calc_proj_ineq_constraint_with_var
            return f(inp["c_sys"], np.copy(v), on_para_eq_constraint=False)
        xs, ys, ps, qs, errs = [x], [None], [zero], [zero], []
        n_done = len(out["hist_v"]["x"]) - 1          # sweeps actually executed on this path
        for k in range(n_done):
            y = proj(P1, xs[-1] + ps[-1])
            p = xs[-1] + ps[-1] - y
            xn = proj(P2, y + qs[-1])
            q = y + qs[-1] - xn
            if k >= 1:
                dp, dq = ps[-1] - p, qs[-1] - q
                errs.append(np.dot(dp, dp) + np.dot(dq, dq))
            else:
                errs.append(None)
            xs.append(xn)
            ys.append(y)
            ps.append(p)
            qs.append(q)
        hv, ho = out["hist_v"], out["hist_o"]
        cl = [eq("var-level/x-sequence", hv["x"], xs, "x_k follow the Dykstra recurrence with the projections in the configured order"),
              eq("var-level/y-sequence", hv["y"], ys, "y_k likewise"), eq("var-level/p-sequence", hv["p"], ps, "p_k likewise"),
              eq("var-level/q-sequence", hv["q"], qs, "q_k likewise"),
              eq("var-level/error-values", hv["error_value"], errs, "error_k == |p_(k-1) - p_k|^2 + |q_(k-1) - q_k|^2 (None for the first sweep)"),
              eq("var-level/result==last-x", out["res_v"], xs[-1], "the returned point is the last x of the history"),
              eq("object-level==var-level/x", ho["x"], hv["x"], "object-level and variable-level routines produce the same x sequence"),
              eq("object-level==var-level/y", ho["y"], hv["y"], "the same y sequence"),
              eq("object-level==var-level/p", ho["p"], hv["p"], "the same p sequence"),
              eq("object-level==var-level/q", ho["q"], hv["q"], "the same q sequence"),
              eq("object-level==var-level/errors", ho["error_value"], hv["error_value"], "the same error values"),
              eq("object-level/result==last-x", out["res_o"], xs[-1], "the object-level result is the same point"),
              eq("closure==routine", out["closure"], out["res_v"], "func_calc_proj_physical_with_var(...)(var) == calc_proj_physical_with_var(var)"),
              eq("argument-object-unchanged", out["arg_after"], x, "the projected object itself is not modified"),
              eq("flag-of-the-call-selects-the-parametrisation", out["res_cross"], out["res_cross_ref"],
                 "calc_proj_physical_with_var(v, on_para_eq_constraint=True) on an object whose own flag is off == constrained variables of the projection "
                 "of the stacked vector that v denotes"),
              eq("argument-object-configuration-unchanged", out["config_kept"], True,
                 "the projected object keeps its flags (is_physicality_required, is_estimation_object, constraint options, thresholds)")]
        # stopping rule: executed exactly `it` sweeps unless an earlier error value was below eps; the last one decides
        S = W.S
        stop_conds = []
        for k in range(1, n_done):
            e = errs[k]
            if k < n_done - 1:
                stop_conds.append(S.Not(e < inp["eps"]))          # continued after sweep k => error_k >= eps
        if n_done < it and n_done >= 2:
            stop_conds.append(errs[n_done - 1] < inp["eps"])       # stopped early => the last error was below eps
        cl.append(true("stops-iff-error<eps", S.And(*stop_conds) if stop_conds else True,
                       "the loop continues while error_k >= eps and stops at the first error_k < eps (k >= 1)"))
        cl.append(true("at-least-one-sweep", n_done >= 1, "at least one sweep is executed"))
        return cl


# ------------------------------------------------------------------ callee contracts the claim rests on, re-checked under C05
from .C04_all import EqProjectionWithVar as _EqWithVar
from .C03_e2 import VarObjectRoundTrip as _VarObject


class EqStepUnderC05(_EqWithVar):
    """the equality step every sweep of the variable-level routine takes (C04's contract), on the systems where dim*2 != dim**2"""
    prop = "C05"

    def configs(self, tier):
        return [("1qt", "gate", 0, False), ("1qt", "gate", 0, True), ("1q", "mprocess", 3, False), ("1qt", "povm", 2, False)]


class EntryConversionUnderC05(_VarObject):
    """the conversions by which the variable-level routine enters and leaves the stacked parameter space (C03's contract)"""
    prop = "C05"

    def configs(self, tier):
        return [("1q", "mprocess", 3, True), ("1q", "povm", 3, True), ("1qt", "gate", 0, True), ("1q", "state", 0, True)]

"""C11 / C13 (E2): LossMinimizationEstimator.calc_estimate_sequence wires loss, constraint and algorithm for EVERY dataset.

The optimiser itself is replaced by a probe (its loop is C11's E1 contract): optimize() returns what it would start from -- the loss value and
gradient at a fixed point and the installed projection applied to a fixed point -- so the estimate exposes exactly the configuration the
optimiser sees.  Contract: the k-th estimate of a sequence, and an estimate obtained with objects used before (other data, other tomography,
other options), equal the estimate obtained with fresh objects configured for that dataset alone."""
from qverif.symtwin.verify import E2Contract, eq, true, Raised
from .C05_all import Dykstra
from .C08_all import build_qt
from .C09_all import exact_testers

STD = "quara.protocol.qtomography.standard."
LF = "quara.loss_function."
PG = "quara.minimization_algorithm.projected_gradient_descent_backtracking"


def _probe_optimize(self, loss_function, loss_function_option, algorithm_option, on_iteration_history=False):
    g = type(self).is_loss_sufficient.__globals__
    np = g["np"]
    n = self._qt.num_variables
    x0 = np.array([(k + 1) / (4 * n) for k in range(n)], dtype=np.float64)
    x1 = np.array([(2 * k - 1) / (3 * n) for k in range(n)], dtype=np.float64)
    parts = [np.array([loss_function.value(x0)]), loss_function.gradient(x0), self.func_proj(x1)]
    mu = algorithm_option.mu
    parts.append(np.array([0 if mu is None else mu, algorithm_option.gamma, algorithm_option.eps]))
    res_cls = g["ProjectedGradientDescentBacktrackingResult"]
    return res_cls(np.hstack(parts), computation_time=0.0)


class LossMinimizationWiring(E2Contract):
    name = "LossMinimizationEstimator wiring"
    prop = "C11"
    targets = (STD + "loss_minimization_estimator:LossMinimizationEstimator.calc_estimate_sequence",
               STD + "loss_minimization_estimator:LossMinimizationEstimator.calc_estimate",
               LF + "probability_based_loss_function:ProbabilityBasedLossFunction.set_from_standard_qtomography_option_data",
               "quara.minimization_algorithm.projected_gradient_descent:ProjectedGradientDescent.set_constraint_from_standard_qt_and_option",
               "quara.minimization_algorithm.projected_gradient_descent:ProjectedGradientDescent.set_from_option")
    n_conformance = 0
    max_paths = 64
    frame = True

    LOSSES = {"squared": ("weighted_probability_based_squared_error", "WeightedProbabilityBasedSquaredError"),
              "squared-fast": ("standard_qtomography_based_weighted_probability_based_squared_error", "StandardQTomographyBasedWeightedProbabilityBasedSquaredError"),
              "entropy": ("weighted_relative_entropy", "WeightedRelativeEntropy")}

    def __init__(self):
        self.stubs = dict(Dykstra().stubs)
        self.stubs[PG + ":ProjectedGradientDescentBacktracking.optimize"] = _probe_optimize

    def configs(self, tier):
        out = []
        for lossn in ("squared", "squared-fast") + (("entropy",) if tier == "thorough" else ()):
            for mode in ("identity", "inverse_sample_covariance"):
                if lossn == "entropy" and mode != "identity":
                    continue
                out.append((lossn, mode, "sequence"))
                out.append((lossn, mode, "reused-across-tomographies"))
        return out

    def _qt(self, W, kind, on_para):
        c_sys, states, povms = exact_testers(W, "1q", False)
        return build_qt(W, kind, dict(states=states, povms=povms), on_para, 2, "all")

    def inputs(self, W, cfg, mk):
        lossn, mode, scen = cfg
        qt = self._qt(W, "qst", True)
        f = [mk.array(f"f{j}_", qt.num_outcomes(j)) for j in range(qt.num_schedules)]
        g = [mk.array(f"g{j}_", qt.num_outcomes(j)) for j in range(qt.num_schedules)]
        if mode != "identity" or lossn == "entropy":
            for arr in f + g:
                for x in arr:
                    mk.require(x >= 0.05)
                    mk.require(x <= 0.95)
        return dict(f=f, g=g)

    def sample(self, cfg, names, rng):
        return {n: rng.uniform(0.2, 0.8) for n in names}

    def _objects(self, W, cfg):
        lossn, mode, scen = cfg
        modn, clsn = self.LOSSES[lossn]
        lmod = W.mod(LF + modn)
        loss = getattr(lmod, clsn)()
        lopt = getattr(lmod, clsn + "Option")(mode)
        pg = W.mod(PG)
        algo = pg.ProjectedGradientDescentBacktracking()
        aopt = pg.ProjectedGradientDescentBacktrackingOption(max_iteration_proj_physical=2, max_iteration_optimization=3, mode_stopping_criterion_gradient_descent="single_difference_loss")
        est = W.mod(STD + "loss_minimization_estimator").LossMinimizationEstimator()
        return est, loss, lopt, algo, aopt

    def run(self, W, cfg, inp):
        lossn, mode, scen = cfg
        d1 = [(100, fj) for fj in inp["f"]]
        d2 = [(250, gj) for gj in inp["g"]]
        qt = self._qt(W, "qst", True)
        fresh = lambda q, d: (lambda e, l, lo, a, ao: e.calc_estimate(q, d, l, lo, a, ao, is_computation_time_required=False).estimated_var)(*self._objects(W, cfg))
        if scen == "sequence":
            est, loss, lopt, algo, aopt = self._objects(W, cfg)
            r = est.calc_estimate_sequence(qt, [d1, d2], loss, lopt, algo, aopt, is_computation_time_required=False)
            return dict(got=list(r.estimated_var_sequence), want=[fresh(qt, d1), fresh(qt, d2)])
        # one loss / algorithm / estimator object used for another tomography (other parametrisation, other projection) first
        qt_other = self._qt(W, "qst", False)
        est, loss, lopt, algo, aopt = self._objects(W, cfg)
        est.calc_estimate(qt_other, d1, loss, lopt, algo, aopt, is_computation_time_required=False)
        r = est.calc_estimate(qt, d2, loss, lopt, algo, aopt, is_computation_time_required=False)
        return dict(got=[r.estimated_var], want=[fresh(qt, d2)])

    def post(self, W, cfg, inp, out):
        return [eq("every-dataset-sees-its-own-loss-constraint-and-algorithm", out["got"], out["want"],
                   "each estimate equals the one obtained with fresh loss / algorithm / estimator objects configured for that dataset and tomography alone")]

    def canary(self, W, cfg, inp, out):
        lossn, mode, scen = cfg
        if scen != "sequence":
            return [eq("canary", out["got"][0], 2 * out["want"][0], "(false) the estimate is twice the fresh estimate")]
        return [eq("canary", out["got"][1], out["want"][0], "(false) the second estimate of a sequence is the estimate of the first dataset")]


class LossMinimizationWiringC13(LossMinimizationWiring):
    prop = "C13"
    name = "LossMinimizationEstimator: no state carried between datasets"


# ------------------------------------------------------------------ callee contracts the optimality claim rests on, re-checked under C11

from .C12_all import SquaredError as _SquaredError, RelativeEntropy as _RelativeEntropy  # noqa: E402
from .C10_all import ConstraintWiring as _ConstraintWiring  # noqa: E402


class LossValueAndGradient(_SquaredError):
    """C12's contract of the squared-error losses (value == formula, gradient == d value, fast == generic): what the line search and the descent direction rest on"""
    prop = "C11"
    name = "squared-error losses: value, gradient, fast == generic [callee contract of the minimiser]"


class EntropyLossValueAndGradient(_RelativeEntropy):
    prop = "C11"
    name = "relative-entropy losses: value, gradient, fast == generic [callee contract of the minimiser]"


class ProjectionInstalled(_ConstraintWiring):
    """C10's contract: the projection the iterates are mapped through is the one the constraint flags and the option's iteration limits name"""
    prop = "C11"
    name = "installed projection [callee contract of the minimiser]"

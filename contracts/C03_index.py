"""C03 (E1 part): the eight local index maps, unbounded in dimension d >= 1, outcome count m >= 1 and index.

Layout spec (written from the documented parametrisation, not from the code):
  state   : var = vec without entry 0 (flag) / vec            -> state index s = v + [flag]
  povm    : var = vecs[0..m-1 (or m-2)] concatenated           -> (x, i) with v = x*size + i, 0 <= i < size
  gate    : var = HS rows (1.. if flag) flattened row-major    -> (row, col) with v = n*(row-[flag]) + col, 0 <= col < n, n = d^2
  mprocess: var = hss flattened, first row of the LAST hs dropped (flag)
            -> (x, row, col), v = x*n^2 + row*n + col - [flag and x == m-1]*n
Each map is proved to return exactly the index satisfying the layout equation, in range, never an implied entry;
the reverse maps are proved to be the layout equation itself; hence both compositions are the identity.
"""
import z3

from qverif.pyvc.engine import Contract
from qverif.pyvc.values import Obj, SymSeq
from qverif.pyvc.verify import py_of


def euclid(q, r, n):
    return z3.Implies(z3.And(n > 0, r >= 0, r < n), z3.And((q * n + r) / n == q, (q * n + r) % n == r))


def _flag(mode, name="flag"):
    if mode is not None and mode[0] == "concrete":
        return bool(mode[1][name])
    return z3.Bool(name)


def _int(mode, name):
    if mode is not None and mode[0] == "concrete":
        return int(mode[1][name])
    return z3.Int(name)


def b2i(f):
    return z3.If(f, 1, 0) if z3.is_expr(f) else int(f)


class _NativeObj:
    pass


def native_csys(d):
    o = _NativeObj()
    o.dim = d
    return o


def native_arrs(m, size):
    import numpy as np
    return [np.zeros(size) for _ in range(m)]


def mk(target, kind, direction):
    """kind in state/povm/gate/mprocess; direction 'fwd' (var index -> object index) or 'bwd'"""
    def make_inputs(mode=None):
        if mode is not None and mode[0] == "bounds":
            return dict(bounds=[])
        d = _int(mode, "d")
        m = _int(mode, "m")
        flag = _flag(mode)
        n = d * d
        req = [d >= 1, m >= 1] if mode is None else []
        g = dict(d=d, m=m, flag=flag, n=n)
        c_sys = Obj("c_sys", attrs=dict(dim=d))
        arr = Obj("arr0", attrs=dict(shape=(n,)))
        lst = Obj("list", attrs={"__len__": m})
        # `vecs[0].shape[0]` and `len(hss)`: abstract list object supporting [0] and len()
        vecs = _AbsList(m, arr)
        args = {}
        if direction == "fwd":
            v = _int(mode, "v")
            g["v"] = v
            nvar = {"state": n - b2i(flag), "povm": (m - b2i(flag)) * n, "gate": n * n - b2i(flag) * n,
                    "mprocess": m * n * n - b2i(flag) * n}[kind]
            if mode is None:
                req += [v >= 0, v < nvar]
            if kind == "state":
                args = dict(var_index=v, on_para_eq_constraint=flag)
            elif kind == "povm":
                args = dict(c_sys=c_sys, vecs=vecs, var_index=v, on_para_eq_constraint=flag)
            elif kind == "gate":
                args = dict(c_sys=c_sys, var_index=v, on_para_eq_constraint=flag)
            else:
                args = dict(c_sys=c_sys, hss=vecs, var_index=v, on_para_eq_constraint=flag)
        else:
            if kind == "state":
                s = _int(mode, "s")
                g["idx"] = (s,)
                if mode is None:
                    req += [s >= b2i(flag), s < n]
                args = dict(state_index=s, on_para_eq_constraint=flag)
            elif kind == "povm":
                x, i = _int(mode, "x"), _int(mode, "i")
                g["idx"] = (x, i)
                if mode is None:
                    req += [x >= 0, x < m - b2i(flag), i >= 0, i < n]
                args = dict(c_sys=c_sys, vecs=vecs, povm_index=(x, i), on_para_eq_constraint=flag)
            elif kind == "gate":
                r, c = _int(mode, "row"), _int(mode, "col")
                g["idx"] = (r, c)
                if mode is None:
                    req += [r >= b2i(flag), r < n, c >= 0, c < n]
                args = dict(c_sys=c_sys, gate_index=(r, c), on_para_eq_constraint=flag)
            else:
                x, r, c = _int(mode, "x"), _int(mode, "row"), _int(mode, "col")
                g["idx"] = (x, r, c)
                if mode is None:
                    last = z3.And(flag, x == m - 1) if z3.is_expr(flag) else (flag and x == m - 1)
                    req += [x >= 0, x < m, c >= 0, c < n, r < n, r >= z3.If(last, 1, 0)]
                args = dict(c_sys=c_sys, mprocess_index=(x, r, c), hss=vecs, on_para_eq_constraint=flag)
        return dict(args=args, requires=req, ghost=g)

    def layout_eq(g, idx, v):
        """the layout equation: object index `idx` holds variable `v`"""
        n, m, f = g["n"], g["m"], b2i(g["flag"])
        if kind == "state":
            return v == idx[0] - f
        if kind == "povm":
            return v == idx[0] * n + idx[1]
        if kind == "gate":
            return v == n * (idx[0] - f) + idx[1]
        x, r, c = idx
        last = z3.If(z3.And(g["flag"], x == m - 1), 1, 0) if z3.is_expr(g["flag"]) or z3.is_expr(x) else int(g["flag"] and x == m - 1)
        return v == x * n * n + r * n + c - last * n

    def in_range(g, idx):
        n, m, f = g["n"], g["m"], b2i(g["flag"])
        if kind == "state":
            return z3.And(idx[0] >= f, idx[0] < n)           # entry 0 is implied when the flag is on
        if kind == "povm":
            return z3.And(idx[0] >= 0, idx[0] < m - f, idx[1] >= 0, idx[1] < n)   # last element implied
        if kind == "gate":
            return z3.And(idx[0] >= f, idx[0] < n, idx[1] >= 0, idx[1] < n)       # row 0 implied
        x, r, c = idx
        last = z3.And(g["flag"], x == m - 1)
        return z3.And(x >= 0, x < m, c >= 0, c < n, r < n, r >= z3.If(last, 1, 0))   # row 0 of the last hs implied

    def facts(ctx):
        g = ctx.ghost
        n = g["n"]
        out = [n >= 1] if z3.is_expr(n) else []
        if direction == "fwd":
            v = g["v"]
            # instances of Euclid's lemma at the quotients / remainders the code computes
            if kind in ("povm", "gate"):
                out.append(z3.And(v == (v / n) * n + v % n, v % n >= 0, v % n < n))
            if kind == "mprocess":
                nn = n * n
                mi = v % nn
                out += [z3.And(v == (v / nn) * nn + mi, mi >= 0, mi < nn),
                        z3.And(mi == (mi / n) * n + mi % n, mi % n >= 0, mi % n < n), nn >= 1, nn == n * n]
        return out

    def post(ctx):
        g = ctx.ghost
        if ctx.kind == "raise":
            return [("returns-normally", z3.BoolVal(False))]
        res = ctx.value
        if direction == "fwd":
            idx = res if isinstance(res, tuple) else (res,)
            return [("returns-normally", z3.BoolVal(True)),
                    ("points-at-the-entry", layout_eq(g, idx, g["v"])),
                    ("in-range-and-not-implied", in_range(g, idx))]
        nvar = {"state": g["n"] - b2i(g["flag"]), "povm": (g["m"] - b2i(g["flag"])) * g["n"],
                "gate": g["n"] * g["n"] - b2i(g["flag"]) * g["n"],
                "mprocess": g["m"] * g["n"] * g["n"] - b2i(g["flag"]) * g["n"]}[kind]
        return [("returns-normally", z3.BoolVal(True)),
                ("is-the-layout-equation", layout_eq(g, g["idx"], res)),
                ("0<=result<num_variables", z3.And(res >= 0, res < nvar))]

    def canary(ctx):
        g = ctx.ghost
        if ctx.kind == "raise":
            return []
        res = ctx.value
        if direction == "fwd":
            idx = res if isinstance(res, tuple) else (res,)
            return [("points-at-the-entry", layout_eq(g, idx, g["v"] + 1))]
        return [("is-the-layout-equation", layout_eq(g, g["idx"], res + 1))]

    def concretize(model, inputs, ghost):
        out = dict(d=py_of(model, ghost["d"]), m=py_of(model, ghost["m"]), flag=bool(py_of(model, ghost["flag"])))
        if direction == "fwd":
            out["v"] = py_of(model, ghost["v"])
        else:
            names = {"state": ["s"], "povm": ["x", "i"], "gate": ["row", "col"], "mprocess": ["x", "row", "col"]}[kind]
            for nm, t in zip(names, ghost["idx"]):
                out[nm] = py_of(model, t)
        return out

    def native_call(a):
        from qverif.core import native as N
        f = N.resolve(target)
        d, m, flag = a["d"], a["m"], a["flag"]
        cs, arrs = native_csys(d), native_arrs(m, d * d)
        try:
            if direction == "fwd":
                v = a["v"]
                if kind == "state":
                    return ("return", f(v, flag))
                if kind == "povm":
                    return ("return", f(cs, arrs, v, flag))
                if kind == "gate":
                    return ("return", f(cs, v, flag))
                return ("return", f(cs, arrs, v, flag))
            if kind == "state":
                return ("return", f(a["s"], flag))
            if kind == "povm":
                return ("return", f(cs, arrs, (a["x"], a["i"]), flag))
            if kind == "gate":
                return ("return", f(cs, (a["row"], a["col"]), flag))
            return ("return", f(cs, (a["x"], a["row"], a["col"]), arrs, flag))
        except Exception as e:  # noqa
            return ("raise", type(e).__name__)

    def nat_layout(a, idx, v):
        n, m, f = a["d"] ** 2, a["m"], int(a["flag"])
        if kind == "state":
            return v == idx[0] - f
        if kind == "povm":
            return v == idx[0] * n + idx[1]
        if kind == "gate":
            return v == n * (idx[0] - f) + idx[1]
        x, r, c = idx
        return v == x * n * n + r * n + c - (n if (a["flag"] and x == m - 1) else 0)

    def nat_range(a, idx):
        n, m, f = a["d"] ** 2, a["m"], int(a["flag"])
        if kind == "state":
            return f <= idx[0] < n
        if kind == "povm":
            return 0 <= idx[0] < m - f and 0 <= idx[1] < n
        if kind == "gate":
            return f <= idx[0] < n and 0 <= idx[1] < n
        x, r, c = idx
        return 0 <= x < m and 0 <= c < n and (1 if (a["flag"] and x == m - 1) else 0) <= r < n

    def native_check(a, outcome):
        if outcome[0] != "return":
            return {"returns-normally": False}
        res = outcome[1]
        if direction == "fwd":
            idx = tuple(int(t) for t in res) if isinstance(res, tuple) else (int(res),)
            return {"returns-normally": True, "points-at-the-entry": nat_layout(a, idx, a["v"]),
                    "in-range-and-not-implied": nat_range(a, idx)}
        names = {"state": ["s"], "povm": ["x", "i"], "gate": ["row", "col"], "mprocess": ["x", "row", "col"]}[kind]
        idx = tuple(a[nm] for nm in names)
        n, m, f = a["d"] ** 2, a["m"], int(a["flag"])
        nvar = {"state": n - f, "povm": (m - f) * n, "gate": n * n - f * n, "mprocess": m * n * n - f * n}[kind]
        return {"returns-normally": True, "is-the-layout-equation": nat_layout(a, idx, int(res)),
                "0<=result<num_variables": 0 <= int(res) < nvar}

    def canary_native(a, outcome):
        if outcome[0] != "return":
            return {}
        t = native_check(a, outcome)
        key = "points-at-the-entry" if direction == "fwd" else "is-the-layout-equation"
        return {key: not t[key]}

    c = Contract(target, make_inputs, post, facts=facts, canary=canary, concretize=concretize, native_check=native_check,
                 native_call=native_call, prop="C03", scope="unbounded",
                 clause_text={"points-at-the-entry": "the returned object index satisfies the layout equation for var index v",
                              "in-range-and-not-implied": "the returned index is inside the object and never an implied entry",
                              "is-the-layout-equation": "the returned var index is the layout equation's value",
                              "0<=result<num_variables": "0 <= result < number of variables"})
    c.canary_native = canary_native
    c.lemmas = []
    return c


class _AbsList(SymSeq):
    """list of arrays abstracted to (length m, common element object)"""

    def __init__(self, m, elem):
        self.length = m
        self.elem = elem
        self.shape = "int"
        self.arrays = []
        self.name = "abslist"

    def get(self, k):
        return self.elem

    def snapshot(self):
        return self


def gen(kind, direction):
    def g(rng):
        d = rng.randint(1, 4)
        m = rng.randint(1, 4)
        flag = rng.random() < 0.5
        n = d * d
        f = int(flag)
        a = dict(d=d, m=m, flag=flag)
        nvar = {"state": n - f, "povm": (m - f) * n, "gate": n * n - f * n, "mprocess": m * n * n - f * n}[kind]
        if direction == "fwd":
            a["v"] = rng.randint(0, max(nvar - 1, 0))
            return a
        if kind == "state":
            a["s"] = rng.randint(f, max(n - 1, f))
        elif kind == "povm":
            a["x"], a["i"] = rng.randint(0, max(m - f - 1, 0)), rng.randint(0, n - 1)
        elif kind == "gate":
            a["row"], a["col"] = rng.randint(f, max(n - 1, f)), rng.randint(0, n - 1)
        else:
            x = rng.randint(0, m - 1)
            lo = 1 if (flag and x == m - 1) else 0
            a["x"], a["row"], a["col"] = x, rng.randint(lo, max(n - 1, lo)), rng.randint(0, n - 1)
        return a
    return g


TARGETS = {
    ("state", "fwd"): "quara.objects.state:convert_var_index_to_state_index",
    ("state", "bwd"): "quara.objects.state:convert_state_index_to_var_index",
    ("povm", "fwd"): "quara.objects.povm:convert_var_index_to_povm_index",
    ("povm", "bwd"): "quara.objects.povm:convert_povm_index_to_var_index",
    ("gate", "fwd"): "quara.objects.gate:convert_var_index_to_gate_index",
    ("gate", "bwd"): "quara.objects.gate:convert_gate_index_to_var_index",
    ("mprocess", "fwd"): "quara.objects.mprocess:convert_var_index_to_mprocess_index",
    ("mprocess", "bwd"): "quara.objects.mprocess:convert_mprocess_index_to_var_index",
}

"""C01 (state part): verdicts of State against their definitions."""
from qverif.symtwin.verify import E2Contract, eq, true, Raised
from ._cfg import make_csys, DIMS, obj_state

ST = "quara.objects.state"


def atol_input(mk):
    atol = mk.real("atol")
    mk.require(atol >= 1e-13)
    mk.require(atol <= 1e-2)
    return atol


def sample_with_atol(cfg, names, rng):
    vals = {n: rng.uniform(-1.5, 1.5) for n in names}
    if "atol" in vals:
        vals["atol"] = 10 ** rng.uniform(-13, -2)
    return vals


class StateTraceOne(E2Contract):
    name = "State.is_trace_one"
    prop = "C01"
    targets = (ST + ":State.is_trace_one", ST + ":State.is_eq_constraint_satisfied")
    sample = staticmethod(sample_with_atol)

    def configs(self, tier):
        return [("1q", None), ("1qt", None), ("1q", "pauli"), ("1q", "hermitian"), ("2q", None)] + \
            ([("qxqt", None)] if tier == "thorough" else [])

    def inputs(self, W, cfg, mk):
        c_sys = make_csys(W, *cfg)
        return dict(state=obj_state(W, mk, c_sys), atol=atol_input(mk))

    def sample(self, cfg, names, rng):
        return sample_with_atol(cfg, names, rng)

    def run(self, W, cfg, inp):
        return [inp["state"].is_trace_one(inp["atol"]), inp["state"].is_eq_constraint_satisfied(inp["atol"])]

    def post(self, W, cfg, inp, out):
        S = W.S
        rho = S.op_from_vec(inp["state"].composite_system, inp["state"].vec)
        tr = S.trace(rho)
        spec = S.And(S.abs(tr.real - 1) <= inp["atol"], S.abs(tr.imag) <= inp["atol"]) if False else (S.abs(tr.real - 1) <= inp["atol"])
        return [eq("verdict/is_trace_one", out[0], spec, "is_trace_one(atol) <=> |Tr(sum v_a B_a) - 1| <= atol (atol the only slack)"),
                eq("verdict/is_eq_constraint_satisfied", out[1], spec, "is_eq_constraint_satisfied(atol) <=> the same")]

    def canary(self, W, cfg, inp, out):
        S = W.S
        rho = S.op_from_vec(inp["state"].composite_system, inp["state"].vec)
        return [eq("canary", out[0], S.abs(S.trace(rho).real - 1) <= 2 * inp["atol"], "(false) tolerance 2*atol")]

"""C18 Lindbladian generators: jobs"""
from .C02 import e2_jobs, META as _M

META = dict(_M)
CLASSES = ["contracts.C18_all:GenerateFromHJK", "contracts.C18_all:ExtractAndParts", "contracts.C18_all:Verdicts"]


def jobs(tier, seed):
    return e2_jobs("C18", CLASSES, tier, seed)


CLAIM = {'engine': 'E2-symtwin', 'level': 'proof',
 'text': 'Generators built from symbolic Hermitian H, J, K (all four builders, slow and sparse helper variants) are proved to have the HS matrix of the GKSL action written on operators; extracting (H, J, K) and the H/J/K/D parts from a generator is proved to invert the construction and to sum to the whole; is_tp <=> first row within atol, is_cp <=> K PSD (spectrum trusted), the equality projection zeroes exactly the first row, to_gate is expm of the HS matrix, variable round trip.',
 'note': 'all-inputs@config (1 qubit; qutrit in thorough). Not decided: CPTP-ness of the exponential of a physical generator (Lindblad theorem T4 assumed, expm opaque), the inequality projection (uses the general eig, not modelled), jump-operator builders, time/strength scaling of the random generators. Floats as reals.',
 'technique': 'contract-based deductive verification (symbolic execution of the real source -> VCs, normaliser + z3)'}

"""C18 Lindbladian generators: jobs"""
from .C02 import e2_jobs, META as _M

META = dict(_M)
CLASSES = ["contracts.C18_all:GenerateFromHJK", "contracts.C18_all:ExtractAndParts", "contracts.C18_all:Verdicts", "contracts.C18_all:IneqProjection", "contracts.C18_jump:JumpOperators"]


def _native(fn, **kw):
    from . import C18_native as C
    return getattr(C, fn)(**kw)


def jobs(tier, seed):
    from qverif.core.runner import Job
    js = e2_jobs("C18", CLASSES, tier, seed)
    # bounded stand-in (native floats): the random generators are physical generators
    js.append(Job("C18/random-lindbladian-generators (instances)", "contracts.C18:_native",
                  dict(fn="job_random_lindbladians", tier=tier, seed=seed, prop="C18"), timeout_s=900.0))
    return js


CLAIM = {'engine': 'E2-symtwin', 'level': 'proof',
 'text': 'Generators built from symbolic Hermitian H, J, K (all four builders, slow and sparse helper variants) are proved to have the HS matrix of the GKSL action written on operators; extracting (H, J, K) and the H/J/K/D parts from a generator is proved to invert the construction and to sum to the whole; is_tp <=> first row within atol, is_cp <=> K PSD (spectrum trusted), the equality projection zeroes exactly the first row, the inequality projection returns the generator of (H, J, sum max(w_k,0) v_k v_k^dagger) for the library eigenpairs of K, every part in the default Hermitian-basis mode is the HS matrix of its own map and the dissipator part is J part + K part, to_gate is expm of the HS matrix, the variable round trip on the rows that carry variables; generators built from symbolic jump operators act as sum c rho c^dagger - 1/2 {c^dagger c, rho}. 1 qubit and 1 qutrit.',
 'note': 'all-inputs@config (1 qubit, 1 qutrit). Not decided: CPTP-ness of the exponential of a physical generator (Lindblad theorem T4 assumed, expm opaque); that the inequality projection is the positive part rests on numpy.linalg.eig\'s contract for Hermitian input (V unitary, V diag(w) V^dagger == K: assumed, eig modelled as opaque for Hermitian input only); time/strength scaling of the random generators. Bounded stand-in (never counted as proved): the RANDOM generators of the simulation layer (random H part, random dissipator of a given strength) are evaluated natively on seeded draws (1 qubit, 1 qutrit, three strength settings): trace preserving, K positive semidefinite, exp(L) CPTP, noisy object physical. Floats as reals. Observation outside the property statement (no clause, not claimed): with on_para_eq_constraint=True convert_var_to_effective_lindbladian inserts the row (1,0,..,0) -- the gate convention -- where a trace-preserving generator has a zero first row.',
 'technique': 'contract-based deductive verification (symbolic execution of the real source -> VCs, normaliser + z3)'}

"""configuration helpers shared by E2 contracts (work in both worlds)"""

SYSTEMS_QUICK = ["1q", "1qt"]
SYSTEMS_LINEAR_QUICK = ["1q", "1qt", "2q"]
SYSTEMS_THOROUGH = ["1q", "1qt", "2q", "qxqt"]


def make_csys(W, name, basis=None):
    """composite systems of the property's scope: 1q, 1qt, 2q, qxqt (+ basis variants for 1q)"""
    cst = W.mod("quara.objects.composite_system_typical")
    mb = W.mod("quara.objects.matrix_basis")
    es = W.mod("quara.objects.elemental_system")
    cs = W.mod("quara.objects.composite_system")
    if name == "1q":
        if basis in (None, "npauli"):
            return cst.generate_composite_system("qubit", 1)
        b = {"pauli": mb.get_pauli_basis, "hermitian": mb.get_hermitian_basis, "comp": mb.get_comp_basis}[basis]()
        return cs.CompositeSystem([es.ElementalSystem(0, b)])
    if name == "1qt":
        return cst.generate_composite_system("qutrit", 1)
    if name == "2q":
        return cst.generate_composite_system("qubit", 2)
    if name == "qxqt":
        e0 = es.ElementalSystem(0, mb.get_normalized_pauli_basis())
        e1 = es.ElementalSystem(1, mb.get_normalized_gell_mann_basis())
        return cs.CompositeSystem([e0, e1])
    raise ValueError(name)


def split_layout(cfg):
    """'1q/F' -> ('1q', 'F'): the input array is handed over in Fortran memory order (a transposed view)"""
    name, _, layout = cfg.partition("/")
    return name, layout


def as_layout(x, layout):
    """an arbitrary matrix stays arbitrary under transposition; the view has Fortran memory order"""
    return x.T if layout else x


DIMS = {"1q": 2, "1qt": 3, "2q": 4, "qxqt": 6}


# ------------------------------------------------------------------ symbolic / native object builders

def obj_state(W, mk, c_sys, name="v", on_para=True, **kw):
    d = c_sys.dim
    vec = mk.array(name, d * d)
    return W.mod("quara.objects.state").State(c_sys, vec, is_physicality_required=False,
                                              on_para_eq_constraint=on_para, **kw)


def obj_povm(W, mk, c_sys, m, name="p", on_para=True, **kw):
    d = c_sys.dim
    vecs = [mk.array(f"{name}{x}", d * d) for x in range(m)]
    return W.mod("quara.objects.povm").Povm(c_sys, vecs, is_physicality_required=False,
                                            on_para_eq_constraint=on_para, **kw)


def obj_gate(W, mk, c_sys, name="g", on_para=True, **kw):
    n = c_sys.dim ** 2
    hs = mk.array(name, (n, n))
    return W.mod("quara.objects.gate").Gate(c_sys, hs, is_physicality_required=False,
                                            on_para_eq_constraint=on_para, **kw)


def obj_mprocess(W, mk, c_sys, m, name="mp", on_para=True, shape=None, **kw):
    n = c_sys.dim ** 2
    hss = [mk.array(f"{name}{x}", (n, n)) for x in range(m)]
    return W.mod("quara.objects.mprocess").MProcess(c_sys, hss, shape=shape, is_physicality_required=False,
                                                    on_para_eq_constraint=on_para, **kw)


def stacked(W, obj):
    """the object's defining arrays as one list (for comparisons)"""
    t = type(obj).__name__
    if t == "State":
        return [obj.vec]
    if t == "Povm":
        return list(obj.vecs)
    if t == "Gate":
        return [obj.hs]
    if t == "MProcess":
        return list(obj.hss)
    if t == "EffectiveLindbladian":
        return [obj.hs]
    raise TypeError(t)

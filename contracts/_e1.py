"""helpers shared by E1 contracts"""
import z3

from qverif.pyvc.values import SymSeq, ConcSeq
from qverif.pyvc.verify import py_of


def int_seq(name, mode, key=None, length=None):
    """a list-of-int input in the three input modes.
    symbolic: SymSeq (z3 arrays + symbolic length); bounded n: python list of n fresh ints;
    concrete: python list of python ints"""
    if mode is None:
        return SymSeq.fresh("int", name, length)
    if mode[0] == "bounded":
        n = mode[1][key or name]
        return [z3.Int(f"{name}_{i}") for i in range(n)]
    if mode[0] == "concrete":
        return list(mode[1][key or name])
    raise ValueError(mode)


def seq_len(v):
    return v.length if isinstance(v, SymSeq) else z3.IntVal(len(v))


def seq_get(v, k):
    if isinstance(v, SymSeq):
        return v.get(k)
    return ConcSeq(v).get(k)


def forall_range(n, body, bound=None):
    """quantified hypothesis  forall k in [0,n): body(k)  -- only used as an ASSUMPTION (requires)."""
    k = z3.Int("k!q")
    return z3.ForAll([k], z3.Implies(z3.And(k >= 0, k < n), body(k)))


def product_bounds(names, max_len):
    """all length assignments with each length in 0..max_len"""
    import itertools
    out = []
    for combo in itertools.product(range(max_len + 1), repeat=len(names)):
        out.append(dict(zip(names, combo)))
    return out

"""C03 variables <-> objects: jobs"""
from qverif.core.runner import Job
from .C02 import e2_jobs, META as _M

META = dict(_M)
META["trusted_base"] = _M["trusted_base"] + ["E1 pyvc VC generator (qverif/pyvc)"]
CLASSES = ["contracts.C03_e2:VarObjectRoundTrip", "contracts.C03_e2:FlagOffObjectRoundTrip", "contracts.C03_e2:GradientIndicator", "contracts.C03_e2:SetQOperationsIndexing"]


def job_index(kind, direction, seed=0, timeout_s=10.0):
    from qverif.pyvc.verify import verify
    from . import C03_index as I
    target = I.TARGETS[(kind, direction)]
    return verify(I.mk(target, kind, direction), f"C03/{target.split(':')[1]}", timeout_s=timeout_s, seed=seed,
                  gen_concrete=I.gen(kind, direction))


def jobs(tier, seed):
    t = 30.0 if tier == "quick" else 90.0
    js = e2_jobs("C03", CLASSES, tier, seed)
    for kind in ("state", "povm", "gate", "mprocess"):
        for direction in ("fwd", "bwd"):
            js.append(Job(f"C03/index/{kind}/{direction}", "contracts.C03:job_index",
                          dict(kind=kind, direction=direction, seed=seed, timeout_s=t)))
    return js


CLAIM = {'engine': 'E2-symtwin + E1-pyvc', 'level': 'proof',
 'text': 'Round trips object<->variables<->stacked vector, implied entries, index-points-at-entry and gradient indicators are discharged for ALL real variable vectors per configuration by symbolic execution of the unmodified source (E2); the eight local index maps are proved unbounded in dimension, outcome count and index from their AST (E1: layout equation, range, never an implied entry).',
 'note': 'all-inputs@config for E2 (1q, 1qt, 2q; m in 2..3 quick, 2..5 thorough; both flags), unbounded for E1. Floats as reals; numpy model trusted; z3. SetQOperations global index maps and tomography num_variables are covered under C08 contracts when present.',
 'technique': 'contract-based deductive verification (AST->VC with z3; symbolic execution of the real source -> VCs)'}

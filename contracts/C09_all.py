"""C09: linear estimation inverts the forward model exactly.

Tester sets are concrete and exact (elements of Q(sqrt 2, sqrt 3)); the data vector f is symbolic and
completely unconstrained (not even normalised), sample counts are symbolic.  The inverse of A^T A is
computed exactly over the constant field by the model (Gaussian elimination), so the normal equations
A^T (A v + b - f) = 0 are a polynomial identity in f."""
import math

from qverif.symtwin.verify import E2Contract, eq, true, Raised
from ._cfg import make_csys, DIMS, stacked
from .C03_e2 import n_var, empty_obj
from .C08_all import build_qt, UNKNOWN, schedule_variants
from .C06_all import spec_chain, serial

STD = "quara.protocol.qtomography.standard."


def exact_testers(W, s, over_complete=False):
    """informationally complete tester sets written down exactly (not through the catalogue)"""
    np = W.np
    c_sys = make_csys(W, s)
    d = c_sys.dim
    State = W.mod("quara.objects.state").State
    Povm = W.mod("quara.objects.povm").Povm
    kw = dict(is_physicality_required=False)
    if s == "1q":
        r = 1 / np.sqrt(2)
        svecs = [[1, 1, 0, 0], [1, 0, 1, 0], [1, 0, 0, 1], [1, 0, 0, -1]]
        if over_complete:
            svecs += [[1, -1, 0, 0], [1, 0, -1, 0]]
        states = [State(c_sys, r * np.array(v, dtype=np.float64), **kw) for v in svecs]
        pv = [([1, 1, 0, 0], [1, -1, 0, 0]), ([1, 0, 1, 0], [1, 0, -1, 0]), ([1, 0, 0, 1], [1, 0, 0, -1])]
        povms = [Povm(c_sys, [r * np.array(a, dtype=np.float64), r * np.array(b, dtype=np.float64)], **kw) for a, b in pv]
        if over_complete:
            # a 3-outcome (trine-like) POVM in the x-z plane: mixed outcome counts
            t = [[1, 1, 0, 0], [1, -0.5, 0, 0.5], [1, -0.5, 0, -0.5]]
            povms.append(Povm(c_sys, [(2 / 3) * r * np.array(v, dtype=np.float64) for v in t], **kw))
        return c_sys, states, povms
    if s == "1qt":
        # states |k><k| (3) and the +/- superpositions of each pair (x- and y-type): 9 linearly independent states
        comp = c_sys.comp_basis()
        mb = W.mod("quara.objects.matrix_basis")
        def from_density(rho):
            v = mb.convert_vec(rho.flatten(), comp, c_sys.basis())
            return State(c_sys, v.real.astype(np.float64), **kw)
        dens = []
        for k in range(3):
            m = np.zeros((3, 3), dtype=np.complex128)
            m[k, k] = 1
            dens.append(m)
        for a, b in ((0, 1), (0, 2), (1, 2)):
            for ph in (1, 1j):
                m = np.zeros((3, 3), dtype=np.complex128)
                m[a, a] = 0.5
                m[b, b] = 0.5
                m[a, b] = 0.5 * np.conjugate(ph) if hasattr(ph, "imag") and ph != 1 else 0.5
                m[b, a] = 0.5 * ph
                dens.append(m)
        states = [from_density(m) for m in dens]
        # POVMs: for each of the 9 states rho_k the 2-outcome POVM {rho_k, I - rho_k}; 8 of them + one 3-outcome projective
        povms = []
        ident = np.eye(3, dtype=np.complex128)
        def povm_from(mats):
            vecs = [mb.convert_vec(m.flatten(), comp, c_sys.basis()).real.astype(np.float64) for m in mats]
            return Povm(c_sys, vecs, **kw)
        povms.append(povm_from(dens[:3]))
        for m in dens[3:]:
            povms.append(povm_from([m, ident - m]))
        return c_sys, states, povms
    raise ValueError(s)


class LinearEstimate(E2Contract):
    name = "LinearEstimator"
    prop = "C09"
    targets = (STD + "linear_estimator:LinearEstimator.calc_estimate", STD + "linear_estimator:LinearEstimator.calc_estimate_sequence",
               STD + "standard_qtomography_estimator:StandardQTomographyEstimationResult.estimated_qoperation",
               STD + "standard_qtomography_estimator:StandardQTomographyEstimationResult.estimated_qoperation_sequence",
               STD + "standard_qtomography:StandardQTomography.is_fullrank_matA")
    frame = True
    n_conformance = 1

    def configs(self, tier):
        out = []
        for kind in ("qst", "povmt", "qpt", "qmpt"):
            for on_para in (True, False):
                out.append(("1q", kind, on_para, False))
        out += [("1q", "qst", True, True), ("1q", "povmt", False, True), ("1qt", "qst", True, False)]
        # custom schedule lists (a 5th component): the full list reversed / with its first schedule repeated at the end
        out += [("1q", "povmt", True, False, "permutation"), ("1q", "qst", True, False, "permutation"), ("1q", "qpt", True, False, "repetition"),
                ("1q", "povmt", False, False, "repetition")]
        if tier == "thorough":
            out += [("1q", "qmpt", True, False, "permutation"), ("1q", "qpt", False, False, "permutation"), ("1q", "qst", False, False, "repetition")]
            out += [("1q", "qpt", True, True), ("1qt", "povmt", True, False), ("1qt", "qst", False, False)]
        return out

    @staticmethod
    def _schedules(cfg, n_states, n_povms):
        """(argument for the tomography class, the concrete schedule list it stands for)"""
        variants, full = schedule_variants(cfg[1], n_states, n_povms)
        v = cfg[4] if len(cfg) > 4 else "all"
        return variants[v], (full if v == "all" else variants[v])

    def _setup(self, W, cfg):
        s, kind, on_para, over = cfg[:4]
        c_sys, states, povms = exact_testers(W, s, over)
        m_unknown = 3 if kind == "povmt" else 2
        testers = dict(states=states, povms=povms)
        qt = build_qt(W, kind, testers, on_para, m_unknown, self._schedules(cfg, len(states), len(povms))[0])
        return c_sys, qt, m_unknown

    def inputs(self, W, cfg, mk):
        s, kind, on_para, over = cfg[:4]
        try:
            c_sys, qt, m_unknown = self._setup(W, cfg)
        except Exception as e:  # noqa  -- the tomography class could not be constructed: an outcome of the real code, judged in run()
            from qverif.core.errors import Undecided
            if isinstance(e, Undecided):
                raise
            return dict(construction_error=e)
        sizes = [qt.num_outcomes(j) for j in range(qt.num_schedules)]
        f = [mk.array(f"f{j}_", sizes[j]) for j in range(qt.num_schedules)]
        g = [mk.array(f"g{j}_", sizes[j]) for j in range(qt.num_schedules)]
        n1, n2 = mk.real("n1"), mk.real("n2")
        x = mk.array("x", n_var(UNKNOWN[kind], c_sys.dim, m_unknown, on_para))
        return dict(qt=qt, f=f, g=g, n1=n1, n2=n2, x=x, sizes=sizes)

    def sample(self, cfg, names, rng):
        vals = {n: rng.uniform(-1, 1) for n in names}
        vals["n1"], vals["n2"] = 100.0, 250.0
        return vals

    def run(self, W, cfg, inp):
        np = W.np
        if "construction_error" in inp:
            raise inp["construction_error"]
        qt = inp["qt"]
        est = W.mod(STD + "linear_estimator").LinearEstimator()
        A, b = qt.calc_matA(), qt.calc_vecB()
        d1 = [(inp["n1"], fj) for fj in inp["f"]]
        d2 = [(inp["n2"], gj) for gj in inp["g"]]
        r1 = est.calc_estimate(qt, d1)
        r2 = est.calc_estimate(qt, d2)
        rs = est.calc_estimate_sequence(qt, [d1, d2])
        # exact data of the object that the variables x denote: the Born statistics of every schedule's circuit, computed by the
        # reference semantics (NOT through the model A, b under test: a model that disagrees with the circuits must not go unnoticed)
        s, kind, on_para, over = cfg[:4]
        c_sys, states, povms = exact_testers(W, s, over)
        ukind = UNKNOWN[kind]
        tmpl = empty_obj(W, ukind, c_sys, 3 if kind == "povmt" else 2, on_para)
        unknown = tmpl.generate_from_var(W.np.copy(inp["x"]))
        _, full = self._schedules(cfg, len(states), len(povms))
        exact = []
        for sch in full:
            chain = []
            for k_, i in reversed(sch):
                if k_ == ukind:
                    chain.append((k_, stacked(W, unknown)))
                elif k_ == "state":
                    chain.append((k_, [states[i].vec]))
                else:
                    chain.append((k_, list(povms[i].vecs)))
            _, probs = spec_chain(W, c_sys, chain)
            counts = [len(a) for k2, a in reversed(chain) if k2 in ("mprocess", "povm")]
            exact.append((inp["n1"], W.np.array(serial(probs, counts))))
        rx = est.calc_estimate(qt, exact)
        # different sample counts attached to the same data
        r1b = est.calc_estimate(qt, [((inp["n2"] if j % 2 else 3 * inp["n1"]), fj) for j, fj in enumerate(inp["f"])])
        return dict(A=A, b=b, v1=r1.estimated_var, v2=r2.estimated_var, seq=list(rs.estimated_var_sequence), vx=rx.estimated_var,
                    v1b=r1b.estimated_var, obj1=stacked(W, r1.estimated_qoperation),
                    obj_seq=[stacked(W, o) for o in rs.estimated_qoperation_sequence], full_rank=qt.is_fullrank_matA(),
                    seq_first_var=rs.estimated_var, seq_first_obj=stacked(W, rs.estimated_qoperation))

    def post(self, W, cfg, inp, out):
        np = W.np
        qt = inp["qt"]
        A, b = out["A"], out["b"]
        fvec = np.hstack(inp["f"])
        resid = A @ out["v1"] + b - fvec
        tmpl = qt._template_qoperation
        return [eq("normal-equations", A.T @ resid, 0 * (A.T @ resid),
                   "A^T (A v + b - f) == 0 for EVERY data vector f: the residual is orthogonal to the model"),
                eq("exact-data=>exact-recovery", out["vx"], inp["x"], "f == A x + b  =>  estimate == x, for every x"),
                eq("sequence==pointwise", out["seq"], [out["v1"], out["v2"]], "estimating a sequence gives the list of single estimates"),
                eq("independent-of-sample-counts", out["v1b"], out["v1"], "the estimate does not depend on the sample counts attached to the data (counts differing between schedules)"),
                eq("estimated_qoperation", out["obj1"], stacked(W, tmpl.generate_from_var(out["v1"])), "estimated_qoperation == generate_from_var(estimated_var)"),
                eq("estimated_qoperation_sequence", out["obj_seq"], [stacked(W, tmpl.generate_from_var(v)) for v in (out["v1"], out["v2"])], "likewise for sequences"),
                eq("sequence-result/singular-accessors==first-dataset", [out["seq_first_var"], out["seq_first_obj"]],
                   [out["v1"], stacked(W, tmpl.generate_from_var(out["v1"]))],
                   "estimated_var / estimated_qoperation of a multi-dataset result are the estimate of the FIRST dataset (the one estimating it alone gives)"),
                eq("full-column-rank", out["full_rank"], True, "informationally complete testers => the model has full column rank (exact rank)")]

    def canary(self, W, cfg, inp, out):
        return [eq("canary", out["vx"], inp["x"] * 2, "(false) exact data recovers 2x")]


from .C08_all import ForwardModel as _ForwardModel


class ModelInvertedUnderC09(_ForwardModel):
    """the affine model the linear estimator inverts (C08's contract), on the tomography types whose model builder has branches that the
    two-outcome configurations above do not reach: measurement processes and POVMs with three outcomes, constraint built in"""
    prop = "C09"

    def configs(self, tier):
        return [("1q", "qmpt", True, "all", 3), ("1q", "povmt", True, "all", 3)]

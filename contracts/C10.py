"""C10 constrained estimators (partial): jobs"""
from .C02 import e2_jobs, META as _M

META = dict(_M)
META["level"] = "other"
META["explanation"] = ("Partial: the wiring that makes the constrained estimators physical is proved (constraint flags -> the right projection for all three "
                       "projected-gradient algorithms; projected linear estimate = physical projection of the linear estimate in the configured order; start "
                       "point = origin object). That the returned estimate IS physical to stopping accuracy, or recovers exact data, depends on convergence "
                       "(theorems T2, T3) and termination and is not decided.")
META["not_decided"] = ["estimate physical to the accuracy of the stopping thresholds (convergence of Dykstra / projected gradient)",
                       "exact recovery from exact data by the iterative estimators", "termination"]
CLASSES = ["contracts.C10_all:ConstraintWiring", "contracts.C10_all:ProjectedLinear", "contracts.C10_all:StartPoint", "contracts.C10_all:DykstraUnderC10"]


def job_backtracking_loop(n, mode, seed=0, timeout_s=10.0):
    """the C11 loop-invariant contract of the backtracking loop, under C10: every iterate is a projection or a convex combination of feasible points"""
    from qverif.pyvc.verify import verify
    from . import C11_e1 as C
    return verify(C.optimize_contract(n, mode, True, True, prop="C10"), f"C10/backtracking-loop[n={n},{mode}]", timeout_s=timeout_s, seed=seed)


def job_armijo(n, seed=0, timeout_s=30.0):
    """the Armijo test the backtracking loop's contract is stated over (C11's contract, re-checked under C10)"""
    from qverif.pyvc.verify import verify
    from . import C11_e1 as C
    return verify(C.armijo_contract(n, prop="C10"), f"C10/_is_doing_for_alpha[n={n}]", timeout_s=timeout_s, seed=seed)


def job_projected_iterates(algo, n, mode, seed=0, timeout_s=30.0):
    """momentum / PFISTA loops: every iterate is a projection output"""
    from qverif.pyvc.verify import verify
    from . import C11_e1 as C
    return verify(C.projected_iterates_contract(algo, n, mode, prop="C10"), f"C10/{algo}-loop[n={n},{mode}]", timeout_s=timeout_s, seed=seed)


def jobs(tier, seed):
    from qverif.core.runner import Job
    from . import C11_e1 as C
    js = e2_jobs("C10", CLASSES, tier, seed)
    for algo in ("momentum", "fista"):
        for mode in C.MODES:
            js.append(Job(f"C10/{algo}-loop/{mode}", "contracts.C10:job_projected_iterates",
                          dict(algo=algo, n=2, mode=mode, seed=seed, timeout_s=30.0 if tier == "quick" else 90.0), timeout_s=600.0))
    for mode in C.MODES:
        js.append(Job(f"C10/backtracking-loop/{mode}", "contracts.C10:job_backtracking_loop",
                      dict(n=2, mode=mode, seed=seed, timeout_s=30.0 if tier == "quick" else 90.0), timeout_s=600.0))
    js.append(Job("C10/armijo/2", "contracts.C10:job_armijo", dict(n=2, seed=seed, timeout_s=30.0 if tier == "quick" else 90.0)))
    # bounded stand-in (native floats): the projected linear estimates themselves
    parts = 3 if tier == "quick" else 12
    for part in range(parts):
        js.append(Job(f"C10/estimator-outcomes (instances)/{part}", "contracts.C11:native_estimators",
                      dict(prop="C10", tier=tier, seed=seed, part=part, parts=parts), timeout_s=1800.0))
    return js

CLAIM = {'engine': 'E2-symtwin + E1-pyvc', 'level': 'other',
 'text': 'PARTIAL. With the constraint projections as uninterpreted functions the wiring that makes the constrained estimators physical is proved on the unmodified code: set_constraint_from_standard_qt_and_option installs, for all three projected-gradient algorithms, all tomography types and both parametrisations, exactly the physical / equality-only / inequality-only / identity projection the two constraint flags name (the physical one being Dykstra\'s scheme of C05); the projected linear estimate is precisely to_var(calc_proj_physical(linear estimate)) in the estimator\'s projection order, with and without timing, one estimate per dataset, inputs unchanged; without var_start the backtracking algorithm starts at the origin object (maximally mixed state / uniform POVM / trace-preserving gate).',
 'note': 'NOT decided by proof: that the returned estimate is physical to the accuracy of the stopping thresholds and recovers exact data (convergence of Dykstra and of projected gradient: theorems, not contracts over one call), termination. Bounded stand-in (never counted as proved): on seeded one-qubit tomography instances the real projected linear estimator must return a physical estimate and the true object from exact data (the loss-minimisation estimator likewise, reported under C11). Feasibility of every backtracking iterate given the projection contract (C11\'s loop-invariant contract) and the Dykstra recurrence of calc_proj_physical (C05\'s contract) are re-checked under C10 as the callee contracts it rests on. Observation (not a violation of the property as stated): the algorithm option mode_proj_order is accepted and ignored by func_calc_proj_physical_with_var; the template object\'s order is used.',
 'technique': 'contract-based deductive verification with uninterpreted callee contracts (symbolic execution of the real code, z3)'}

"""C10 / C11, bounded stand-in: where the constrained estimators END (what the loop-invariant proofs leave undecided), on the real code, native floats.

One-qubit state / POVM / process tomography with informationally complete exact testers, both parametrisations; true objects in the interior and on the
boundary of the physical set (pure state, projective POVM, unitary gate); exact data, 100 and 10000 shots (seeded multinomial samples of the model's own
prediction).  Projected linear estimator (C10): the estimate is physical, exact data return the true object.  Loss-minimisation estimator with the
backtracking projected-gradient algorithm (C11; squared-error and relative-entropy losses, tomography-specialised implementations, identity weights): the
estimate is physical; its loss is not larger than the loss at the true object, at the projected linear estimate, at physical projections of random
perturbations of the estimate (local = global optimality: the problem is convex) and at the CVXPY / SCS solution of the same problem; exact data return the
true object.  BOUNDED: seeded instances, tolerances 1e-6 (loss) / 1e-5 (distance); never counted as proved."""
import contextlib
import warnings
import io
import random

import numpy as np

from .C17_enum import Tally
from .C04_native import _Ref, _flat
from .C05_native import physical_arrays, _build

STD = "quara.protocol.qtomography.standard."
LF = "quara.loss_function."
PG = "quara.minimization_algorithm.projected_gradient_descent_backtracking"
CV = "quara.interface.cvxpy.qtomography.standard."

LOSSES = {"squared": ("standard_qtomography_based_weighted_probability_based_squared_error", "StandardQTomographyBasedWeightedProbabilityBasedSquaredError"),
          "entropy": ("standard_qtomography_based_weighted_relative_entropy", "StandardQTomographyBasedWeightedRelativeEntropy")}


def _world():
    from qverif.symtwin.verify import World
    from spec.qspec import factory
    return World(False, None, factory)


def _boundary_arrays(ref, ukind, rng, m=2):
    """a physical object on the boundary of the physical set: pure state, projective measurement, unitary gate"""
    d = ref.d
    G = np.array([[complex(rng.gauss(0, 1), rng.gauss(0, 1)) for _ in range(d)] for _ in range(d)])
    U, _ = np.linalg.qr(G)
    if ukind == "state":
        psi = U[:, 0]
        return [ref.vec(np.outer(psi, psi.conj()))]
    if ukind == "povm":
        if m == d:
            return [ref.vec(np.outer(U[:, k], U[:, k].conj())) for k in range(d)]
        # m rank-one elements (d/m) |psi_k><psi_k| with the psi_k a rotated tight frame (trine for a qubit, m = 3)
        import cmath
        frame = [np.array([cmath.exp(2j * cmath.pi * k * j / m) for j in range(d)]) / np.sqrt(d) for k in range(m)]
        return [ref.vec((d / m) * np.outer(U @ f, (U @ f).conj())) for f in frame]
    B = ref.B
    hs = np.array([[np.trace(B[a].conj().T @ U @ B[b] @ U.conj().T).real for b in range(d * d)] for a in range(d * d)])
    return [hs]


def job_estimators(tier="quick", seed=0, part=0, parts=1):
    from .C09_all import exact_testers, build_qt
    warnings.simplefilter("ignore")
    W = _world()
    rng = random.Random(9000 + seed + 31 * part)
    c_sys, states, povms = exact_testers(W, "1q", False)
    ref = _Ref(c_sys)
    t10 = Tally(f"estimator-outcomes[part {part + 1} of {parts}]", [STD + "projected_linear_estimator:ProjectedLinearEstimator.calc_estimate"], prop="C10", what="instance")
    t11 = Tally(f"estimator-outcomes[part {part + 1} of {parts}]", [STD + "loss_minimization_estimator:LossMinimizationEstimator.calc_estimate",
                                                                    PG + ":ProjectedGradientDescentBacktracking.optimize",
                                                                    CV + "estimator:CvxpyLossMinimizationEstimator.calc_estimate"], prop="C11", what="instance")
    cfgs = [(kind, ukind, on_para, where) for kind, ukind in (("qst", "state"), ("povmt", "povm"), ("povmt3", "povm"), ("qpt", "gate")) for on_para in (True, False)
            for where in ("interior", "boundary")]
    cfgs = [c for k, c in enumerate(cfgs) if k % parts == part]
    reps = 1 if tier == "quick" else 4
    for (kind, ukind, on_para, where) in cfgs:
        m_unknown = 3 if kind == "povmt3" else 2
        qt = build_qt(W, kind.rstrip("3"), dict(states=states, povms=povms), on_para, m_unknown, "all")
        for rep in range(reps):
            arrays = physical_arrays(ref, ukind, m_unknown, rng) if where == "interior" else _boundary_arrays(ref, ukind, rng, m_unknown)
            true = _build(ukind, c_sys, arrays, on_para)
            tv = _flat(true)
            probs = [np.clip(np.asarray(p, dtype=float), 0, None) for p in qt.calc_prob_dists(true)]
            nprng = np.random.default_rng(rng.randrange(1 << 30))
            for shots in (None, 100, 10000):
                if shots is None:
                    data = [(1000, p / p.sum()) for p in probs]
                else:
                    data = [(shots, nprng.multinomial(shots, p / p.sum()) / shots) for p in probs]
                fl = "flag-on" if on_para else "flag-off"
                tag = f"[{kind},{fl},{'exact' if shots is None else shots}]"
                entry = (kind, on_para, where, rep, shots)
                # ---------------- C10: projected linear estimator
                try:
                    with contextlib.redirect_stdout(io.StringIO()):
                        rp = W.mod(STD + "projected_linear_estimator").ProjectedLinearEstimator().calc_estimate(qt, data, is_computation_time_required=False)
                    err = None
                except Exception as e:  # noqa
                    rp, err = None, e
                t10.check(f"projected-linear/returns-normally{tag}", err is None, entry, "the projected linear estimator returns", "" if err is None else f"raised {type(err).__name__}: {str(err)[:100]}")
                if rp is not None:
                    ok = bool(rp.estimated_qoperation.is_physical(1e-6, 1e-6))
                    t10.check(f"projected-linear/estimate-physical{tag}", ok, entry, "the estimate is physical (1e-6)", "")
                    if shots is None:
                        dv = float(np.abs(_flat(rp.estimated_qoperation) - tv).max())
                        t10.check(f"projected-linear/exact-data=>true-object[{kind},{fl}]", dv <= 1e-5, entry, "exact data of a physical object return that object", f"max deviation {dv:.3e}")
                # ---------------- C11: loss minimisation
                for lossn in ("squared", "entropy"):
                    ltag = f"[{kind},{fl},{lossn},{'exact' if shots is None else shots}]"
                    modn, clsn = LOSSES[lossn]
                    lmod = W.mod(LF + modn)
                    loss = getattr(lmod, clsn)()
                    lopt = getattr(lmod, clsn + "Option")("identity")
                    pg = W.mod(PG)
                    algo, aopt = pg.ProjectedGradientDescentBacktracking(), pg.ProjectedGradientDescentBacktrackingOption()
                    est = W.mod(STD + "loss_minimization_estimator").LossMinimizationEstimator()
                    try:
                        with contextlib.redirect_stdout(io.StringIO()):
                            r = est.calc_estimate(qt, data, loss, lopt, algo, aopt, is_computation_time_required=False)
                        err = None
                    except Exception as e:  # noqa
                        r, err = None, e
                    t11.check(f"loss-minimisation/returns-normally{ltag}", err is None, entry, "the loss-minimisation estimator returns",
                              "" if err is None else f"raised {type(err).__name__}: {str(err)[:100]}")
                    if r is None:
                        continue
                    eo = r.estimated_qoperation
                    ev = np.asarray(r.estimated_var, dtype=float)
                    t11.check(f"loss-minimisation/estimate-physical{ltag}", bool(eo.is_physical(1e-6, 1e-6)), entry, "the estimate is physical (1e-6)", "")
                    t10.check(f"loss-minimisation/estimate-physical{ltag}", bool(eo.is_physical(1e-6, 1e-6)), entry,
                              "the loss-minimisation estimate (backtracking projected gradient, both constraints on) is physical (1e-6)", "")
                    lv = float(loss.value(ev))
                    tol = 1e-6 * max(1.0, abs(lv))
                    comp = [("the true object", float(loss.value(true.to_var())))]
                    if rp is not None:
                        comp.append(("the projected linear estimate", float(loss.value(np.asarray(rp.estimated_var, dtype=float)))))
                    for sc_ in (1e-1, 1e-2, 1e-3):
                        for _ in range(3):
                            try:
                                y = eo.generate_from_var(ev + sc_ * np.array([rng.gauss(0, 1) for _ in range(len(ev))]))
                                with contextlib.redirect_stdout(io.StringIO()):
                                    y = y.calc_proj_physical(max_iteration=20000)
                                yphys = bool(y.is_physical(1e-9, 1e-9))
                            except Exception:  # noqa  -- no competitor from this draw (the projection is C05's business)
                                yphys = False
                            if yphys:
                                comp.append((f"a physical point at distance about {sc_:g}", float(loss.value(y.to_var()))))
                    worst = min(comp, key=lambda c: c[1])
                    t11.check(f"loss-minimisation/not-worse-than-physical-competitors{ltag}", lv <= worst[1] + tol, entry,
                              "loss(estimate) <= loss(y) for physical competitors y: the true object, the projected linear estimate, physical points near the estimate",
                              f"loss {lv:.6e} at the estimate, {worst[1]:.6e} at {worst[0]}")
                    if shots is None:
                        dv = float(np.abs(_flat(eo) - tv).max())
                        t11.check(f"loss-minimisation/exact-data=>true-object[{kind},{fl},{lossn}]", dv <= (1e-3 if lossn == "entropy" else 1e-5), entry,
                                  "exact data of a physical object return that object", f"max deviation {dv:.3e}")
                        t10.check(f"loss-minimisation/exact-data=>true-object[{kind},{fl},{lossn}]", dv <= (1e-3 if lossn == "entropy" else 1e-5), entry,
                                  "exact data of a physical object return that object", f"max deviation {dv:.3e}")
                    # CVXPY / SCS solution of the same problem
                    # (the CVXPY interface refuses tomography objects with the constraint not built in: ValueError by design)
                    if on_para and (lossn == "squared" or tier == "thorough"):
                        try:
                            cl = W.mod(CV + "loss_function")
                            ca = W.mod(CV + "minimization_algorithm")
                            closs = cl.CvxpyUniformSquaredError() if lossn == "squared" else cl.CvxpyRelativeEntropy()
                            with contextlib.redirect_stdout(io.StringIO()):
                                rc = W.mod(CV + "estimator").CvxpyLossMinimizationEstimator().calc_estimate(
                                    qt, data, closs, cl.CvxpyLossFunctionOption(), ca.CvxpyMinimizationAlgorithm(), ca.CvxpyMinimizationAlgorithmOption("scs", eps_tol=1e-10),
                                    is_computation_time_required=False)
                            cv = float(loss.value(np.asarray(rc.estimated_var, dtype=float)))
                            cphys = bool(rc.estimated_qoperation.is_physical(1e-5, 1e-5))
                        except Exception as e:  # noqa
                            cv, cphys = None, False
                        t11.check(f"cvxpy-scs/returns-a-physical-estimate{ltag}", cv is not None and cphys, entry,
                                  "the CVXPY / SCS estimator returns, and its estimate is physical (1e-5)", "raised" if cv is None else "estimate not physical at 1e-5")
                        if cv is not None and cphys:
                            t11.check(f"loss-minimisation/agrees-with-cvxpy-scs{ltag}", abs(lv - cv) <= 1e-5 * max(1.0, abs(lv)), entry,
                                      "the loss at the backtracking estimate equals the loss at the CVXPY / SCS solution of the same problem (1e-5)",
                                      f"loss {lv:.6e} (backtracking) vs {cv:.6e} (CVXPY / SCS)")
    return t10.results("one-qubit tomography instances (bounded)") + t11.results("one-qubit tomography instances (bounded)")

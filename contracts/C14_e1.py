"""C14 (E1 part): the inverse-CDF sampler and the empirical-distribution counter, unbounded in data length.

Ghost definitions (instances only):
  C(0) = 0, C(k+1) = C(k) + p[k]                                   (prefix sums of the probability vector)
  cnt_v(0) = 0, cnt_v(t+1) = cnt_v(t) + (data[t] == v ? 1 : 0)      (occurrences of outcome v among the first t data)
Quantified facts are proved for an arbitrary-but-fixed position kk (skolem constant)."""
import z3

from qverif.pyvc.engine import Contract, LoopSpec
from qverif.pyvc.values import SymSeq, NdVec
from qverif.pyvc.verify import py_of
from fractions import Fraction

DG = "quara.qcircuit.data_generator"
Cf = z3.Function("Cpre", z3.IntSort(), z3.RealSort())


# ------------------------------------------------------------------ _random_number_to_data

def sampler_contract():
    def make_inputs(mode=None):
        if mode is not None and mode[0] == "bounds":
            return dict(bounds=[dict(n=k) for k in range(1, mode[1] + 2)])
        if mode is None:
            p = SymSeq.fresh("real", "p")
            n = p.length
            get = p.get
        elif mode[0] == "bounded":
            k = mode[1]["n"]
            items = [z3.Real(f"p_{i}") for i in range(k)]
            p, n = items, z3.IntVal(k)
            get = lambda i: _sel(items, i)
        else:
            items = [z3.RealVal(str(Fraction(repr(float(x))))) for x in mode[1]["probdist"]]
            p, n = items, z3.IntVal(len(items))
            get = lambda i: _sel(items, i)
        if mode is not None and mode[0] == "concrete":
            r = z3.RealVal(str(Fraction(repr(float(mode[1]["random_number"])))))
            atol = z3.RealVal("1/10000000000000")
        else:
            r, atol = z3.Real("r"), z3.Real("atol")
        kk = z3.Int("kk")
        req = [n >= 1, r >= 0, r < 1, atol > 0, atol <= z3.RealVal("1/100"), kk >= 0, kk < n,
               # what the only caller establishes with validate_prob_dist(eps=atol):
               Cf(n) - 1 <= atol, 1 - Cf(n) <= atol]
        g = dict(p=p, n=n, r=r, atol=atol, kk=kk, get=get)
        if mode is not None and mode[0] != "concrete":
            req += [get(z3.IntVal(i)) >= -atol for i in range(len(p))]
        return dict(args=dict(probdist=p, random_number=r), requires=req, ghost=g)

    def _sel(items, i):
        i = z3.simplify(i) if z3.is_expr(i) else z3.IntVal(i)
        if z3.is_int_value(i):
            k = i.as_long()
            return items[k] if 0 <= k < len(items) else z3.RealVal(0)
        out = z3.RealVal(0)
        for k in range(len(items) - 1, -1, -1):
            out = z3.If(i == k, items[k], out)
        return out

    def ax(g, k):
        n = g["n"]
        return [z3.Implies(z3.And(k >= 0, k < n), z3.And(Cf(k + 1) == Cf(k) + g["get"](k), g["get"](k) >= -g["atol"]))]

    def base(g):
        out = [Cf(0) == 0]
        if isinstance(g["p"], list):
            for k in range(len(g["p"])):
                out += ax(g, z3.IntVal(k))
        return out

    def loop_facts(ctx, t):
        g = ctx.ghost
        return base(g) + ax(g, t) + ax(g, t - 1) + ax(g, g["kk"])

    def invariant(ctx, t):
        g = ctx.ghost
        cum = ctx.env["cumulative_sum"]
        return [("cum==prefix-sum", cum == Cf(t)),
                ("r>=all-earlier-prefix-sums", z3.Implies(g["kk"] < t, g["r"] >= Cf(g["kk"] + 1))),
                ("r>=cum", z3.Implies(t > 0, g["r"] >= Cf(t)))]

    def post(ctx):
        g = ctx.ghost
        if ctx.kind == "raise":
            return [("returns-normally", z3.BoolVal(False))]
        res = ctx.value
        return [("returns-normally", z3.BoolVal(True)),
                ("in-range", z3.And(res >= 0, res < g["n"])),
                ("never-a-zero-probability-outcome", g["get"](res) > 0),
                ("smallest-index-with-r<cumulative", z3.Implies(g["kk"] < res, g["r"] >= Cf(g["kk"] + 1))),
                ("r<cumulative-at-result-when-some-index-qualifies", z3.Implies(g["r"] < Cf(g["n"]), g["r"] < Cf(res + 1)))]

    def facts(ctx):
        g = ctx.ghost
        res = ctx.value if ctx.kind == "return" else None
        out = base(g) + ax(g, g["kk"])
        if res is not None and z3.is_expr(res):
            out += ax(g, res) + ax(g, g["n"] - 1)
        return out

    def canary(ctx):
        g = ctx.ghost
        if ctx.kind == "raise":
            return []
        return [("in-range", z3.And(ctx.value >= 1, ctx.value < g["n"]))]

    def concretize(model, inputs, ghost):
        p = ghost["p"]
        vals = py_of(model, p, 8)
        return dict(probdist=[float(v) for v in vals], random_number=float(py_of(model, ghost["r"])))

    def native_call(a):
        from qverif.core import native as N
        import numpy as np
        f = N.resolve(DG + ":_random_number_to_data")
        try:
            return ("return", int(f(np.array(a["probdist"], dtype=np.float64), np.float64(a["random_number"]))))
        except Exception as e:  # noqa
            return ("raise", type(e).__name__)

    def native_check(a, outcome):
        p, r = a["probdist"], a["random_number"]
        if outcome[0] != "return":
            return {"returns-normally": False}
        res = outcome[1]
        atol = 1e-13
        pre_ok = all(x >= -1e-2 - 1e-9 for x in p) and abs(sum(p) - 1) <= 1e-2 + 1e-9 and 0 <= r < 1 and len(p) >= 1
        cums, c = [], 0.0
        for x in p:
            c += x
            cums.append(c)
        qualifies = [k for k, c in enumerate(cums) if r < c]
        return {"returns-normally": True, "in-range": 0 <= res < len(p),
                "never-a-zero-probability-outcome": (p[res] > 0) if (0 <= res < len(p) and pre_ok) else True,
                "smallest-index-with-r<cumulative": (not qualifies) or res <= qualifies[0] if pre_ok else True,
                "r<cumulative-at-result-when-some-index-qualifies": (not qualifies) or (r < cums[res]) if pre_ok else True}

    def canary_native(a, outcome):
        if outcome[0] != "return":
            return {}
        return {"in-range": 1 <= outcome[1] < len(a["probdist"])}

    def invariant2(ctx, t):
        # second loop (fallback, walks the indices downwards): every index examined so far has probability <= 0,
        # so the suffix sum over them is <= 0; the first loop's exit fact (r >= every prefix sum) is carried along
        g = ctx.ghost
        n = g["n"]
        return [("examined-suffix-sum<=0", Cf(n) - Cf(n - t) <= 0),
                ("r>=all-prefix-sums", z3.Implies(z3.And(g["kk"] >= 0, g["kk"] < n), g["r"] >= Cf(g["kk"] + 1)))]

    def loop2_facts(ctx, t):
        g = ctx.ghost
        n = g["n"]
        return base(g) + ax(g, n - 1 - t) + ax(g, n - t) + ax(g, g["kk"])

    loops = {0: LoopSpec("for (index, prob) in enumerate(probdist)", invariant, facts=loop_facts),
             1: LoopSpec("for index in reversed(range(len(probdist)))", invariant2, facts=loop2_facts)}
    c = Contract(DG + ":_random_number_to_data", make_inputs, post, loops=loops, facts=facts, canary=canary, concretize=concretize,
                 native_check=native_check, native_call=native_call, prop="C14", scope="unbounded (all lengths, all probability vectors the caller admits, all r in [0,1))",
                 clause_text={"in-range": "0 <= result < len(probdist)",
                              "never-a-zero-probability-outcome": "probdist[result] > 0: generated data contain only outcomes of non-zero probability",
                              "smallest-index-with-r<cumulative": "no earlier index k has r < p_0 + .. + p_k (inverse CDF)",
                              "r<cumulative-at-result-when-some-index-qualifies": "if some index qualifies, the result does"})
    c.canary_native = canary_native
    return c


def sampler_gen(rng):
    n = rng.randint(1, 6)
    w = [rng.random() if rng.random() < 0.8 else 0.0 for _ in range(n)]
    if sum(w) == 0:
        w[0] = 1.0
    s = sum(w)
    return dict(probdist=[x / s for x in w], random_number=rng.random())


# ------------------------------------------------------------------ calc_empi_dist_sequence

def cnt_fn(v):
    return z3.Function(f"cnt{v}", z3.IntSort(), z3.IntSort())


def empi_contract(m):
    """m = measurement_num (concrete); data and num_sums of symbolic length"""
    from qverif.pyvc.values import Obj
    shape = ("tuple", ("int", ("vec", m, "real")))
    cnt = [cnt_fn(v) for v in range(m)]

    def make_inputs(mode=None):
        if mode is not None and mode[0] == "bounds":
            return dict(bounds=[dict(N=a, K=b) for a in range(0, mode[1] + 2) for b in range(0, 3)])
        if mode is None:
            data = SymSeq.fresh("int", "data")
            ns = SymSeq.fresh("int", "ns")
            N, K = data.length, ns.length
            dget, nget = data.get, ns.get
            req = [N >= 0, K >= 0]
        else:
            if mode[0] == "bounded":
                dl = [z3.Int(f"d_{i}") for i in range(mode[1]["N"])]
                nl = [z3.Int(f"ns_{i}") for i in range(mode[1]["K"])]
            else:
                dl = [z3.IntVal(int(x)) for x in mode[1]["data"]]
                nl = [z3.IntVal(int(x)) for x in mode[1]["num_sums"]]
            data, ns = dl, nl
            N, K = z3.IntVal(len(dl)), z3.IntVal(len(nl))
            dget = lambda i: _sel(dl, i)
            nget = lambda i: _sel(nl, i)
            req = [x >= 1 for x in nl] if mode[0] == "bounded" else []
        kk = z3.Int("kk")
        req += [kk >= 0, kk < K]
        return dict(args=dict(measurement_num=m, data=data, num_sums=ns), requires=req,
                    ghost=dict(N=N, K=K, dget=dget, nget=nget, kk=kk, data=data, ns=ns))

    def _sel(items, i):
        i = z3.simplify(i) if z3.is_expr(i) else z3.IntVal(i)
        if z3.is_int_value(i):
            k = i.as_long()
            return items[k] if 0 <= k < len(items) else z3.IntVal(0)
        out = z3.IntVal(0)
        for k in range(len(items) - 1, -1, -1):
            out = z3.If(i == k, items[k], out)
        return out

    def cnt_ax(g, t):
        return [z3.Implies(z3.And(t >= 0, t < g["N"]), cnt[v](t + 1) == cnt[v](t) + z3.If(g["dget"](t) == v, 1, 0)) for v in range(m)]

    def ns_ax(g, k):
        return [z3.Implies(z3.And(k >= 0, k < g["K"]), g["nget"](k) >= 1)]      # requires: every requested size is >= 1

    def base(g):
        out = [cnt[v](0) == 0 for v in range(m)]
        if isinstance(g["data"], list):
            for t in range(len(g["data"])):
                out += cnt_ax(g, z3.IntVal(t))
        return out

    def out_len(v):
        return v.length if isinstance(v, SymSeq) else z3.IntVal(len(v))

    def out_get(v, k):
        if isinstance(v, SymSeq):
            return v.get(k)
        if len(v) == 0:
            return (z3.IntVal(0), NdVec([z3.RealVal(0)] * m, "real"))
        out = v[-1]
        from qverif.pyvc.values import ite_value
        for i in range(len(v) - 2, -1, -1):
            out = ite_value(k == i, v[i], out)
        return out

    def entry_spec(g, entry, k):
        """entry == (num_sums[k], counts of the first num_sums[k] data / num_sums[k])"""
        n_k = g["nget"](k)
        conds = [entry[0] == n_k]
        for v in range(m):
            conds.append(entry[1].items[v] == z3.ToReal(cnt[v](n_k)) / z3.ToReal(n_k))
        return z3.And(conds)

    def invariant(ctx, t):
        g = ctx.ghost
        N, K, kk = g["N"], g["K"], g["kk"]
        env = ctx.env
        pos, nns = env["next_num_sum_position"], env["next_num_sum"]
        freq = env["cumulative_frequency"]
        out = env["empi_dists"]
        inv = [("0<=pos<K", z3.And(pos >= 0, pos < K)),
               ("next==num_sums[pos]", nns == g["nget"](pos)),
               ("len(out)==pos", out_len(out) == pos),
               ("t<next<=N", z3.And(t < nns, nns <= N)),
               ("freq==count-of-prefix", z3.And([freq.items[v] == cnt[v](t) for v in range(m)])),
               ("counts-sum-to-t", z3.Sum([cnt[v](t) for v in range(m)]) == t),
               ("earlier-entries-are-prefix-frequencies", z3.Implies(kk < pos, z3.And(entry_spec(g, out_get(out, kk), kk), g["nget"](kk) <= t, g["nget"](kk) >= 1))),
               ("counts-at-recorded-sizes-sum", z3.Implies(kk < pos, z3.Sum([cnt[v](g["nget"](kk)) for v in range(m)]) == g["nget"](kk)))]
        return inv

    def loop_facts(ctx, t):
        g = ctx.ghost
        pos = ctx.env["next_num_sum_position"]
        return base(g) + cnt_ax(g, t) + cnt_ax(g, t - 1) + ns_ax(g, g["kk"]) + ns_ax(g, pos) + ns_ax(g, pos + 1) + ns_ax(g, z3.IntVal(0))

    def post(ctx):
        g = ctx.ghost
        N, K, kk = g["N"], g["K"], g["kk"]
        if ctx.kind == "raise":
            return [("raises-only-ValueError", z3.BoolVal(ctx.exc == "ValueError"))]
        res = ctx.value
        ent = out_get(res, kk)
        n_k = g["nget"](kk)
        return [("raises-only-ValueError", z3.BoolVal(True)),
                ("one-entry-per-requested-size", out_len(res) == K),
                ("entry==prefix-frequencies", entry_spec(g, ent, kk)),
                ("entries-nonnegative", z3.And([ent[1].items[v] >= 0 for v in range(m)])),
                ("entries-sum-to-one", z3.Sum([ent[1].items[v] for v in range(m)]) == 1)]

    def facts(ctx):
        g = ctx.ghost
        out = base(g) + ns_ax(g, g["kk"])
        # counts are non-negative (definition) at the recorded size
        n_k = g["nget"](g["kk"])
        out += [cnt[v](n_k) >= 0 for v in range(m)]
        # instance of the arithmetic lemma "frequencies of counts that sum to n sum to one" (discharged on its own below)
        out += [z3.Implies(z3.And(n_k >= 1, z3.Sum([cnt[v](n_k) for v in range(m)]) == n_k),
                           z3.Sum([z3.ToReal(cnt[v](n_k)) / z3.ToReal(n_k) for v in range(m)]) == 1)]
        if isinstance(g["data"], list):
            L = len(g["data"])
            out += [z3.Implies(z3.And(n_k >= 0, n_k <= L), z3.Or([n_k == j for j in range(L + 1)]))]
        return out

    def canary(ctx):
        g = ctx.ghost
        if ctx.kind == "raise":
            return []
        ent = out_get(ctx.value, g["kk"])
        return [("entry==prefix-frequencies", ent[0] == g["nget"](g["kk"]) + 1)]

    def concretize(model, inputs, ghost):
        return dict(data=[int(x) for x in py_of(model, ghost["data"], 8)], num_sums=[int(x) for x in py_of(model, ghost["ns"], 6)])

    def native_call(a):
        from qverif.core import native as N_
        f = N_.resolve(DG + ":calc_empi_dist_sequence")
        try:
            r = f(m, list(a["data"]), list(a["num_sums"]))
            return ("return", [(int(n), [float(x) for x in dist]) for n, dist in r])
        except Exception as e:  # noqa
            return ("raise", type(e).__name__)

    def native_check(a, outcome):
        data, ns = a["data"], a["num_sums"]
        if outcome[0] == "raise":
            return {"raises-only-ValueError": outcome[1] == "ValueError"}
        res = outcome[1]
        pre = all(x >= 1 for x in ns)
        ok_entries, nonneg, sums = True, True, True
        for k, (n, dist) in enumerate(res):
            if k >= len(ns) or n != ns[k] or n > len(data):
                ok_entries = False
                continue
            counts = [sum(1 for d in data[:n] if d == v) for v in range(m)]
            if any(abs(dist[v] - counts[v] / n) > 1e-12 for v in range(m)):
                ok_entries = False
            nonneg = nonneg and all(x >= 0 for x in dist)
            sums = sums and abs(sum(dist) - 1) < 1e-9
        return {"raises-only-ValueError": True, "one-entry-per-requested-size": (len(res) == len(ns)) or not pre,
                "entry==prefix-frequencies": ok_entries or not pre, "entries-nonnegative": nonneg or not pre, "entries-sum-to-one": sums or not pre}

    def canary_native(a, outcome):
        if outcome[0] != "return" or not outcome[1]:
            return {}
        return {"entry==prefix-frequencies": False}

    np_obj = Obj("np", methods={"zeros": lambda ctx, n, dtype=None: NdVec([z3.IntVal(0)] * int(n if not isinstance(n, tuple) else n[0]), "int")})
    loops = {0: LoopSpec("for (index, d) in enumerate(data)", invariant, shapes={"empi_dists": ("seq", shape), "empidist": ("vec", m, "real")},
                         facts=loop_facts)}
    c = Contract(DG + ":calc_empi_dist_sequence", make_inputs, post, loops=loops, facts=facts, canary=canary, concretize=concretize,
                 native_check=native_check, native_call=native_call, globals_={"np": np_obj}, prop="C14",
                 scope=f"unbounded in data length and number of requested sizes; measurement_num = {m}",
                 clause_text={"one-entry-per-requested-size": "the result has one entry per requested sample size, aligned with num_sums",
                              "entry==prefix-frequencies": "entry k == (num_sums[k], counts of exactly the first num_sums[k] data / num_sums[k])",
                              "entries-nonnegative": "every empirical probability is >= 0",
                              "entries-sum-to-one": "every empirical distribution sums to one",
                              "raises-only-ValueError": "rejections are ValueError"})
    c.canary_native = canary_native
    lc = [z3.Int(f"lc{v}") for v in range(m)]
    ln = z3.Int("ln")
    c.lemmas = [("frequencies-sum-to-one", [ln >= 1, z3.Sum(lc) == ln], z3.Sum([z3.ToReal(x) / z3.ToReal(ln) for x in lc]) == 1)]
    return c


def empi_gen(m):
    def g(rng):
        N = rng.randint(0, 8)
        data = [rng.randint(0, m - 1) for _ in range(N)]
        K = rng.randint(0, 3)
        ns = sorted(rng.sample(range(1, N + 1), min(K, N))) if N else []
        if rng.random() < 0.2:
            ns = ns + [N + 1]
        return dict(data=data, num_sums=ns)
    return g

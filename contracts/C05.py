"""C05 physical projection (partial): jobs"""
from .C02 import e2_jobs, META as _M

META = dict(_M)
META["level"] = "other"
META["explanation"] = ("Partial: the loop body of both physical-projection routines is proved to be Dykstra's recurrence for either order, with the two "
                       "constraint projections as uninterpreted functions; convergence / nearest-point-ness of the limit rests on the Boyle-Dykstra theorem (assumed) "
                       "and on C04; termination and stopping accuracy are not decided.")
META["not_decided"] = ["convergence to the nearest physical point (Boyle-Dykstra theorem T2 assumed)", "termination within max_iteration",
                       "accuracy implied by eps_proj_physical", "agreement with an independent SDP solve"]
CLASSES = ["contracts.C05_all:Dykstra"]


def jobs(tier, seed):
    return e2_jobs("C05", CLASSES, tier, seed)

CLAIM = {'engine': 'E2-symtwin', 'level': 'other',
 'text': 'PARTIAL. With the two constraint projections as uninterpreted functions, the unmodified calc_proj_physical and calc_proj_physical_with_var are executed for 1..3 sweeps on all paths of the stopping test: the x, y, p, q histories are proved to be exactly Dykstra\'s recurrence in the configured order (either order), the error values the documented quantity, the loop to stop iff error < eps (k >= 1), the returned point the last x, object-level = variable-level step by step, the closure = the routine, the argument unchanged.',
 'note': 'NOT decided (no contract over one call can state them): convergence of the iteration to the unique nearest physical point (Boyle-Dykstra theorem T2, assumed, together with C04: both projections are nearest-point projections onto closed convex sets), termination, the accuracy implied by eps_proj_physical, order-independence of the LIMIT, agreement with an SDP solve. Unrolled to 3 sweeps (each sweep is the same code path: the recurrence holds from an arbitrary (x,p,q) state by the same VC).',
 'technique': 'contract-based deductive verification with uninterpreted callee contracts (symbolic execution of the real loop, z3)'}

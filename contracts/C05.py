"""C05 physical projection (partial): jobs"""
from .C02 import e2_jobs, META as _M

META = dict(_M)
META["level"] = "other"
META["explanation"] = ("Partial: the loop body of both physical-projection routines is proved to be Dykstra's recurrence for either order, with the two "
                       "constraint projections as uninterpreted functions; convergence / nearest-point-ness of the limit rests on the Boyle-Dykstra theorem (assumed) "
                       "and on C04; termination and stopping accuracy are not decided.")
META["not_decided"] = ["convergence to the nearest physical point (Boyle-Dykstra theorem T2 assumed)", "termination within max_iteration",
                       "accuracy implied by eps_proj_physical", "agreement with an independent SDP solve"]
CLASSES = ["contracts.C05_all:Dykstra", "contracts.C05_all:EqStepUnderC05", "contracts.C05_all:EntryConversionUnderC05"]


def _native(fn, **kw):
    from . import C05_native as C
    return getattr(C, fn)(**kw)


def jobs(tier, seed):
    from qverif.core.runner import Job
    js = e2_jobs("C05", CLASSES, tier, seed)
    # bounded stand-in (native floats) for what the proof leaves open: where the iteration ends
    parts = 3 if tier == "quick" else 11
    for part in range(parts):
        js.append(Job(f"C05/physical-projection (instances)/{part}", "contracts.C05:_native",
                      dict(fn="job_physical_projection", tier=tier, seed=seed, part=part, parts=parts), timeout_s=1500.0))
    return js

CLAIM = {'engine': 'E2-symtwin', 'level': 'other',
 'text': 'PARTIAL. With the two constraint projections as uninterpreted functions, the unmodified calc_proj_physical and calc_proj_physical_with_var are executed for 1..3 sweeps on all paths of the stopping test: the x, y, p, q histories are proved to be exactly Dykstra\'s recurrence in the configured order (either order), the error values the documented quantity, the loop to stop iff error < eps (k >= 1), the returned point the last x, object-level = variable-level step by step, the closure = the routine, the argument unchanged.',
 'note': 'NOT decided by proof (no contract over one call can state them): convergence of the iteration to the unique nearest physical point (Boyle-Dykstra theorem T2, assumed, together with C04: both projections are nearest-point projections onto closed convex sets), termination, the accuracy implied by eps_proj_physical, order-independence of the LIMIT, agreement with an SDP solve. Unrolled to 3 sweeps (each sweep is the same code path: the recurrence holds from an arbitrary (x,p,q) state by the same VC). Bounded stand-in for those clauses (never counted as proved): the real routine is run natively on seeded random near-physical, physical and far inputs (norm 1, 10, 100) for every type with the default and a 1e-8 stopping threshold and must return a physical point (accuracy 10*sqrt(eps), floor 1e-5, relative to the input norm), satisfy the variational inequality against random physical competitors, return physical inputs unchanged, agree between both orders and between object and variable level, and end its history at the returned point; an SDP solve is not available offline. One known finding there: far points of norm 1e2 exhaust the default limit of 1000 iterations.',
 'technique': 'contract-based deductive verification with uninterpreted callee contracts (symbolic execution of the real loop, z3)'}

"""C06 composition: jobs"""
from .C02 import e2_jobs, META as _M

META = dict(_M)
CLASSES = ["contracts.C06_all:PairwiseFormulas", "contracts.C06_all:Associativity", "contracts.C06_all:ZeroProbabilityBranch", "contracts.C06_all:GenerateMProcess"]


def _native(fn, **kw):
    from . import C06_native as C
    return getattr(C, fn)(**kw)


def jobs(tier, seed):
    from qverif.core.runner import Job
    js = e2_jobs("C06", CLASSES, tier, seed)
    # bounded stand-in (native floats): the degenerate-eigenvalue branch of generate_mprocess(mode 1)
    js.append(Job("C06/generate_mprocess/degenerate-spectra (instances)", "contracts.C06:_native",
                  dict(fn="job_generate_mprocess_degenerate", tier=tier, seed=seed), timeout_s=600.0))
    return js


CLAIM = {'engine': 'E2-symtwin', 'level': 'proof',
 'text': 'Every supported pairwise composition is executed unmodified on symbolic operands (all real parameters on the equality-constraint set, pairwise different outcome counts) and proved equal to its quantum-mechanical formula written independently (Born rule, Heisenberg picture, post-measurement states, outcome layout earlier-measurement-first); every bracketing of every type-valid chain of length 3-4 (5 thorough) is proved to give the chain statistics, shape and post-states of the reference semantics; zero-probability outcomes and Povm.generate_mprocess (modes 0,1,2) likewise.',
 'note': 'all-inputs@config at 1 qubit (qutrit pairs in thorough); regular regime of every thresholded probability is a requires (p >= 2e-8), a zero-probability outcome is covered separately; modes 0/1 relative to the trusted sqrtm / eigh; mode 1 is proved for spectra whose eigenvalues are further apart than Settings.get_atol(), and its degenerate-eigenvalue branch (floats grouped by tolerance) is evaluated natively on a finite list of degenerate POVM instances (31 quick / 167 thorough) as a bounded stand-in, not counted as proved. Positivity of Born probabilities for PSD operands and physicality of compositions are mathematics, not decided. Floats as reals.',
 'technique': 'contract-based deductive verification (symbolic execution of the real source -> VCs, normaliser + z3)'}

"""C06 composition: jobs"""
from .C02 import e2_jobs, META as _M

META = dict(_M)
CLASSES = ["contracts.C06_all:PairwiseFormulas", "contracts.C06_all:Associativity"]


def jobs(tier, seed):
    return e2_jobs("C06", CLASSES, tier, seed)

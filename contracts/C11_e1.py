"""C11 (partial, E1): the backtracking projected-gradient loop -- "along a backtracking run the loss never increases and
every iterate is feasible" as LOOP INVARIANTS of the unmodified optimize(), for all losses, all closed convex sets, all
start points, all iteration counts (vector length n fixed per job).

Callees are replaced by their ASSUMED contracts (uninterpreted functions):
  loss_function.value = F, loss_function.gradient = G                                     (any functions whatsoever)
  self.func_proj = P with   inC(P(w))   and   <w - P(w), c - P(w)> <= 0  for c in C        (nearest-point projection onto C: C04/C05)
  C convex:  inC(a) & inC(b) & 0 <= s <= 1  =>  inC(a + s (b - a))                         (instantiated where needed)
  start point in C                                                                       (var_start / origin object: C01)
_is_doing_for_alpha is verified against its own contract (the Armijo test) and used through it.
Reals for floats.  NOT decided: termination of either loop, optimality (needs convexity + Lipschitz theory), CVXPY."""
import z3

from qverif.pyvc.engine import Contract, LoopSpec
from qverif.pyvc.values import NdVec, Obj, Func, OptVal, SymSeq

PG = "quara.minimization_algorithm.projected_gradient_descent_backtracking"
R = z3.RealSort()
MODES = ("single_difference_loss", "sum_absolute_difference_loss", "sum_absolute_difference_variable", "sum_absolute_difference_projected_gradient")


def funs(n):
    F = z3.Function("F", *([R] * n + [R]))
    G = [z3.Function(f"G{i}", *([R] * n + [R])) for i in range(n)]
    P = [z3.Function(f"P{i}", *([R] * n + [R])) for i in range(n)]
    inC = z3.Function("inC", *([R] * n + [z3.BoolSort()]))
    return F, G, P, inC


def vec(v):
    if isinstance(v, OptVal):
        v = v.value
    return list(v.items)


def dot(a, b):
    out = a[0] * b[0]
    for x, y in zip(a[1:], b[1:]):
        out = out + x * y
    return out


def np_stub(n):
    def _sqrt(ctx, v):
        r = ctx.fresh_real("sqrt")
        from qverif.pyvc.values import to_real
        ctx.assume(z3.And(r >= 0, r * r == to_real(v) if z3.is_expr(v) or isinstance(v, (int, float)) else r >= 0))
        return r

    def _sum(ctx, v):
        if isinstance(v, NdVec):
            out = v.items[0]
            for x in v.items[1:]:
                out = out + x
            return out
        return ctx.fresh_real("sum")        # sum over a window of the error history: any real

    def _abs(ctx, v):
        return z3.If(v >= 0, v, -v)

    def _dot(ctx, a, b):
        return dot(vec(a), vec(b))
    return Obj("np", methods=dict(sqrt=_sqrt, sum=_sum, abs=_abs, dot=_dot))


def armijo_contract(n, prop="C11"):
    """_is_doing_for_alpha(x, y, alpha, gamma, loss) == ( F(x + alpha y) > F(x) + gamma alpha <y, G(x)> )"""
    F, G, P, inC = funs(n)

    def make_inputs(mode=None):
        x = NdVec([z3.Real(f"x{i}") for i in range(n)], "real")
        y = NdVec([z3.Real(f"y{i}") for i in range(n)], "real")
        a, g = z3.Real("alpha"), z3.Real("gamma")
        loss = Obj("loss_function", methods=dict(value=lambda ctx, v, validate=False: F(*vec(v)),
                                                  gradient=lambda ctx, v: NdVec([Gi(*vec(v)) for Gi in G], "real")))
        return dict(args=dict(self=Obj("self"), x_prev=x, y_prev=y, alpha=a, gamma=g, loss_function=loss), requires=[],
                    ghost=dict(x=x, y=y, a=a, g=g))

    def post(ctx):
        if ctx.kind == "raise":
            return [("returns-normally", z3.BoolVal(False))]
        g = ctx.ghost
        x, y = vec(g["x"]), vec(g["y"])
        xn = [xi + g["a"] * yi for xi, yi in zip(x, y)]
        want = F(*xn) > F(*x) + g["g"] * g["a"] * dot(y, [Gi(*x) for Gi in G])
        return [("returns-normally", z3.BoolVal(True)), ("armijo-test", ctx.value == want)]

    def canary(ctx):
        if ctx.kind == "raise":
            return []
        return [("armijo-test", ctx.value == z3.BoolVal(True))]
    def concretize(model, inputs, ghost):
        from qverif.pyvc.verify import py_of
        x, y = vec(ghost["x"]), vec(ghost["y"])
        a, gm = ghost["a"], ghost["g"]
        xn = [xi + a * yi for xi, yi in zip(x, y)]
        f = lambda e: float(py_of(model, e))
        return dict(x=[f(v) for v in x], y=[f(v) for v in y], alpha=f(a), gamma=f(gm), Fx=f(F(*x)), Fxn=f(F(*xn)), Gx=[f(Gi(*x)) for Gi in G])

    def native_call(a):
        """the real method on a table-valued loss taken from the counter-model"""
        import numpy as np
        from qverif.core import native as N
        mod = N.native_import(PG)
        x, y = np.array(a["x"]), np.array(a["y"])
        xn = x + a["alpha"] * y

        class _L:
            def value(self, v, validate=False):
                return a["Fx"] if np.array_equal(np.asarray(v), x) else a["Fxn"]

            def gradient(self, v):
                return np.array(a["Gx"])
        alg = mod.ProjectedGradientDescentBacktracking(func_proj=lambda v: v)
        try:
            return ("return", bool(alg._is_doing_for_alpha(x, y, a["alpha"], a["gamma"], _L())))
        except Exception as e:  # noqa
            return ("raise", type(e).__name__)

    def native_check(a, outcome):
        import numpy as np
        if outcome[0] != "return":
            return {"returns-normally": False}
        lhs, rhs = a["Fxn"], a["Fx"] + a["gamma"] * a["alpha"] * float(np.dot(a["y"], a["Gx"]))
        if abs(lhs - rhs) <= 1e-9 * max(1.0, abs(lhs), abs(rhs)):
            return {"returns-normally": True}              # too close to call in floating point
        return {"returns-normally": True, "armijo-test": outcome[1] == (lhs > rhs)}

    def canary_native(a, outcome):
        if outcome[0] != "return":
            return {}
        return {"armijo-test": outcome[1] is True}

    def gen(rng):
        x = [rng.uniform(-2, 2) for _ in range(n)]
        y = [rng.uniform(-2, 2) for _ in range(n)]
        return dict(x=x, y=y, alpha=rng.choice([1.0, 0.5, 0.125]), gamma=rng.choice([0.3, 0.9]), Fx=rng.uniform(-3, 3), Fxn=rng.uniform(-3, 3),
                    Gx=[rng.uniform(-2, 2) for _ in range(n)])
    c = Contract(PG + ":ProjectedGradientDescentBacktracking._is_doing_for_alpha", make_inputs, post, globals_=dict(np=np_stub(n)), canary=canary,
                 concretize=concretize, native_call=native_call, native_check=native_check,
                 prop=prop, scope=f"all losses, all x, y, alpha, gamma (vector length {n})",
                 clause_text={"armijo-test": "continue halving iff loss(x + alpha y) > loss(x) + gamma alpha <y, grad loss(x)>"})
    c.canary_native = canary_native
    return c
    return Contract(PG + ":ProjectedGradientDescentBacktracking._is_doing_for_alpha", make_inputs, post, globals_=dict(np=np_stub(n)),
                    prop=prop, scope=f"all losses, all x, y, alpha, gamma (vector length {n})",
                    clause_text={"armijo-test": "continue halving iff loss(x + alpha y) > loss(x) + gamma alpha <y, grad loss(x)>"})


def optimize_contract(n, mode, mu_given, start_given, prop="C11"):
    F, G, P, inC = funs(n)

    def make_inputs(md=None):
        xs = NdVec([z3.Real(f"xs{i}") for i in range(n)], "real")        # the start point (var_start or the origin object's var)
        mu = z3.Real("mu")
        gamma, eps = z3.Real("gamma"), z3.Real("eps")
        N = z3.Int("max_iteration")
        H = z3.Int("num_history")
        ghost = dict(xs=xs, mu=mu, gamma=gamma, eps=eps, N=N)

        def value(ctx, v, validate=False):
            return F(*vec(v))

        def gradient(ctx, v):
            return NdVec([Gi(*vec(v)) for Gi in G], "real")

        def func_proj(ctx, w):
            w = vec(w)
            p = [Pi(*w) for Pi in P]
            ctx.assume(inC(*p))                                           # assumed callee contract: lands in C
            x = ctx.env.get("x_prev")
            if x is not None:
                xv = vec(x)
                # assumed callee contract (variational inequality of the nearest-point projection), instantiated at c = x_prev
                ctx.assume(z3.Implies(inC(*xv), dot([wi - pi for wi, pi in zip(w, p)], [xi - pi for xi, pi in zip(xv, p)]) <= 0))
            return NdVec(p, "real")

        def is_doing(ctx, x, y, alpha, gam, loss):
            x, y = vec(x), vec(y)
            xn = [xi + alpha * yi for xi, yi in zip(x, y)]
            return F(*xn) > F(*x) + gam * alpha * dot(y, [Gi(*x) for Gi in G])     # contract proved by armijo_contract

        origin = Obj("origin", methods=dict(to_var=lambda ctx: xs))
        tmpl = Obj("template", methods=dict(generate_origin_obj=lambda ctx: origin))
        qt = Obj("qt", attrs=dict(num_variables=n), methods=dict(generate_empty_estimation_obj_with_setting_info=lambda ctx: tmpl))
        selfo = Obj("self", attrs=dict(_qt=qt), methods=dict(func_proj=func_proj, _is_doing_for_alpha=is_doing))
        loss = Obj("loss_function", attrs=dict(on_value=True, on_gradient=True), methods=dict(value=value, gradient=gradient))
        opt = Obj("algorithm_option", attrs=dict(max_iteration_optimization=N, var_start=(xs if start_given else None),
                                                 mu=(mu if mu_given else None), gamma=gamma, eps=eps,
                                                 mode_stopping_criterion_gradient_descent=mode,
                                                 num_history_stopping_criterion_gradient_descent=H))
        req = [N >= 1, gamma > 0, eps > 0, H >= 1, inC(*vec(xs))]
        if mu_given:
            req.append(mu > 0)
        return dict(args=dict(self=selfo, loss_function=loss, loss_function_option=Obj("loss_option"), algorithm_option=opt,
                              on_iteration_history=False), requires=req, ghost=ghost)

    def is_none(v):
        if v is None:
            return z3.BoolVal(True)
        if isinstance(v, OptVal):
            return v.is_none
        return z3.BoolVal(False)

    def lemma_facts(env, g):
        """instances of the two arithmetic lemmas (proved as separate obligations) at the current iterate"""
        out = []
        x, y, al, mu = env.get("x_prev"), env.get("y_prev"), env.get("alpha"), env.get("mu")
        if isinstance(x, (NdVec, OptVal)) and isinstance(y, NdVec) and al is not None and mu is not None and (z3.is_expr(mu) or isinstance(mu, (int, float))):
            xv, yv = vec(x), vec(y)
            gx = [Gi(*xv) for Gi in G]
            w = [xi - gi / mu for xi, gi in zip(xv, gx)]
            p = [Pi(*w) for Pi in P]
            D = dot(yv, gx)
            vi = dot([wi - pi for wi, pi in zip(w, p)], [xi - pi for xi, pi in zip(xv, p)])
            out.append(z3.Implies(z3.And(mu > 0, vi <= 0, z3.And(*[yi == pi - xi for yi, pi, xi in zip(yv, p, xv)])), D <= 0))      # lemma descent-direction
            out.append(z3.Implies(z3.And(g["gamma"] > 0, al > 0, D <= 0), g["gamma"] * al * D <= 0))                          # lemma sign
            # convexity of C instantiated at (x_prev, P(w), alpha)
            out.append(z3.Implies(z3.And(inC(*xv), inC(*p), al >= 0, al <= 1), inC(*[xi + al * yi for xi, yi in zip(xv, yv)])))
        return out

    def outer_inv(ctx, t):
        g = ctx.ghost
        env = ctx.env
        xs = vec(g["xs"])
        xp = env["x_prev"]
        xn = env["x_next"]
        inv = [("x_prev-feasible", inC(*vec(xp))), ("loss(x_prev)<=loss(start)", F(*vec(xp)) <= F(*xs))]
        if xn is None:
            inv.append(("first-iteration-has-no-x_next", t == 0))
        else:
            xnv = vec(xn)
            none = is_none(xn)
            inv.append(("x_next-none-iff-first-iteration", none == (t == 0)))
            inv.append(("x_next-feasible", z3.Implies(z3.Not(none), inC(*xnv))))
            inv.append(("loss-never-increases", z3.Implies(z3.Not(none), z3.And(F(*xnv) <= F(*vec(xp)), F(*xnv) <= F(*xs)))))
        mu = env.get("mu")
        if mu is not None:
            inv.append(("mu>0", mu > 0))
        return inv

    def outer_facts(ctx, t):
        return lemma_facts(ctx.env, ctx.ghost)

    def stopping_quantity(ctx, t):
        """the error value of one iteration is the documented quantity of the configured stopping mode"""
        env = ctx.env
        ev = env.get("error_value")
        xp, xn, y = env.get("x_prev"), env.get("x_next"), env.get("y_prev")
        if ev is None or xp is None or xn is None or y is None:
            return [("error-value-is-the-documented-quantity", z3.BoolVal(False))]
        xp, xn, y = vec(xp), vec(xn), vec(y)
        fp, fn = F(*xp), F(*xn)
        if mode == "single_difference_loss":
            goal = ev == fp - fn
        elif mode == "sum_absolute_difference_loss":
            goal = ev == z3.If(fp - fn >= 0, fp - fn, fn - fp)
        elif mode == "sum_absolute_difference_variable":
            goal = z3.And(ev >= 0, ev * ev == z3.Sum([(a - b) * (a - b) for a, b in zip(xp, xn)]))
        else:
            goal = z3.And(ev >= 0, ev * ev == z3.Sum([a * a for a in y]))
        return [("error-value-is-the-documented-quantity", goal)]

    def inner_inv(ctx, t):
        al = ctx.env["alpha"]
        return [("0<alpha<=1", z3.And(al > 0, al <= 1))]

    def post(ctx):
        g = ctx.ghost
        if ctx.kind == "raise":
            return [("returns-normally", z3.BoolVal(False))]
        v = ctx.value.attrs["value"]
        xs = vec(g["xs"])
        return [("returns-normally", z3.BoolVal(True)),
                ("result-is-an-iterate", z3.Not(is_none(v))),
                ("result-feasible", inC(*vec(v))),
                ("loss(result)<=loss(start)", F(*vec(v)) <= F(*xs))]

    def facts(ctx):
        return lemma_facts(ctx.env, ctx.ghost)

    def canary(ctx):
        g = ctx.ghost
        if ctx.kind == "raise":
            return []
        v = ctx.value.attrs["value"]
        return [("loss(result)<=loss(start)", F(*vec(v)) < F(*vec(g["xs"])))]

    shapes = dict(x_next=("opt", ("vec", n, "real")), error_values=("seq", "real"))
    loops = {0: LoopSpec("for k in range(1, max_iteration + 1)", outer_inv, shapes=shapes, facts=outer_facts, body_post=stopping_quantity),
             1: LoopSpec("while self._is_doing_for_alpha(x_prev, y_prev, alpha, gamma, loss_function)", inner_inv)}
    result_cls = Func("ProjectedGradientDescentBacktrackingResult", lambda ctx, value, **kw: Obj("result", attrs=dict(value=value, **kw)))
    c = Contract(PG + ":ProjectedGradientDescentBacktracking.optimize", make_inputs, post, loops=loops, facts=facts, canary=canary,
                 globals_=dict(np=np_stub(n), ProjectedGradientDescentBacktrackingResult=result_cls),
                 prop=prop, scope=f"unbounded: all iteration counts, all losses, all closed convex sets, all start points in C (vector length {n}, stopping mode {mode})",
                 clause_text={"loss-never-increases": "loss(x_{k+1}) <= loss(x_k) <= loss(x_0) at every iteration",
                              "x_next-feasible": "every iterate lies in C (convex combination of x_k and a projection)",
                              "x_prev-feasible": "the point the step is taken from lies in C",
                              "result-feasible": "the returned point lies in C", "loss(result)<=loss(start)": "the returned point is no worse than the start point",
                              "0<alpha<=1": "step length stays in (0, 1]",
                              "error-value-is-the-documented-quantity": "the per-iteration error value is loss difference / |loss difference| / |x_k - x_{k+1}| / |projected step| as the stopping mode says"})
    # the two arithmetic lemmas used (as instances) above, proved for all reals
    xv = [z3.Real(f"lx{i}") for i in range(n)]
    gv = [z3.Real(f"lg{i}") for i in range(n)]
    pv = [z3.Real(f"lp{i}") for i in range(n)]
    yv = [z3.Real(f"ly{i}") for i in range(n)]
    mu, ga, al, D = z3.Real("lmu"), z3.Real("lgamma"), z3.Real("lalpha"), z3.Real("lD")
    wv = [xi - gi / mu for xi, gi in zip(xv, gv)]
    vi = dot([wi - pi for wi, pi in zip(wv, pv)], [xi - pi for xi, pi in zip(xv, pv)])
    c.native_search = lambda key, canary=False: native_search(n, mode, mu_given, start_given, key, canary)
    c.lemmas = [("descent-direction", [mu > 0, vi <= 0] + [yi == pi - xi for yi, pi, xi in zip(yv, pv, xv)], dot(yv, gv) <= 0),
                ("sign", [ga > 0, al > 0, D <= 0], ga * al * D <= 0)]
    return c


# ------------------------------------------------------------------ native search for failing concrete instances

class _Budget(BaseException):
    """native replay gave up (the run under replay does not finish): no information, never a witness"""


class _QuadLoss:
    """f(x) = 1/2 (x-c)^T A (x-c), A symmetric positive definite: a concrete convex loss for native replay"""
    on_value = True
    on_gradient = True

    def __init__(self, A, c, budget=20000):
        self.A, self.c = A, c
        self.budget = budget

    def value(self, x, validate=False):
        self.budget -= 1
        if self.budget < 0:
            raise _Budget()
        d = x - self.c
        return float(0.5 * d @ self.A @ d)

    def gradient(self, x):
        return self.A @ (x - self.c)


def native_instance(n, mode, mu_given, start_given, rng):
    import numpy as np
    M = np.array([[rng.uniform(-1, 1) for _ in range(n)] for _ in range(n)])
    A = M @ M.T + rng.choice([0.01, 1.0, 30.0]) * np.eye(n)
    c = np.array([rng.uniform(-2, 2) for _ in range(n)])
    lo = np.array([rng.uniform(-1, 0) for _ in range(n)])
    hi = lo + np.array([rng.uniform(0.1, 2) for _ in range(n)])
    kind = rng.choice(["interior", "corner", "random", "optimum"])
    if kind == "corner":
        xs = np.array([rng.choice([lo[i], hi[i]]) for i in range(n)])
    elif kind == "optimum":
        c = np.array([rng.uniform(lo[i], hi[i]) for i in range(n)])
        xs = c.copy()
    else:
        xs = np.array([rng.uniform(lo[i], hi[i]) for i in range(n)])
    return dict(A=A, c=c, lo=lo, hi=hi, xs=xs, mu=(rng.choice([0.05, 0.5, 1.0, 5.0]) if mu_given else None), gamma=rng.choice([0.3, 0.01, 0.9]),
                eps=rng.choice([1e-9, 1e-3]), max_iteration=rng.choice([1, 2, 5, 40]), num_history=rng.choice([1, 3]), mode=mode,
                start_given=start_given)


def native_run(inst):
    """the real optimize() on a concrete instance, iteration history on"""
    import numpy as np
    from qverif.core import native as N
    mod = N.native_import(PG)
    lo, hi, xs = inst["lo"], inst["hi"], inst["xs"]
    alg = mod.ProjectedGradientDescentBacktracking(func_proj=lambda v: np.clip(v, lo, hi))

    class _O:
        def to_var(self):
            return xs.copy()

    class _T:
        def generate_origin_obj(self):
            return _O()

    class _Qt:
        num_variables = len(xs)

        def generate_empty_estimation_obj_with_setting_info(self):
            return _T()
    alg._qt = _Qt()
    opt = mod.ProjectedGradientDescentBacktrackingOption(var_start=(xs.copy() if inst["start_given"] else None), mu=inst["mu"], gamma=inst["gamma"],
                                                         eps=inst["eps"], max_iteration_optimization=inst["max_iteration"],
                                                         mode_stopping_criterion_gradient_descent=inst["mode"],
                                                         num_history_stopping_criterion_gradient_descent=inst["num_history"])
    loss = _QuadLoss(inst["A"], inst["c"])
    import io, contextlib
    try:
        with contextlib.redirect_stdout(io.StringIO()):
            r = alg.optimize(loss, None, opt, on_iteration_history=True)
    except _Budget:
        return ("budget", None)
    except Exception as e:  # noqa
        return ("raise", type(e).__name__ + ": " + str(e)[:200])
    return ("return", dict(value=r.value, fx=list(r.fx), x=[np.array(v) for v in r.x], alpha=list(r.alpha)))


def native_clauses(inst, outcome, canary=False):
    import numpy as np
    if outcome[0] == "budget":
        return {}
    if outcome[0] != "return":
        return {"returns-normally": False}
    o = outcome[1]
    lo, hi = inst["lo"], inst["hi"]
    feas = lambda v: bool(np.all(v >= lo - 1e-9) and np.all(v <= hi + 1e-9))
    fx = o["fx"]
    tol = lambda a: 1e-9 * max(1.0, abs(a))
    mono = all(fx[k + 1] <= fx[k] + tol(fx[k]) for k in range(len(fx) - 1))
    loss = _QuadLoss(inst["A"], inst["c"])
    out = {"returns-normally": True, "result-is-an-iterate": o["value"] is not None}
    if o["value"] is None:
        return out
    fv, f0 = loss.value(np.array(o["value"])), loss.value(inst["xs"])
    out.update({"loss-never-increases": mono, "x_next-feasible": all(feas(v) for v in o["x"]), "x_prev-feasible": all(feas(v) for v in o["x"]),
                "result-feasible": feas(np.array(o["value"])), "0<alpha<=1": all(0 < a <= 1 for a in o["alpha"]),
                "loss(result)<=loss(start)": (fv < f0 - tol(f0)) if canary else (fv <= f0 + tol(f0))})
    return out


def native_search(n, mode, mu_given, start_given, key, canary=False, tries=300, seed=11):
    import random
    rng = random.Random(seed)
    for _ in range(tries):
        inst = native_instance(n, mode, mu_given, start_given, rng)
        oc = native_run(inst)
        chk = native_clauses(inst, oc, canary)
        for k, ok in chk.items():
            if ok is False and (key is None or k == key):
                show = {a: (b.tolist() if hasattr(b, "tolist") else b) for a, b in inst.items()}
                short = oc if oc[0] == "raise" else ("return", dict(value=[float(v) for v in oc[1]["value"]], fx=[float(v) for v in oc[1]["fx"][:6]],
                                                                    alpha=oc[1]["alpha"][:6], x=[v.tolist() for v in oc[1]["x"][:4]]))
                return dict(args=show, outcome=short, clause=k)
    return None


# ------------------------------------------------------------------ the two other projected-gradient algorithms: every iterate is a projection

ALGOS = {
    "momentum": ("quara.minimization_algorithm.projected_gradient_descent_with_momentum", "ProjectedGradientDescentWithMomentum"),
    "fista": ("quara.minimization_algorithm.projected_fast_iterative_shrinkage_thresholding_algorithm", "ProjectedFastIterativeShrinkageThresholdingAlgorithm"),
}


def projected_iterates_contract(algo, n, mode, prop="C10"):
    """PGD with momentum / PFISTA: x_{k+1} = P(something) at every iteration, so every iterate and the returned point lie in C (P's assumed contract)"""
    modn, clsn = ALGOS[algo]
    F, G, P, inC = funs(n)

    def make_inputs(md=None):
        xs = NdVec([z3.Real(f"xs{i}") for i in range(n)], "real")
        eps = z3.Real("eps")
        N, H = z3.Int("max_iteration"), z3.Int("num_history")
        step = z3.Real("step")            # delta (PFISTA) / r (momentum)

        def value(ctx, v, validate=False):
            return F(*vec(v))

        def gradient(ctx, v):
            return NdVec([Gi(*vec(v)) for Gi in G], "real")

        def func_proj(ctx, w):
            w = vec(w)
            p = [Pi(*w) for Pi in P]
            ctx.assume(inC(*p))
            return NdVec(p, "real")
        origin = Obj("origin", methods=dict(to_var=lambda ctx: xs))
        tmpl = Obj("template", methods=dict(generate_origin_obj=lambda ctx: origin))
        qt = Obj("qt", attrs=dict(num_variables=n), methods=dict(generate_empty_estimation_obj_with_setting_info=lambda ctx: tmpl))
        selfo = Obj("self", attrs=dict(_qt=qt), methods=dict(func_proj=func_proj))
        loss = Obj("loss_function", attrs=dict(on_value=True, on_gradient=True), methods=dict(value=value, gradient=gradient))
        attrs = dict(max_iteration_optimization=N, var_start=xs, eps=eps, mode_stopping_criterion_gradient_descent=mode,
                     num_history_stopping_criterion_gradient_descent=H)
        if algo == "fista":
            attrs["delta"] = step
        else:
            attrs["r"] = step
            attrs["moment_0"] = None
        opt = Obj("algorithm_option", attrs=attrs)
        req = [N >= 1, eps > 0, H >= 1, step > 0, inC(*vec(xs))]
        return dict(args=dict(self=selfo, loss_function=loss, loss_function_option=Obj("loss_option"), algorithm_option=opt, on_iteration_history=False),
                    requires=req, ghost=dict(xs=xs))

    def is_none(v):
        if v is None:
            return z3.BoolVal(True)
        if isinstance(v, OptVal):
            return v.is_none
        return z3.BoolVal(False)

    def inv(ctx, t):
        env = ctx.env
        xn = env["x_next"]
        out = [("x_prev-feasible", inC(*vec(env["x_prev"])))]
        if xn is None:
            out.append(("first-iteration-has-no-x_next", t == 0))
        else:
            out.append(("x_next-none-iff-first-iteration", is_none(xn) == (t == 0)))
            out.append(("x_next-feasible", z3.Implies(z3.Not(is_none(xn)), inC(*vec(xn)))))
            if "moment_next" in env and env["moment_next"] is not None:
                out.append(("moment_next-set-with-x_next", is_none(env["moment_next"]) == is_none(xn)))
        return out

    def post(ctx):
        if ctx.kind == "raise":
            return [("returns-normally", z3.BoolVal(False))]
        v = ctx.value.attrs["value"]
        return [("returns-normally", z3.BoolVal(True)), ("result-is-an-iterate", z3.Not(is_none(v))), ("result-feasible", inC(*vec(v)))]

    def canary(ctx):
        if ctx.kind == "raise":
            return []
        v = ctx.value.attrs["value"]
        return [("result-feasible", z3.Not(inC(*vec(v))))]

    def native_search(key, canary=False):
        import random
        import numpy as np
        from qverif.core import native as Nn
        mod = Nn.native_import(modn)
        rng = random.Random(5)
        for _ in range(200):
            inst = native_instance(n, mode, True, True, rng)
            lo, hi, xs0 = inst["lo"], inst["hi"], inst["xs"]
            alg = getattr(mod, clsn)(func_proj=lambda v: np.clip(v, lo, hi))
            kw = dict(var_start=xs0.copy(), eps=inst["eps"], max_iteration_optimization=inst["max_iteration"], mode_stopping_criterion_gradient_descent=mode,
                      num_history_stopping_criterion_gradient_descent=inst["num_history"])
            if algo == "fista":
                kw["delta"] = rng.choice([0.01, 0.1, 0.5])
            else:
                kw["r"] = rng.choice([0.5, 2.0, 10.0])
            opt = getattr(mod, clsn + "Option")(**kw)
            loss = _QuadLoss(inst["A"], inst["c"])
            import io, contextlib
            try:
                with contextlib.redirect_stdout(io.StringIO()):
                    r = alg.optimize(loss, None, opt, on_iteration_history=True)
            except _Budget:
                continue
            except Exception as e:  # noqa
                if not canary and (key in (None, "returns-normally")):
                    return dict(args={k: (v.tolist() if hasattr(v, "tolist") else v) for k, v in inst.items()}, outcome=("raise", type(e).__name__), clause="returns-normally")
                continue
            feas = lambda v: bool(np.all(np.asarray(v) >= lo - 1e-9) and np.all(np.asarray(v) <= hi + 1e-9))
            ok = feas(r.value) and all(feas(v) for v in r.x)
            bad = ok if canary else (not ok)
            if bad and key in (None, "result-feasible", "x_next-feasible", "x_prev-feasible"):
                return dict(args={k: (v.tolist() if hasattr(v, "tolist") else v) for k, v in inst.items()},
                            outcome=("return", dict(value=np.asarray(r.value).tolist(), x=[np.asarray(v).tolist() for v in r.x[:4]])), clause=key or "result-feasible")
        return None

    def _ceil(ctx, v):
        return ctx.fresh_real("ceil")

    def _log10(ctx, v):
        return ctx.fresh_real("log10")

    def _zeros(ctx, k):
        return NdVec([z3.RealVal(0)] * int(k), "real")
    npo = np_stub(n)
    npo.methods.update(dict(ceil=_ceil, log10=_log10, zeros=_zeros))
    shapes = dict(x_next=("opt", ("vec", n, "real")), error_values=("seq", "real"), moment_next=("opt", ("vec", n, "real")), magnitude_next=("opt", "real"))
    loops = {0: LoopSpec("for k in range(1, max_iteration + 1)", inv, shapes=shapes)}
    result_cls = Func(clsn + "Result", lambda ctx, value, **kw: Obj("result", attrs=dict(value=value, **kw)))
    c = Contract(modn + ":" + clsn + ".optimize", make_inputs, post, loops=loops, canary=canary, globals_={"np": npo, clsn + "Result": result_cls},
                 prop=prop, scope=f"unbounded: all iteration counts, losses, closed convex sets, start points in C (vector length {n}, stopping mode {mode})",
                 clause_text={"x_next-feasible": "every iterate is the output of the projection (lies in C)", "result-feasible": "the returned point lies in C",
                              "x_prev-feasible": "the previous iterate lies in C"})
    c.native_search = native_search
    return c

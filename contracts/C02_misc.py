"""C02: matrix_basis.convert_vec, MProcess conversions, linearity"""
from qverif.symtwin.verify import E2Contract, eq, true
from ._cfg import make_csys, DIMS, obj_mprocess, obj_gate, obj_state

MB = "quara.objects.matrix_basis"
MP = "quara.objects.mprocess"
G = "quara.objects.gate"


class ConvertVec(E2Contract):
    name = "convert_vec / State.convert_basis"
    prop = "C02"
    targets = (MB + ":convert_vec", "quara.objects.state:State.convert_basis")

    def configs(self, tier):
        return ["1q", "1qt"] + (["2q"] if tier == "thorough" else [])

    def inputs(self, W, cfg, mk):
        return dict(state=obj_state(W, mk, make_csys(W, cfg)))

    def run(self, W, cfg, inp):
        s = inp["state"]
        c_sys = s.composite_system
        comp = c_sys.comp_basis()
        v = s.convert_basis(comp)
        back = W.mod(MB).convert_vec(v, comp, c_sys.basis())
        return [v, back]

    def post(self, W, cfg, inp, out):
        S = W.S
        s = inp["state"]
        rho = S.op_from_vec(s.composite_system, s.vec)
        d = s.composite_system.dim
        return [eq("formula", out[0].reshape((d, d)), rho, "coefficients in the computational basis are the matrix entries (row-major)"),
                eq("inverse", out[1], s.vec, "converting back reproduces the vector")]


class MProcessConversions(E2Contract):
    name = "MProcess.to_choi_matrix* / convert_*"
    prop = "C02"
    targets = (MP + ":MProcess.to_choi_matrix", MP + ":MProcess.to_choi_matrix_with_dict", MP + ":MProcess.to_choi_matrix_with_sparsity",
               MP + ":MProcess.convert_to_comp_basis", MP + ":MProcess.convert_basis", MP + ":MProcess.hs")

    def configs(self, tier):
        return [("1q", 2), ("1q", 3)] + ([("1qt", 2)] if tier == "thorough" else [])

    def inputs(self, W, cfg, mk):
        return dict(mp=obj_mprocess(W, mk, make_csys(W, cfg[0]), cfg[1]))

    def run(self, W, cfg, inp):
        mp = inp["mp"]
        m = cfg[1]
        return [[mp.to_choi_matrix(x) for x in range(m)], [mp.to_choi_matrix_with_dict(x) for x in range(m)],
                [mp.to_choi_matrix_with_sparsity(x) for x in range(m)], mp.convert_to_comp_basis("row_major"),
                mp.convert_basis(mp.composite_system.comp_basis("column_major"))]

    def post(self, W, cfg, inp, out):
        S = W.S
        mp = inp["mp"]
        c_sys = mp.composite_system
        d = c_sys.dim
        spec = [S.choi_from_hs(c_sys, h) for h in mp.hss]
        return [eq("formula/to_choi_matrix", out[0], spec, "per-outcome Choi matrix == the gate formula on hss[x]"),
                eq("formula/with_dict", out[1], spec, "the same"),
                eq("formula/with_sparsity", out[2], spec, "the same"),
                eq("formula/comp-row", out[3], [S.hs_in_basis(c_sys, h, S.comp_basis(d, "row_major")) for h in mp.hss], "row-major computational form per outcome"),
                eq("formula/comp-col", out[4], [S.hs_in_basis(c_sys, h, S.comp_basis(d, "column_major")) for h in mp.hss], "column-major computational form per outcome")]


class Linearity(E2Contract):
    """f(a x + b y) == a f(x) + b f(y) with symbolic scalars a, b"""
    name = "linearity"
    prop = "C02"
    targets = (G + ":to_choi_from_hs_with_sparsity", G + ":to_hs_from_choi", "quara.objects.state:to_density_matrix_from_vec",
               G + ":convert_hs")

    def configs(self, tier):
        return ["1q"] + (["1qt"] if tier == "thorough" else [])

    def inputs(self, W, cfg, mk):
        n = DIMS[cfg] ** 2
        return dict(c_sys=make_csys(W, cfg), x=mk.array("x", (n, n)), y=mk.array("y", (n, n)), a=mk.real("a"), b=mk.real("b"),
                    u=mk.array("u", n), w=mk.array("w", n))

    def run(self, W, cfg, inp):
        g = W.mod(G)
        st = W.mod("quara.objects.state")
        c = inp["c_sys"]
        a, b, x, y, u, w = inp["a"], inp["b"], inp["x"], inp["y"], inp["u"], inp["w"]
        f1 = lambda h: g.to_choi_from_hs_with_sparsity(c, h)
        f2 = lambda h: g.to_hs_from_choi(c, W.S.choi_from_hs(c, h))
        f3 = lambda v: st.to_density_matrix_from_vec(c, v)
        f4 = lambda h: g.convert_hs(h, c.basis(), c.comp_basis())
        return [[f(a * x + b * y), a * f(x) + b * f(y)] for f in (f1, f2, f4)] + [[f3(a * u + b * w), a * f3(u) + b * f3(w)]]

    def post(self, W, cfg, inp, out):
        names = ["to_choi_from_hs_with_sparsity", "to_hs_from_choi", "convert_hs", "to_density_matrix_from_vec"]
        return [eq(f"linear/{n}", o[0], o[1], f"{n}(a x + b y) == a {n}(x) + b {n}(y)") for n, o in zip(names, out)]


class CompBasis(E2Contract):
    """the computational basis a composite system reports, in both orders, for single and multi-part systems"""
    name = "CompositeSystem.comp_basis"
    prop = "C02"
    targets = ("quara.objects.composite_system:CompositeSystem.comp_basis", MB + ":get_comp_basis",
               "quara.objects.elemental_system:ElementalSystem.comp_basis")
    n_conformance = 1

    def configs(self, tier):
        return ["1q", "1qt", "2q", "qxqt"]

    def inputs(self, W, cfg, mk):
        return dict(c_sys=make_csys(W, cfg), probe=mk.real("probe"))

    def run(self, W, cfg, inp):
        c = inp["c_sys"]
        return [[W.S.dense(b) for b in c.comp_basis("row_major")], [W.S.dense(b) for b in c.comp_basis("column_major")],
                [W.S.dense(b) for b in c.comp_basis()]]

    def post(self, W, cfg, inp, out):
        d = inp["c_sys"].dim
        return [eq("row_major", out[0], W.S.comp_basis(d, "row_major"), "comp_basis('row_major')[i*d+j] == |i><j|"),
                eq("column_major", out[1], W.S.comp_basis(d, "column_major"), "comp_basis('column_major')[j*d+i] == |i><j|"),
                eq("default-is-row_major", out[2], W.S.comp_basis(d, "row_major"), "the default order is row-major")]

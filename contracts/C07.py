"""C07 tensor products / embedding: jobs"""
from .C02 import e2_jobs, META as _M

META = dict(_M)
CLASSES = ["contracts.C07_all:TensorProduct", "contracts.C07_all:ProductStatistics", "contracts.C07_all:PermutationMatrix", "contracts.C07_all:DenseBasisProduct",
           "contracts.C07_all:EmbeddingStatePovm", "contracts.C07_all:EmbeddingChannels", "contracts.C07_all:EmbeddingPermutation",
           "contracts.C07_all:EmbeddingTwoQutrits"]


def jobs(tier, seed):
    return e2_jobs("C07", CLASSES, tier, seed)


CLAIM = {'engine': 'E2-symtwin', 'level': 'proof',
 'text': 'tensor_product is executed unmodified on symbolic factors (pairwise different outcome counts) for every permutation of subsystem names, dimensions in {2,3}, 2-3 subsystems (4 for states), left-folded and right-nested groupings; the result is proved to be the Kronecker product of the factors in ascending subsystem name, laid out row-major in the REPORTED outcome shape; the composite basis is proved to be the Kronecker product of the elemental bases; product measurements on product states are proved to give product statistics; embedding a qutrit state or POVM into two qubits is proved to give the isometric image (physicality and statistics of embedded inputs preserved).',
 'note': 'all-inputs@config. tensor_product on plain dense MatrixBasis objects (a branch CompositeSystem does not use) is enumerated over ordered pairs / triples of different catalogue bases (product basis == kron of the arguments, first argument outermost) as a bounded stand-in. calc_permutation_matrix has only discrete inputs: it is additionally enumerated over all name permutations / block sizes in scope and reported as a bounded stand-in (not counted as proved). The qutrit->two-qubit embedding (one qutrit) is proved for symbolic states and POVMs (isometric image, complement padded with I/m, up to the documented truncation; image statistics lemma); for gates and measurement processes the embedding goes through an eigendecomposition (Kraus extraction) and is checked on six concrete non-unitary channels / instruments (trace preservation, complete positivity, action on embedded states) as a bounded stand-in, not counted as proved. Floats as reals.',
 'technique': 'contract-based deductive verification (symbolic execution of the real source -> VCs, normaliser + z3)'}

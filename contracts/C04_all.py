"""C04: equality / inequality projections.

Equality projections (affine sets): exact feasibility, idempotence, identity on feasible points,
nearest point (<x - Px, y - Px> == 0 for every feasible y, stacked-parameter inner product),
object-level == variable-level under both parametrisations, argument not modified (frame, built in).
Inequality projections: the operator(s) the result denotes equal the positive part
V max(w,0) V^H of the denoted Hermitian operator, relative to the ASSUMED eigh contract
(nearest-PSD-ness of the positive part is theorem T1, Higham 1988, assumed).
"""
from qverif.symtwin.verify import E2Contract, eq, true
from ._cfg import make_csys, DIMS, stacked, obj_state, obj_povm, obj_gate, obj_mprocess
from .C03_e2 import n_var, empty_obj, MODS, m_count
from .C01_all import spec_tp_viol


def build(W, mk, kind, c_sys, m, on_para, name):
    return dict(state=lambda: obj_state(W, mk, c_sys, name, on_para), povm=lambda: obj_povm(W, mk, c_sys, m, name, on_para),
                gate=lambda: obj_gate(W, mk, c_sys, name, on_para), mprocess=lambda: obj_mprocess(W, mk, c_sys, m_count(m), name, on_para,
                                             shape=tuple(m) if isinstance(m, (tuple, list)) else None))[kind]()


def flat(W, arrays):
    return W.np.hstack([a.flatten() for a in arrays])


def eq_residuals(W, kind, c_sys, arrays):
    """quantities that vanish exactly iff the object satisfies its equality constraint (spec)"""
    S = W.S
    np = W.np
    d = c_sys.dim
    if kind == "state":
        return [S.trace(S.op_from_vec(c_sys, arrays[0])) - 1]
    if kind == "povm":
        tot = S.zeros_c((d, d))
        for v in arrays:
            tot = tot + S.op_from_vec(c_sys, v)
        return [tot - np.eye(d, dtype=np.complex128)]
    if kind == "gate":
        return spec_tp_viol(S, c_sys, arrays[0])
    tot = arrays[0]
    for h in arrays[1:]:
        tot = tot + h
    return spec_tp_viol(S, c_sys, tot)


def cfgs(tier, kinds=("state", "povm", "gate", "mprocess")):
    out = []
    for s in ["1q", "1qt"] + (["2q"] if tier == "thorough" else []):
        for on_para in (True, False):
            if "state" in kinds:
                out.append((s, "state", 0, on_para))
            if "gate" in kinds:
                out.append((s, "gate", 0, on_para))
            for m in ([2, 3] if tier == "quick" else [2, 3, 4, 5]):
                if "povm" in kinds:
                    out.append((s, "povm", m, on_para))
                if "mprocess" in kinds and not (s != "1q" and m > 3):
                    out.append((s, "mprocess", m, on_para))
    if "state" in kinds and tier == "quick":
        # a composite system in the quick tier too (dimension of the whole system != dimension of its first factor)
        out += [("2q", "state", 0, True), ("2q", "state", 0, False)]
    if "mprocess" in kinds:
        # measurement processes whose outcomes carry a multi-index shape (as composition / tensor product produce them)
        for on_para in (True, False):
            out.append(("1q", "mprocess", (2, 2), on_para))
            out.append(("1q", "mprocess", (3, 2), on_para))
            if tier == "thorough":
                out.append(("1q", "mprocess", (2, 3), on_para))
                out.append(("1qt", "mprocess", (2, 2), on_para))
    return out


class EqProjection(E2Contract):
    name = "calc_proj_eq_constraint"
    prop = "C04"
    targets = ("quara.objects.state:State.calc_proj_eq_constraint", "quara.objects.povm:Povm.calc_proj_eq_constraint",
               "quara.objects.gate:Gate.calc_proj_eq_constraint", "quara.objects.mprocess:MProcess.calc_proj_eq_constraint",
               "*.calc_proj_eq_constraint_with_var", "quara.objects.qoperation:QOperation.func_calc_proj_eq_constraint",
               "quara.objects.qoperation:QOperation.func_calc_proj_eq_constraint_with_var")

    def configs(self, tier):
        return cfgs(tier)

    def inputs(self, W, cfg, mk):
        s, kind, m, on_para = cfg
        c_sys = make_csys(W, s)
        x = build(W, mk, kind, c_sys, m, on_para, "x")
        # an arbitrary FEASIBLE comparison point, by parametrisation
        yvar = mk.array("y", n_var(kind, c_sys.dim, m, True))
        return dict(x=x, yvar=yvar)

    def run(self, W, cfg, inp):
        s, kind, m, on_para = cfg
        x = inp["x"]
        c_sys = x.composite_system
        px = x.calc_proj_eq_constraint()
        ppx = px.calc_proj_eq_constraint()
        tmpl_on = empty_obj(W, kind, c_sys, m, True)
        y = tmpl_on.generate_from_var(inp["yvar"])
        py = y.calc_proj_eq_constraint()
        # variable-level forms, both flags
        cls = type(x)
        sv = x.to_stacked_vector()
        var_off = cls.calc_proj_eq_constraint_with_var(c_sys, sv, on_para_eq_constraint=False)
        var_on_in = cls.convert_stacked_vector_to_var(c_sys, flat(W, stacked(W, px)), True)
        var_on = cls.calc_proj_eq_constraint_with_var(c_sys, var_on_in, on_para_eq_constraint=True)
        f_obj = x.func_calc_proj_eq_constraint(False)(sv)
        f_var = x.func_calc_proj_eq_constraint_with_var(False)(sv)
        return dict(px=stacked(W, px), ppx=stacked(W, ppx), y=stacked(W, y), py=stacked(W, py), var_off=var_off,
                    var_on=var_on, var_on_in=var_on_in, f_obj=f_obj, f_var=f_var)

    def post(self, W, cfg, inp, out):
        s, kind, m, on_para = cfg
        np = W.np
        x = inp["x"]
        c_sys = x.composite_system
        xs, pxs, ys = flat(W, stacked(W, x)), flat(W, out["px"]), flat(W, out["y"])
        res = eq_residuals(W, kind, c_sys, out["px"])
        cl = [eq("feasible-exactly", res, [0 * r for r in res], "the projection satisfies the equality constraint exactly"),
              eq("idempotent", out["ppx"], out["px"], "P(P(x)) == P(x)"),
              eq("identity-on-feasible", out["py"], out["y"], "P(y) == y for every y on the constraint set"),
              eq("nearest-point", np.dot(xs - pxs, ys - pxs), 0,
                 "<x - P x, y - P x> == 0 for every feasible y (P x is the Euclidean nearest feasible point)"),
              eq("var-level==object-level(flag off)", out["var_off"], pxs, "calc_proj_eq_constraint_with_var(stacked x, False) == stacked P(x)"),
              eq("var-level(flag on)-is-identity", out["var_on"], out["var_on_in"],
                 "with the constraint built in, the variable-level projection is the identity on variables"),
              eq("closure/object", out["f_obj"], pxs, "func_calc_proj_eq_constraint(False)(var) == stacked P(x)"),
              eq("closure/var", out["f_var"], pxs, "func_calc_proj_eq_constraint_with_var(False)(var) == stacked P(x)")]
        return cl

    def canary(self, W, cfg, inp, out):
        np = W.np
        xs, pxs, ys = flat(W, stacked(W, inp["x"])), flat(W, out["px"]), flat(W, out["y"])
        return [eq("canary", np.dot(xs - pxs, ys - pxs), 1, "(false) <x - Px, y - Px> == 1")]


class IneqProjection(E2Contract):
    name = "calc_proj_ineq_constraint"
    prop = "C04"
    targets = ("quara.objects.state:State.calc_proj_ineq_constraint", "quara.objects.povm:Povm.calc_proj_ineq_constraint",
               "quara.objects.gate:Gate.calc_proj_ineq_constraint", "quara.objects.mprocess:MProcess.calc_proj_ineq_constraint",
               "*.calc_proj_ineq_constraint_with_var", "quara.objects.qoperation:QOperation.func_calc_proj_ineq_constraint",
               "quara.objects.qoperation:QOperation.func_calc_proj_ineq_constraint_with_var")
    max_paths = 8

    def configs(self, tier):
        out = [("1q", "state", 0, False), ("1q", "state", 0, True), ("1qt", "state", 0, False), ("1q", "povm", 2, False),
               ("1q", "povm", 2, True), ("1q", "gate", 0, False), ("1q", "gate", 0, True), ("1q", "mprocess", 2, False)]
        if tier == "thorough":
            out += [("2q", "state", 0, False), ("1q", "povm", 3, True), ("1qt", "povm", 2, False), ("1q", "mprocess", 2, True)]
        return out

    def inputs(self, W, cfg, mk):
        s, kind, m, on_para = cfg
        return dict(x=build(W, mk, kind, make_csys(W, s), m, on_para, "x"))

    def run(self, W, cfg, inp):
        s, kind, m, on_para = cfg
        x = inp["x"]
        c_sys = x.composite_system
        px = x.calc_proj_ineq_constraint()
        cls = type(x)
        sv = x.to_stacked_vector()
        var_off = cls.calc_proj_ineq_constraint_with_var(c_sys, sv, on_para_eq_constraint=False)
        return dict(px=stacked(W, px), var_off=var_off)

    def post(self, W, cfg, inp, out):
        s, kind, m, on_para = cfg
        S = W.S
        np = W.np
        x = inp["x"]
        c_sys = x.composite_system
        atol = W.mod("quara.settings").Settings.get_atol()

        def pos_part(M):
            w, V = np.linalg.eigh(M)
            d = M.shape[0]
            acc = S.zeros_c((d, d))
            for k in range(d):
                vk = V[:, k].reshape((d, 1))
                wk = np.where(w[k] < 0, 0, w[k]) if W.symbolic else max(w[k], 0.0)
                acc = acc + wk * (vk @ np.conjugate(vk).T)
            return acc
        cl = []
        arrays = stacked(W, x)
        if kind in ("state", "povm"):
            exact = [S.vec_from_op(c_sys, pos_part(S.op_from_vec(c_sys, v))) for v in arrays]
        else:
            exact = [S.hs_from_choi(c_sys, pos_part(S.choi_from_hs(c_sys, h))) for h in arrays]
        for k, (o, e) in enumerate(zip(out["px"], exact)):
            cl.append(true(f"positive-part[{k}]", S.truncated(o, e, atol),
                           "the projected operator is V max(w,0) V^H of the operator the argument denotes (up to the truncation rule)"))
        cl.append(eq("var-level==object-level(flag off)", out["var_off"], flat(W, out["px"]),
                     "calc_proj_ineq_constraint_with_var(stacked x, False) == stacked P(x)"))
        return cl


class EqProjectionWithVar(E2Contract):
    """the variable-level projection called on a caller-owned vector: result and frame"""
    name = "calc_proj_eq_constraint_with_var(var)"
    prop = "C04"
    targets = ("*.calc_proj_eq_constraint_with_var",)

    def configs(self, tier):
        return cfgs(tier)

    def inputs(self, W, cfg, mk):
        s, kind, m, on_para = cfg
        c_sys = make_csys(W, s)
        return dict(c_sys=c_sys, var=mk.array("var", n_var(kind, c_sys.dim, m, on_para)))

    def run(self, W, cfg, inp):
        s, kind, m, on_para = cfg
        cls = type(empty_obj(W, kind, inp["c_sys"], m, on_para))
        return cls.calc_proj_eq_constraint_with_var(inp["c_sys"], inp["var"], on_para_eq_constraint=on_para)

    def post(self, W, cfg, inp, out):
        s, kind, m, on_para = cfg
        tmpl = empty_obj(W, kind, inp["c_sys"], m, on_para)
        obj = tmpl.generate_from_var(W.np.copy(inp["var"]))
        expect = obj.calc_proj_eq_constraint().to_var()
        return [eq("var-level==object-level", out, expect,
                   "calc_proj_eq_constraint_with_var(var) == to_var(calc_proj_eq_constraint(generate_from_var(var)))")]


class IneqProjectionWithVar(E2Contract):
    name = "calc_proj_ineq_constraint_with_var(var)"
    prop = "C04"
    targets = ("*.calc_proj_ineq_constraint_with_var",)
    max_paths = 8

    def configs(self, tier):
        out = [("1q", "state", 0, False), ("1q", "state", 0, True), ("1q", "povm", 2, True), ("1q", "povm", 2, False),
               ("1q", "gate", 0, True), ("1q", "gate", 0, False), ("1q", "mprocess", 2, True), ("1q", "mprocess", 2, False),
               ("1q", "mprocess", 3, True), ("1q", "povm", 3, True)]
        if tier == "thorough":
            out += [("1qt", "state", 0, True), ("1q", "povm", 4, True), ("1q", "mprocess", 3, False)]
        return out

    def inputs(self, W, cfg, mk):
        s, kind, m, on_para = cfg
        c_sys = make_csys(W, s)
        return dict(c_sys=c_sys, var=mk.array("var", n_var(kind, c_sys.dim, m, on_para)))

    def run(self, W, cfg, inp):
        s, kind, m, on_para = cfg
        cls = type(empty_obj(W, kind, inp["c_sys"], m, on_para))
        return cls.calc_proj_ineq_constraint_with_var(inp["c_sys"], inp["var"], on_para_eq_constraint=on_para)

    def post(self, W, cfg, inp, out):
        s, kind, m, on_para = cfg
        tmpl = empty_obj(W, kind, inp["c_sys"], m, on_para)
        obj = tmpl.generate_from_var(W.np.copy(inp["var"]))
        px = obj.calc_proj_ineq_constraint()
        cls = type(tmpl)
        expect = cls.convert_stacked_vector_to_var(inp["c_sys"], px.to_stacked_vector(), on_para)
        return [eq("var-level==object-level", out, expect,
                   "calc_proj_ineq_constraint_with_var(var) == the non-implied entries of calc_proj_ineq_constraint(generate_from_var(var))")]

"""C04, bounded stand-in: the projections over the scales the property quantifies over (1e-3 .. 1e3), on the real code with native floats.

The symbolic contracts (C04_all) treat doubles as exact reals, so anything that depends on the magnitude of the input (absolute thresholds of the
truncation helpers, rounding of the eigendecomposition) is invisible to them.  This job evaluates the same contract natively on seeded random inputs
of every scale: the projection returns, is feasible (equality: residual; inequality: positive semidefinite), equals an independent reference
(equality: closed form of the affine projection; inequality: positive part from an independent eigendecomposition of the denoted operator(s)),
satisfies the variational inequality of a nearest-point projection against random feasible competitors, is idempotent, leaves its argument unchanged,
and the variable-level form agrees with the object-level form under the object's flag.  Tolerance 1e-9 relative to the scale.
BOUNDED: seeded random inputs, never counted as proved."""
import random

import numpy as np

from qverif.core import native as N
from .C17_enum import Tally

OBJ = "quara.objects."
SCALES = [1e-3, 1e-2, 1.0, 1e1, 1e2, 1e3]
TOL = 1e-9
IMAG_MSG = "some imaginary parts of entries of matrix != 0"


def M(name):
    return N.native_import(OBJ + name)


def _csys(name):
    cst = M("composite_system_typical")
    return {"1q": lambda: cst.generate_composite_system("qubit", 1), "1qt": lambda: cst.generate_composite_system("qutrit", 1),
            "2q": lambda: cst.generate_composite_system("qubit", 2)}[name]()


def _n_var(kind, d, m, on_para):
    n = d * d
    return {"state": n - 1 if on_para else n, "povm": (m - 1) * n if on_para else m * n, "gate": n * n - n if on_para else n * n,
            "mprocess": m * n * n - n if on_para else m * n * n}[kind]


def _template(kind, c, m, on_para, eps=None):
    n = c.dim ** 2
    kw = dict(is_physicality_required=False, on_para_eq_constraint=on_para, eps_truncate_imaginary_part=eps)
    if kind == "state":
        return M("state").State(c, np.zeros(n), **kw)
    if kind == "povm":
        return M("povm").Povm(c, [np.zeros(n) for _ in range(m)], **kw)
    if kind == "gate":
        return M("gate").Gate(c, np.zeros((n, n)), **kw)
    return M("mprocess").MProcess(c, [np.zeros((n, n)) for _ in range(m)], **kw)


def _arrays(o):
    t = type(o).__name__
    return [o.vec] if t == "State" else list(o.vecs) if t == "Povm" else [o.hs] if t == "Gate" else list(o.hss)


def _flat(o):
    return np.hstack([np.asarray(a, dtype=float).reshape(-1) for a in _arrays(o)])


class _Ref:
    """independent reference semantics over the composite system's basis (orthonormal Hermitian bases: parameter norm == Frobenius norm)"""

    def __init__(self, c):
        self.c = c
        self.d = c.dim
        self.B = [np.asarray(b.toarray() if hasattr(b, "toarray") else b, dtype=complex) for b in c.basis()]
        self.BB = [[np.kron(a, b.conj()) for b in self.B] for a in self.B]

    def op(self, v):
        return sum(x * b for x, b in zip(v, self.B))

    def vec(self, A):
        return np.array([np.trace(b.conj().T @ A).real for b in self.B])

    def choi(self, hs):
        n = len(self.B)
        return sum(hs[a, b] * self.BB[a][b] for a in range(n) for b in range(n))

    def hs(self, choi):
        n = len(self.B)
        return np.array([[np.trace(self.BB[a][b].conj().T @ choi).real for b in range(n)] for a in range(n)])

    @staticmethod
    def pos(A):
        A = (A + A.conj().T) / 2
        w, V = np.linalg.eigh(A)
        return (V * np.clip(w, 0, None)) @ V.conj().T

    def operators(self, kind, arrays):
        return [self.op(a) for a in arrays] if kind in ("state", "povm") else [self.choi(a) for a in arrays]

    def from_operators(self, kind, ops):
        return [self.vec(A) for A in ops] if kind in ("state", "povm") else [self.hs(A) for A in ops]

    def ineq_reference(self, kind, arrays):
        return self.from_operators(kind, [self.pos(A) for A in self.operators(kind, arrays)])

    def eq_reference(self, kind, arrays):
        d, n = self.d, len(self.B)
        e0 = np.zeros(n)
        e0[0] = 1.0
        out = [np.array(a, dtype=float) for a in arrays]
        if kind == "state":
            out[0][0] = 1 / np.sqrt(d)
        elif kind == "povm":
            mean = sum(out) / len(out)
            out = [a - mean + np.sqrt(d) / len(out) * e0 for a in out]
        elif kind == "gate":
            out[0][0, :] = e0
        else:
            defect = (sum(a[0, :] for a in out) - e0) / len(out)
            for a in out:
                a[0, :] = a[0, :] - defect
        return out

    def eq_residual(self, kind, arrays):
        d, n = self.d, len(self.B)
        e0 = np.zeros(n)
        e0[0] = 1.0
        if kind == "state":
            return abs(arrays[0][0] - 1 / np.sqrt(d))
        if kind == "povm":
            return float(np.abs(sum(arrays) - np.sqrt(d) * e0).max())
        if kind == "gate":
            return float(np.abs(arrays[0][0, :] - e0).max())
        return float(np.abs(sum(a[0, :] for a in arrays) - e0).max())


def _check_ineq(t, rng, ref, c, kind, x, before, xs, var, on_para, scale, sc, vtag, eps, entry, tol):
    """the inequality-projection clauses on one object x (var: its variables, or None when x was built from operators)"""
    # ---- inequality projection
    try:
        px = x.calc_proj_ineq_constraint()
        err = None
    except Exception as e:  # noqa
        px, err = None, e
    if err is not None and IMAG_MSG in str(err) and not vtag:
        t.check(f"ineq/returns-normally:imaginary-rounding-above-default-threshold{sc}", False, entry,
                "the inequality projection returns for inputs of every scale with the default eps_truncate_imaginary_part",
                f"raised {type(err).__name__}: {str(err)[:100]}")
    else:
        t.check(f"ineq{vtag}/returns-normally{sc}", err is None, entry, "the inequality projection returns for inputs of every scale",
                "" if err is None else f"raised {type(err).__name__}: {str(err)[:100]}")
    if px is not None and entry[-1] == 'feasible':
        dv = float(np.abs(_flat(px) - xs).max())
        t.check(f"ineq{vtag}/identity-on-feasible{sc}", dv <= tol, entry, "P(x) == x for x whose operators are already positive semidefinite", f"max deviation {dv:.3e}")
    if px is not None:
        pa = _arrays(px)
        lam = min(float(np.linalg.eigvalsh((A + A.conj().T) / 2).min()) for A in ref.operators(kind, pa))
        t.check(f"ineq{vtag}/positive-semidefinite{sc}", lam >= -tol, entry, "every operator of the result is positive semidefinite", f"min eigenvalue {lam:.3e}")
        want = ref.ineq_reference(kind, before)
        dev = max(float(np.abs(a - b).max()) for a, b in zip(pa, want))
        t.check(f"ineq{vtag}/==positive-part-reference{sc}", dev <= tol, entry,
                "result == positive part of the denoted operator(s) by an independent eigendecomposition", f"max deviation {dev:.3e}")
        pxs = _flat(px)
        worst = -np.inf
        for _ in range(4):
            ops = []
            for A in ref.operators(kind, before):
                G = np.array([[complex(rng.gauss(0, 1), rng.gauss(0, 1)) for _ in range(A.shape[0])] for _ in range(A.shape[0])])
                ops.append(scale * (G @ G.conj().T) / A.shape[0])
            ys = np.hstack([np.asarray(a).reshape(-1) for a in ref.from_operators(kind, ops)])
            worst = max(worst, float(np.dot(xs - pxs, ys - pxs)))
        t.check(f"ineq{vtag}/nearest-point{sc}", worst <= tol * max(1.0, scale), entry,
                "<x - P x, y - P x> <= 0 for positive semidefinite competitors y (variational inequality of the nearest point)", f"max inner product {worst:.3e}")
        try:
            px.eps_truncate_imaginary_part = eps
            ppx = _flat(px.calc_proj_ineq_constraint())
            dv = float(np.abs(ppx - pxs).max())
            t.check(f"ineq{vtag}/idempotent{sc}", dv <= tol, entry, "P(P(x)) == P(x)", f"max deviation {dv:.3e}")
        except Exception as e:  # noqa
            if not (IMAG_MSG in str(e) and not vtag):
                t.check(f"ineq{vtag}/idempotent{sc}", False, entry, "P(P(x)) == P(x)", f"raised {type(e).__name__}: {str(e)[:100]}")
        try:
            if var is None:
                var = x.to_var()
            pv = type(x).calc_proj_ineq_constraint_with_var(c, np.array(var, copy=True), on_para_eq_constraint=on_para, eps_truncate_imaginary_part=eps)
            dv = float(np.abs(np.asarray(pv) - px.to_var()).max())
            t.check(f"ineq{vtag}/var-level==object-level{sc}", dv <= tol, entry, "calc_proj_ineq_constraint_with_var(var) == to_var(P(x))", f"max deviation {dv:.3e}")
        except Exception as e:  # noqa
            if not (IMAG_MSG in str(e) and not vtag):
                t.check(f"ineq{vtag}/var-level==object-level{sc}", False, entry, "calc_proj_ineq_constraint_with_var(var) == to_var(P(x))",
                        f"raised {type(e).__name__}: {str(e)[:100]}")


def _configs(tier):
    out = []
    for s in ["1q", "1qt"] + (["2q"] if tier == "thorough" else []):
        for on_para in (False, True):
            out.append((s, "state", 0, on_para))
            if s != "2q":
                out.append((s, "gate", 0, on_para))
            out.append((s, "povm", 3, on_para))
            if s == "1q":
                out.append((s, "povm", 2, on_para))
                out.append((s, "mprocess", 2, on_para))
                if tier == "thorough":
                    out.append((s, "povm", 5, on_para))
                    out.append((s, "mprocess", 3, on_para))
    return out


def job_scale_sweep(tier="quick", seed=0, part=0, parts=1):
    rng = random.Random(4000 + seed)
    reps = 3 if tier == "quick" else 10
    t = Tally(f"scale-sweep[part {part + 1} of {parts}]", ["*.calc_proj_eq_constraint", "*.calc_proj_ineq_constraint", "*.calc_proj_eq_constraint_with_var",
                              "*.calc_proj_ineq_constraint_with_var", "quara.utils.matrix_util:truncate_hs"], prop="C04", what="input")
    cfgs = [c for k, c in enumerate(_configs(tier)) if k % parts == part]
    for (s, kind, m, on_para) in cfgs:
        c = _csys(s)
        ref = _Ref(c)
        nv = _n_var(kind, c.dim, m, on_para)
        for scale in SCALES:
            sc = f"[scale={scale:g}]"
            for rep in range(reps):
                var = np.array([rng.gauss(0, 1) for _ in range(nv)]) * scale
                entry = (s, kind, m, on_para, scale, rep)
                # default threshold, and (from 1e2 on) the documented knob eps_truncate_imaginary_part raised in proportion to the magnitude
                variants = [("", None)] + ([("/threshold-scaled", 1e-13 * scale * scale)] if scale >= 1e2 else [])
                for vtag, eps in variants:
                    tmpl = _template(kind, c, m, on_para, eps)
                    x = tmpl.generate_from_var(var.copy())
                    x.eps_truncate_imaginary_part = eps          # (generate_from_var does not carry the threshold over; public setter)
                    before = [np.array(a, copy=True) for a in _arrays(x)]
                    xs = _flat(x)
                    tol = TOL * max(1.0, scale)
                    _check_ineq(t, rng, ref, c, kind, x, before, xs, var, on_para, scale, sc, vtag, eps, entry, tol)
                    if vtag:
                        continue
                    # ---- equality projection (objects off the constraint set: flag-off objects; with the flag on x is already feasible)
                    try:
                        ex = x.calc_proj_eq_constraint()
                        err = None
                    except Exception as e:  # noqa
                        ex, err = None, e
                    t.check(f"eq/returns-normally{sc}", err is None, entry, "the equality projection returns for inputs of every scale",
                            "" if err is None else f"raised {type(err).__name__}: {str(err)[:100]}")
                    if ex is not None:
                        ea = _arrays(ex)
                        r = ref.eq_residual(kind, ea)
                        t.check(f"eq/feasible{sc}", r <= tol, entry, "the result satisfies the equality constraint", f"residual {r:.3e}")
                        want = ref.eq_reference(kind, before)
                        dev = max(float(np.abs(a - b).max()) for a, b in zip(ea, want))
                        t.check(f"eq/==affine-projection-reference{sc}", dev <= tol, entry, "result == closed form of the orthogonal projection onto the affine constraint set",
                                f"max deviation {dev:.3e}")
                        exs = _flat(ex)
                        yv = np.array([rng.gauss(0, 1) for _ in range(_n_var(kind, c.dim, m, True))]) * scale
                        ys = _flat(_template(kind, c, m, True).generate_from_var(yv))
                        ip = abs(float(np.dot(xs - exs, ys - exs)))
                        t.check(f"eq/nearest-point{sc}", ip <= tol * max(1.0, scale), entry, "<x - P x, y - P x> == 0 for feasible y", f"|inner product| {ip:.3e}")
                    unchanged = all(np.array_equal(a, b) for a, b in zip(_arrays(x), before))
                    t.check(f"argument-unchanged{sc}", unchanged, entry, "the projections never modify their argument", "")
    # ---- already-feasible, boundary (rank-deficient) and degenerate-spectrum inputs, built from operators (flag off)
    for (s, kind, m, on_para) in cfgs:
        if on_para:
            continue
        c = _csys(s)
        ref = _Ref(c)
        n_ops = {"state": 1, "gate": 1}.get(kind, m)
        D = c.dim if kind in ("state", "povm") else c.dim ** 2
        for scale in SCALES:
            sc = f"[scale={scale:g}]"
            for what in ("feasible", "boundary", "degenerate"):
                for rep in range(max(1, reps // 2)):
                    ops = []
                    for _ in range(n_ops):
                        G = np.array([[complex(rng.gauss(0, 1), rng.gauss(0, 1)) for _ in range(D)] for _ in range(D)])
                        q, r = np.linalg.qr(G)
                        if what == "feasible":
                            w = [abs(rng.gauss(0, 1)) + 0.1 for _ in range(D)]
                        elif what == "boundary":
                            w = [abs(rng.gauss(0, 1)) + 0.1 if k < D // 2 else 0.0 for k in range(D)]
                        else:
                            a, b = abs(rng.gauss(0, 1)) + 0.1, -abs(rng.gauss(0, 1)) - 0.1
                            w = [a if k % 2 == 0 else b for k in range(D)]          # two eigenvalues, each repeated
                        A = (q * (scale * np.array(w))) @ q.conj().T
                        ops.append((A + A.conj().T) / 2)
                    arrays = ref.from_operators(kind, ops)
                    if kind in ("gate", "mprocess"):
                        # HS matrices of Hermiticity-preserving maps are real in an orthonormal Hermitian basis
                        arrays = [np.asarray(a, dtype=float) for a in arrays]
                    kw = dict(is_physicality_required=False, on_para_eq_constraint=False)
                    eps_list = [("", None)] + ([("/threshold-scaled", 1e-13 * scale * scale)] if scale >= 1e2 else [])
                    for vtag, eps in eps_list:
                        if kind == "state":
                            x = M("state").State(c, arrays[0], eps_truncate_imaginary_part=eps, **kw)
                        elif kind == "povm":
                            x = M("povm").Povm(c, arrays, eps_truncate_imaginary_part=eps, **kw)
                        elif kind == "gate":
                            x = M("gate").Gate(c, arrays[0], eps_truncate_imaginary_part=eps, **kw)
                        else:
                            x = M("mprocess").MProcess(c, arrays, eps_truncate_imaginary_part=eps, **kw)
                        before = [np.array(a, copy=True) for a in _arrays(x)]
                        entry = (s, kind, m, False, scale, rep, "boundary-or-feasible" if what == "boundary" else what)
                        entry = entry[:-1] + ("feasible" if what in ("feasible", "boundary") else what,)
                        _check_ineq(t, rng, ref, c, kind, x, before, _flat(x), None, False, scale, sc, vtag, eps, entry, TOL * max(1.0, scale))
                        unchanged = all(np.array_equal(a, b) for a, b in zip(_arrays(x), before))
                        t.check(f"argument-unchanged{sc}", unchanged, entry, "the projections never modify their argument", "")
    return t.results(f"{len(cfgs)} configurations x {len(SCALES)} scales x {reps} seeded random inputs, tolerance 1e-9 relative to the scale (bounded)")

"""C08 forward model: jobs"""
from .C02 import e2_jobs, META as _M

META = dict(_M)
CLASSES = ["contracts.C08_all:ForwardModel", "contracts.C08_all:CircuitZeroBranchUnderC08", "contracts.C08_all:FullRankIllConditioned"]


def jobs(tier, seed):
    return e2_jobs("C08", CLASSES, tier, seed)

CLAIM = {'engine': 'E2-symtwin', 'level': 'proof',
 'text': 'For the four tomography classes, both parametrisations and all schedule variants (all / subset / repetition / permutation) the classes are constructed unmodified with SYMBOLIC tester states and POVMs of mixed outcome counts; (A var + b) is proved equal, entry by entry and in the same outcome order, to the Born statistics of each schedule computed by an independent reference semantics, for all variable vectors; one column per variable; generate_prob_dists_sequence and calc_prob_dists agree.',
 'note': 'all-inputs@config (1 qubit; qutrit QST/POVMT; 2 qubits in thorough; unknown outcome counts 2..3, 4 thorough). Regular regime (p >= 2e-8) for the circuit-side clauses. Full column rank is decided for exact informationally complete tester sets under C09 (exact rank over Q(sqrt2,sqrt3)). Floats as reals.',
 'technique': 'contract-based deductive verification (symbolic execution of the real source -> VCs, normaliser + z3)'}

"""C20 (E2 part): the "all" expansion of the four tomography classes - with a tester set whose numbers of states and POVMs differ (4 and 3), the
default schedules="all" stands for every (state, POVM) pair exactly once, in row-major order, in the class's own shape"""
from qverif.symtwin.verify import E2Contract, eq
from .C09_all import exact_testers, build_qt

STD = "quara.protocol.qtomography.standard."


class AllExpansion(E2Contract):
    name = "schedules=all expansion"
    prop = "C20"
    targets = (STD + "standard_qst:StandardQst.__init__", STD + "standard_povmt:StandardPovmt.__init__", STD + "standard_qpt:StandardQpt.__init__",
               STD + "standard_qmpt:StandardQmpt.__init__")
    frame = False
    n_conformance = 1
    max_paths = 8

    def configs(self, tier):
        return [(k, f) for k in ("qst", "povmt", "qpt", "qmpt") for f in (True, False)]

    def inputs(self, W, cfg, mk):
        return dict(probe=mk.real("probe"))

    def run(self, W, cfg, inp):
        kind, on_para = cfg
        c_sys, states, povms = exact_testers(W, "1q", False)
        qt = build_qt(W, kind, dict(states=states, povms=povms), on_para, 2, "all")
        exp = qt._experiment
        return dict(schedules=[[tuple(it) for it in sch] for sch in exp.schedules], num_schedules=qt.num_schedules, n_states=len(states), n_povms=len(povms))

    def post(self, W, cfg, inp, out):
        kind, on_para = cfg
        ns, npv = out["n_states"], out["n_povms"]
        if kind == "qst":
            want = [[("state", 0), ("povm", j)] for j in range(npv)]
        elif kind == "povmt":
            want = [[("state", i), ("povm", 0)] for i in range(ns)]
        else:
            mid = "gate" if kind == "qpt" else "mprocess"
            want = [[("state", i), (mid, 0), ("povm", j)] for i in range(ns) for j in range(npv)]
        return [eq("tester-counts-differ", [ns, npv], [4, 3], "(the tester set has 4 states and 3 POVMs)"),
                eq("all==every-pair-once", out["schedules"], want, "the string all expands to every tester combination once, states outermost, in the shape of the class"),
                eq("num_schedules", out["num_schedules"], len(want), "num_schedules == number of tester combinations")]

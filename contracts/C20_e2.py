"""C20 (E2 part): the "all" expansion of the four tomography classes - with a tester set whose numbers of states and POVMs differ (4 and 3), the
default schedules="all" stands for every (state, POVM) pair exactly once, in row-major order, in the class's own shape"""
from qverif.symtwin.verify import E2Contract, eq
from .C09_all import exact_testers, build_qt
from ._cfg import make_csys

STD = "quara.protocol.qtomography.standard."


class AllExpansion(E2Contract):
    name = "schedules=all expansion"
    prop = "C20"
    targets = (STD + "standard_qst:StandardQst.__init__", STD + "standard_povmt:StandardPovmt.__init__", STD + "standard_qpt:StandardQpt.__init__",
               STD + "standard_qmpt:StandardQmpt.__init__")
    frame = False
    n_conformance = 1
    max_paths = 8

    def configs(self, tier):
        return [(k, f) for k in ("qst", "povmt", "qpt", "qmpt") for f in (True, False)]

    def inputs(self, W, cfg, mk):
        return dict(probe=mk.real("probe"))

    def run(self, W, cfg, inp):
        kind, on_para = cfg
        c_sys, states, povms = exact_testers(W, "1q", False)
        qt = build_qt(W, kind, dict(states=states, povms=povms), on_para, 2, "all")
        exp = qt._experiment
        return dict(schedules=[[tuple(it) for it in sch] for sch in exp.schedules], num_schedules=qt.num_schedules, n_states=len(states), n_povms=len(povms))

    def post(self, W, cfg, inp, out):
        kind, on_para = cfg
        ns, npv = out["n_states"], out["n_povms"]
        if kind == "qst":
            want = [[("state", 0), ("povm", j)] for j in range(npv)]
        elif kind == "povmt":
            want = [[("state", i), ("povm", 0)] for i in range(ns)]
        else:
            mid = "gate" if kind == "qpt" else "mprocess"
            want = [[("state", i), (mid, 0), ("povm", j)] for i in range(ns) for j in range(npv)]
        return [eq("tester-counts-differ", [ns, npv], [4, 3], "(the tester set has 4 states and 3 POVMs)"),
                eq("all==every-pair-once", out["schedules"], want, "the string all expands to every tester combination once, states outermost, in the shape of the class"),
                eq("num_schedules", out["num_schedules"], len(want), "num_schedules == number of tester combinations")]


class CalcProbDist(E2Contract):
    """Experiment.calc_prob_dist on every accepted schedule shape (state-povm, state-gate-povm, state-mprocess-povm): with all objects present the
    result is the Born distribution of the circuit read left to right (symbolic state), normalised; with a None placeholder at ANY referenced
    position (state, gate, mprocess or POVM) the call is rejected with ValueError naming that list and index - not with whatever the composition
    would raise on None."""
    name = "calc_prob_dist: None placeholders rejected, circuit order"
    prop = "C20"
    targets = ("quara.qcircuit.experiment:Experiment.calc_prob_dist",)
    frame = False
    may_raise = True
    n_conformance = 2
    max_paths = 8

    def configs(self, tier):
        return [(shape, none_at) for shape in ("sp", "sgp", "smp") for none_at in (None,) + tuple(range(len(shape)))]

    def inputs(self, W, cfg, mk):
        import math
        s = mk.array("s", 3)
        # the regular regime of the property's scope (physical objects): every final and intermediate probability is positive, so the
        # zero-probability handling of the composition (C06's contract) stays out of the way
        r = 1 / math.sqrt(2)
        sv = [r, s[0], s[1], s[2]]
        P = [[r * v for v in p] for p in ([0.5, 0.5, 0, 0], [0.5, 0, 0.5, 0], [1, -0.5, -0.5, 0])]
        G = [[1, 0, 0, 0], [0, 0, -1, 0], [0, 1, 0, 0], [0, 0, 0, 1]]
        M = [[[0.5, 0, 0, 0.5], [0, 0, 0, 0], [0, 0, 0, 0], [0.5, 0, 0, 0.5]], [[0.5, 0, 0, -0.5], [0, 0, 0, 0], [0, 0, 0, 0], [-0.5, 0, 0, 0.5]]]
        mv = lambda A, v: [sum(A[i][j] * v[j] for j in range(4)) for i in range(4)]
        dot = lambda a, b: sum(a[i] * b[i] for i in range(4))
        shape = cfg[0]
        if shape == "sp":
            probs = [dot(p, sv) for p in P]
        elif shape == "sgp":
            probs = [dot(p, mv(G, sv)) for p in P]
        else:
            probs = [math.sqrt(2) * mv(m, sv)[0] for m in M] + [dot(p, mv(m, sv)) for m in M for p in P]
        for v in probs:
            mk.require(v >= 2e-8)
        return dict(s=s)

    def sample(self, cfg, names, rng):
        return {n: rng.uniform(-0.05, 0.05) for n in names}

    def _objects(self, W, inp):
        np = W.np
        c_sys = make_csys(W, "1q")
        kw = dict(is_physicality_required=False)
        State = W.mod("quara.objects.state").State
        Povm = W.mod("quara.objects.povm").Povm
        Gate = W.mod("quara.objects.gate").Gate
        MProcess = W.mod("quara.objects.mprocess").MProcess
        r = 1 / np.sqrt(2)
        s = inp["s"]
        svec = np.array([r, s[0], s[1], s[2]])
        pvecs = [r * np.array(v, dtype=np.float64) for v in ([0.5, 0.5, 0, 0], [0.5, 0, 0.5, 0], [1, -0.5, -0.5, 0])]
        ghs = np.array([[1, 0, 0, 0], [0, 0, -1, 0], [0, 1, 0, 0], [0, 0, 0, 1]], dtype=np.float64)
        m0 = 0.5 * np.array([[1, 0, 0, 1], [0, 0, 0, 0], [0, 0, 0, 0], [1, 0, 0, 1]], dtype=np.float64)
        m1 = 0.5 * np.array([[1, 0, 0, -1], [0, 0, 0, 0], [0, 0, 0, 0], [-1, 0, 0, 1]], dtype=np.float64)
        return dict(c_sys=c_sys, state=State(c_sys, svec, **kw), povm=Povm(c_sys, pvecs, **kw), gate=Gate(c_sys, ghs, **kw),
                    mprocess=MProcess(c_sys, [m0, m1], **kw), svec=svec, pvecs=pvecs, ghs=ghs, ms=[m0, m1])

    KIND = dict(s="state", g="gate", m="mprocess", p="povm")

    def run(self, W, cfg, inp):
        shape, none_at = cfg
        Experiment = W.mod("quara.qcircuit.experiment").Experiment
        o = self._objects(W, inp)
        lists = dict(state=[o["state"]], povm=[o["povm"]], gate=[o["gate"]], mprocess=[o["mprocess"]])
        # a second (unused) entry per list so that the referenced index is 1 for the middle item: the message must name the referenced index
        lists["gate"] = [None, o["gate"]]
        lists["mprocess"] = [None, o["mprocess"]]
        idx = dict(state=0, povm=0, gate=1, mprocess=1)
        kinds = [self.KIND[c] for c in shape]
        if none_at is not None:
            k = kinds[none_at]
            lists[k] = list(lists[k])
            lists[k][idx[k]] = None
        schedule = [(k, idx[k]) for k in kinds]
        exp = Experiment(schedules=[schedule], states=lists["state"], povms=lists["povm"], gates=lists["gate"], mprocesses=lists["mprocess"])
        ref = dict(svec=o["svec"], pvecs=o["pvecs"], ghs=o["ghs"], ms=o["ms"])
        try:
            ps = exp.calc_prob_dist(0)
        except Exception as e:  # noqa - judged by post()
            return dict(raised=type(e).__name__, message=str(e), ps=None, o=ref)
        return dict(raised=None, message=None, ps=ps, o=ref)

    def post(self, W, cfg, inp, out):
        shape, none_at = cfg
        o = out["o"]
        kinds = [self.KIND[c] for c in shape]
        idx = dict(state=0, povm=0, gate=1, mprocess=1)
        if none_at is not None:
            k = kinds[none_at]
            return [eq("none-placeholder-rejected-with-ValueError", out["raised"], "ValueError",
                       "a None placeholder at a referenced position is rejected with ValueError, whichever kind it is"),
                    eq("message-names-list-and-index", out["message"], "{}s[{}] is None.".format(k, idx[k]), "the message names the list and the referenced index")]
        np = W.np
        s = o["svec"]
        if shape == "sp":
            want = [sum(p[i] * s[i] for i in range(4)) for p in o["pvecs"]]
        elif shape == "sgp":
            gs = [sum(o["ghs"][i][j] * s[j] for j in range(4)) for i in range(4)]
            want = [sum(p[i] * gs[i] for i in range(4)) for p in o["pvecs"]]
        else:
            want = []
            for m in o["ms"]:
                ms = [sum(m[i][j] * s[j] for j in range(4)) for i in range(4)]
                want += [sum(p[i] * ms[i] for i in range(4)) for p in o["pvecs"]]
        got = out["ps"]
        tot = 0
        for v in (list(got.flatten()) if got is not None else []):
            tot = tot + v
        return [eq("returns-normally", out["raised"], None, "every accepted schedule whose objects are present can be executed"),
                eq("born-distribution-in-circuit-order", list(got.flatten()) if got is not None else None, want,
                   "items composed in schedule order: p(x[,y]) = <povm_y, (op_x) state>"),
                eq("normalised", tot, 1, "the distribution sums to one (trace-one state, TP gate / measurement process, POVM summing to I)")]

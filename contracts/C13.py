"""C13 no hidden state / no operand mutation: jobs"""
from .C02 import e2_jobs, META as _M

META = dict(_M)
CLASSES = ["contracts.C13_all:CompositeSystemCaches", "contracts.C13_all:LossObjectReuse", "contracts.C13_all:AlgorithmObjectReuse",
           "contracts.C13_all:OperatorFrames", "contracts.C13_all:BasisImmutable", "contracts.C13_all:SettingsRoundTrip",
           "contracts.C13_all:EqProjectionVarFrame", "contracts.C13_all:IneqProjectionVarFrame", "contracts.C13_all:EqProjectionFrame",
           "contracts.C13_all:IneqProjectionFrame", "contracts.C13_all:PhysicalProjectionFrame", "contracts.C13_all:EstimatorSequenceNoCarryOver", "contracts.C13_all:TensorComposeOperands", "contracts.C13_all:EstimatorObjectReuse", "contracts.C13_all:ExperimentCopyIndependent", "contracts.C13_all:MProcessCopyIndependent", "contracts.C13_all:ReplaceProbDistFrame"]


def jobs(tier, seed):
    return e2_jobs("C13", CLASSES, tier, seed)

CLAIM = {'engine': 'E2-symtwin', 'level': 'proof',
 'text': 'Frames: every E2 contract of the other properties compares each argument array symbol by symbol before and after the call (clause frame/<arg>); here the arithmetic operators, copy() (no shared storage), to_var / to_stacked_vector. Caches: every conversion reading a cached CompositeSystem table is proved to give the same symbolic result with tables unbuilt / built / each one (or all) deleted and rebuilt / built in another order, and every built table equals that of a fresh system (representation invariant). Re-use: a loss object (generic and fast, both families) and a projected-gradient algorithm object configured after an unrelated earlier configuration are proved to behave like fresh objects. Matrix bases: independent of the constructor argument, in-place writes raise. Global tolerance round trip. The contracts of the constraint projections (C04), of the physical projection (C05: arrays and configuration flags of the projected object) and of the loss-minimisation estimator (every dataset of a sequence, and objects used for another tomography before, behave like fresh ones) are re-checked here for their frame / no-carry-over clauses.',
 'note': 'all-inputs@config (1 qubit; qutrit caches in thorough). The quantifier over ALL interleavings is covered by the representation-invariant argument for the caches (each operation preserves "None or table of the basis") and by configuring from one arbitrary earlier state for loss / algorithm objects, not by enumerating interleavings. Interleavings through code that is not under contract are not covered. Floats as reals.',
 'technique': 'contract-based deductive verification (symbolic execution of the real source -> VCs; frame conditions by snapshot comparison)'}

"""C17: catalogue contracts, checked by COMPLETE ENUMERATION of the finite catalogues on the real code (native floats).

This is the bounded stand-in of the technique family for C17: the dispatchers build function names with eval() over name lists,
which no VC generator here can follow; the domain is finite, so the contract of every dispatcher
    name in catalogue  =>  object generated, physical, all descriptions agree (pure vector / density matrix / coefficient vector / object;
                           unitary / HS matrix / Hamiltonian exponential / object; Kraus sets / HS matrices / object)
    name not in catalogue => an exception
is evaluated for every name (2-qutrit gates: sampled in the quick tier).  Tolerance 1e-9 (floats).  Never counted as proved."""
import itertools
import math
import random

import numpy as np

from qverif.core import native as N
from qverif.core import result as R
from qverif.core.result import ObResult

TOL = 1e-9
OBJ = "quara.objects."


def M(name):
    return N.native_import(OBJ + name)


def close(a, b, tol=TOL):
    a, b = np.asarray(a), np.asarray(b)
    return a.shape == b.shape and bool(np.all(np.abs(a - b) <= tol * max(1.0, float(np.max(np.abs(b))) if b.size else 1.0)))


class Tally:
    """clause label -> (number of entries checked, first failing entry)"""

    def __init__(self, family, targets, prop="C17", what="catalogue entry"):
        self.family, self.targets, self.prop, self.what = family, targets, prop, what
        self.count = {}
        self.fail = {}
        self.text = {}

    def check(self, label, ok, entry, text="", detail=""):
        self.count[label] = self.count.get(label, 0) + 1
        self.text.setdefault(label, text)
        if not ok and label not in self.fail:
            self.fail[label] = (entry, detail)

    def guard(self, label, entry, fn, text=""):
        """fn() -> (ok, detail); an exception is a failure of the clause"""
        try:
            ok, detail = fn()
        except Exception as e:  # noqa
            ok, detail = False, f"raised {type(e).__name__}: {str(e)[:160]}"
        self.check(label, ok, entry, text, detail)

    def results(self, scope):
        out = []
        for label, n in sorted(self.count.items()):
            common = dict(prop=self.prop, engine="E0-enumeration (native, runtime contracts)", scope=scope, function=", ".join(self.targets),
                          clause=self.text.get(label, label), extra=dict(entries=n))
            if label in self.fail:
                entry, detail = self.fail[label]
                out.append(ObResult(name=f"{self.prop}/{self.family}/{label}", status=R.REFUTED, witness=dict(entry=repr(entry)),
                                    replay=dict(confirmed=True, how=f"the real function called natively with this {self.what}", entry=repr(entry), observed=detail),
                                    detail=f"clause `{label}` fails on the real code for {self.what} {entry!r}: {detail}", **common))
            else:
                out.append(ObResult(name=f"{self.prop}/{self.family}/{label}", status=R.BOUNDED_OK, detail=f"{n} {self.what} instances", **common))
        if not self.count:
            out.append(ObResult(name=f"{self.prop}/{self.family}/vacuous", status=R.FAULT, detail=f"no {self.what} was enumerated", prop=self.prop,
                                engine="E0-enumeration", scope=scope, function=", ".join(self.targets)))
        return out


def csys(mode, n, ids=None):
    cst = M("composite_system_typical")
    return cst.generate_composite_system(mode, n, ids=ids) if ids is not None else cst.generate_composite_system(mode, n)


SYSTEMS = [("1qubit", "qubit", 1), ("2qubit", "qubit", 2), ("3qubit", "qubit", 3), ("1qutrit", "qutrit", 1), ("2qutrit", "qutrit", 2)]
BAD_NAMES = ["", " ", "Z0", "z0 ", "z2", "z0__z0", "z0_", "_z0", "zz", "x0y0", "bell", "identity_", "cx2", "toffoli_", "01x45", "x-type3", "type1", "None", "0", "z0_z0_z0_z0_z0"]


def expand(rho, basis):
    return np.array([np.trace(b.conj().T @ rho) for b in basis])


# ------------------------------------------------------------------ states

def job_states(group, seed=0):
    st = M("state_typical")
    label, mode, n = next(s for s in SYSTEMS if s[0] == group)
    names = getattr(st, f"get_state_names_{group}")()
    c = csys(mode, n)
    t = Tally(f"states/{group}", [OBJ + "state_typical:generate_state_from_name", OBJ + "state_typical:generate_state_pure_state_vector_from_name",
                                  OBJ + "state_typical:generate_state_density_mat_from_name", OBJ + "state_typical:generate_state_density_matrix_vector_from_name",
                                  OBJ + "state_typical:generate_state_object_from_state_name_object_name"])
    basis = [np.asarray(b.toarray() if hasattr(b, "toarray") else b) for b in c.basis()]
    for name in names:
        def pure():
            psi = st.generate_state_pure_state_vector_from_name(name)
            return (psi.shape == (c.dim,) and abs(np.vdot(psi, psi) - 1) <= TOL), f"shape {psi.shape}, norm^2 {np.vdot(psi, psi)}"
        t.guard("pure-state-vector-normalised", name, pure, "the pure state vector has the system's dimension and unit norm")

        def dens():
            psi = st.generate_state_pure_state_vector_from_name(name)
            rho = st.generate_state_density_mat_from_name(name)
            return close(rho, np.outer(psi, psi.conj())), "density matrix != |psi><psi|"
        t.guard("density-matrix==projector-on-pure-vector", name, dens, "density matrix == |psi><psi|")

        def vec():
            rho = st.generate_state_density_mat_from_name(name)
            v = st.generate_state_density_matrix_vector_from_name(c.basis(), name)
            e = expand(rho, basis)
            return close(v, e.real) and bool(np.all(np.abs(e.imag) <= TOL)), "coefficient vector != expansion of the density matrix"
        t.guard("coefficient-vector==expansion-of-density-matrix", name, vec, "vec_i == Tr[B_i^dagger rho] in the system's basis")

        def obj():
            s = st.generate_state_from_name(c, name)
            v = st.generate_state_density_matrix_vector_from_name(c.basis(), name)
            rho = st.generate_state_density_mat_from_name(name)
            ok = close(s.vec, v) and s.is_physical() and close(s.to_density_matrix(), rho)
            return ok, f"is_physical={s.is_physical()}"
        t.guard("object-physical-and-equal-to-descriptions", name, obj, "generated State is physical; its vec / density matrix are the catalogued ones")

        def forms():
            a = st.generate_state_object_from_state_name_object_name(name, "pure_state_vector")
            b = st.generate_state_object_from_state_name_object_name(name, "density_mat")
            d = st.generate_state_object_from_state_name_object_name(name, "density_matrix_vector", c)
            e = st.generate_state_object_from_state_name_object_name(name, "state", c)
            ok = close(a, st.generate_state_pure_state_vector_from_name(name)) and close(b, st.generate_state_density_mat_from_name(name)) \
                and close(d, e.vec) and type(e).__name__ == "State"
            return ok, "object_name forms disagree"
        t.guard("object_name-forms-agree", name, forms, "every object_name form returns the same state")
        if "_" in name and group in ("2qubit", "3qubit", "2qutrit"):
            def prod():
                parts = name.split("_")
                if any(not st.is_valid_state_name(p) for p in parts):
                    return True, ""
                vs = [st.generate_state_pure_state_vector_from_name(p) for p in parts]
                ref = vs[0]
                for v in vs[1:]:
                    ref = np.kron(ref, v)
                return close(st.generate_state_pure_state_vector_from_name(name), ref), "product name != Kronecker product of its factors"
            t.guard("product-name==kronecker-product", name, prod, "a_b_c denotes |a> (x) |b> (x) |c>")
    valid = set(st.get_state_names())
    for bad in BAD_NAMES:
        if bad in valid:
            continue
        def rej():
            try:
                r = st.generate_state_from_name(c, bad)
            except Exception:
                return True, ""
            return False, f"returned {type(r).__name__}"
        t.guard("unknown-name-raises", bad, rej, "a name outside the catalogue raises instead of yielding an object")
    return t.results(f"bounded: all {len(names)} state names of {group}, every object_name form")


# ------------------------------------------------------------------ POVMs

def job_povms(group, seed=0):
    pt = M("povm_typical")
    label, mode, n = next(s for s in SYSTEMS if s[0] == group)
    names = getattr(pt, f"get_povm_names_{group}")()
    c = csys(mode, n)
    basis = [np.asarray(b.toarray() if hasattr(b, "toarray") else b) for b in c.basis()]
    rank1 = set(pt.get_povm_names_rank1())
    t = Tally(f"povms/{group}", [OBJ + "povm_typical:generate_povm_from_name", OBJ + "povm_typical:generate_povm_matrices_from_name",
                                 OBJ + "povm_typical:generate_povm_vectors_from_name", OBJ + "povm_typical:generate_povm_pure_state_vectors_from_name",
                                 OBJ + "povm_typical:generate_povm_object_from_povm_name_object_name"])
    for name in names:
        def mats():
            ms = pt.generate_povm_matrices_from_name(name)
            tot = sum(ms)
            psd = all(np.min(np.linalg.eigvalsh((m + m.conj().T) / 2)) >= -TOL and close(m, m.conj().T) for m in ms)
            return close(tot, np.eye(c.dim)) and psd, "elements are not PSD / do not sum to identity"
        t.guard("matrices-are-a-povm", name, mats, "the element matrices are positive semidefinite and sum to the identity")

        def vecs():
            ms = pt.generate_povm_matrices_from_name(name)
            vs = pt.generate_povm_vectors_from_name(name, c.basis())
            return len(ms) == len(vs) and all(close(v, expand(m, basis).real) for m, v in zip(ms, vs)), "vectors != expansion of the matrices"
        t.guard("vectors==expansion-of-matrices", name, vecs, "vec_x,i == Tr[B_i^dagger E_x]")

        def obj():
            p = pt.generate_povm_from_name(name, c)
            vs = pt.generate_povm_vectors_from_name(name, c.basis())
            return p.is_physical() and len(p.vecs) == len(vs) and all(close(a, b) for a, b in zip(p.vecs, vs)), f"is_physical={p.is_physical()}"
        t.guard("object-physical-and-equal-to-descriptions", name, obj, "generated Povm is physical; its vecs are the catalogued ones")
        if name in rank1:
            def pure():
                ps = pt.generate_povm_pure_state_vectors_from_name(name)
                ms = pt.generate_povm_matrices_from_name(name)
                return len(ps) == len(ms) and all(close(m, np.outer(v, v.conj())) for m, v in zip(ms, ps)), "matrices != |v><v|"
            t.guard("rank-1-elements==projectors-on-pure-vectors", name, pure, "E_x == |v_x><v_x| for rank-1 POVMs")

        def forms():
            ok = True
            for on in pt.get_povm_object_names():
                if on == "pure_state_vectors" and name not in rank1:
                    continue
                o = pt.generate_povm_object_from_povm_name_object_name(name, on, c_sys=c, basis=c.basis())
                ref = {"pure_state_vectors": pt.generate_povm_pure_state_vectors_from_name, "matrices": pt.generate_povm_matrices_from_name}.get(on)
                if ref is not None:
                    ok = ok and all(close(a, b) for a, b in zip(o, ref(name)))
                elif on == "vectors":
                    ok = ok and all(close(a, b) for a, b in zip(o, pt.generate_povm_vectors_from_name(name, c.basis())))
                else:
                    ok = ok and type(o).__name__ == "Povm"
            return ok, "object_name forms disagree"
        t.guard("object_name-forms-agree", name, forms, "every object_name form returns the same POVM")
    valid = set(pt.get_povm_names())
    for bad in BAD_NAMES + ["x_", "w", "xx"]:
        if bad in valid:
            continue
        def rej():
            try:
                r = pt.generate_povm_from_name(bad, c)
            except Exception:
                return True, ""
            return False, f"returned {type(r).__name__}"
        t.guard("unknown-name-raises", bad, rej, "a name outside the catalogue raises instead of yielding an object")
    return t.results(f"bounded: all {len(names)} POVM names of {group}, every object_name form")


# ------------------------------------------------------------------ gates and effective Lindbladians

def _hs_from_unitary(u, basis):
    """HS matrix of rho -> U rho U^dagger in an orthonormal operator basis (independent reference)"""
    n = len(basis)
    out = np.zeros((n, n), dtype=np.complex128)
    for j, bj in enumerate(basis):
        img = u @ bj @ u.conj().T
        for i, bi in enumerate(basis):
            out[i, j] = np.trace(bi.conj().T @ img)
    return out


def _expm_herm(h, t=-1j):
    w, v = np.linalg.eigh(h)
    return (v * np.exp(t * w)) @ v.conj().T


_X = np.array([[0, 1], [1, 0]], dtype=complex)
_Y = np.array([[0, -1j], [1j, 0]], dtype=complex)
_Z = np.array([[1, 0], [0, -1]], dtype=complex)
_I = np.eye(2, dtype=complex)
_P0 = np.array([[1, 0], [0, 0]], dtype=complex)
_P1 = np.array([[0, 0], [0, 1]], dtype=complex)


def _rot(p, deg):
    return _expm_herm(p * (math.radians(deg) / 2))


def _place(ops, n):
    """ops: dict position -> 2x2 matrix; identity elsewhere; position 0 is the leftmost Kronecker factor"""
    out = np.array([[1]], dtype=complex)
    for k in range(n):
        out = np.kron(out, ops.get(k, _I))
    return out


def textbook_unitary(name, ids=None):
    """independent textbook definitions (up to a global phase). ids: positions (ascending name order = Kronecker order)"""
    one = {"x90": _rot(_X, 90), "x180": _rot(_X, 180), "x": _X, "y90": _rot(_Y, 90), "y180": _rot(_Y, 180), "y": _Y,
           "z90": _rot(_Z, 90), "z180": _rot(_Z, 180), "z": _Z, "zm90": _rot(_Z, -90), "phase": np.diag([1, 1j]), "phase_daggered": np.diag([1, -1j]),
           "piover8": np.diag([1, np.exp(1j * math.pi / 4)]), "piover8_daggered": np.diag([1, np.exp(-1j * math.pi / 4)]),
           "hadamard": (_X + _Z) / math.sqrt(2)}
    if name in one:
        return one[name]
    if name == "cx":
        c, t = ids
        return _place({c: _P0}, 2) + _place({c: _P1, t: _X}, 2)
    if name == "cz":
        return _place({0: _P0}, 2) + _place({0: _P1, 1: _Z}, 2)
    if name == "swap":
        return np.array([[1, 0, 0, 0], [0, 0, 1, 0], [0, 1, 0, 0], [0, 0, 0, 1]], dtype=complex)
    if name == "zx90":
        a, b = ids
        return _expm_herm(_place({a: _Z, b: _X}, 2) * (math.pi / 4))
    if name == "zz90":
        return _expm_herm(np.kron(_Z, _Z) * (math.pi / 4))
    if name == "toffoli":
        c1, c2, t = ids
        pp = _place({c1: _P1, c2: _P1}, 3)
        return (np.eye(8) - pp) + _place({c1: _P1, c2: _P1, t: _X}, 3)
    if name == "fredkin":
        c, a, b = ids
        sw = (np.eye(8) + _place({a: _X, b: _X}, 3) + _place({a: _Y, b: _Y}, 3) + _place({a: _Z, b: _Z}, 3)) / 2
        return _place({c: _P0}, 3) + _place({c: _P1}, 3) @ sw
    return None


def _same_channel(u, v):
    """U and V equal up to a global phase"""
    k = np.argmax(np.abs(v))
    idx = np.unravel_index(k, v.shape)
    if abs(u[idx]) < 1e-12:
        return False
    ph = v[idx] / u[idx]
    return abs(abs(ph) - 1) <= 1e-9 and close(u * ph, v)


def _gell(levels, axis):
    a, b = int(levels[0]), int(levels[1])
    m = np.zeros((3, 3), dtype=complex)
    if axis == "x":
        m[a, b] = m[b, a] = 1
    elif axis == "y":
        m[a, b], m[b, a] = -1j, 1j
    else:
        m[a, a], m[b, b] = 1, -1
    return m


def gate_cases(tier, seed):
    """(group, name, mode, n, dims, ids) for every gate in scope"""
    gt = M("gate_typical")
    out = []
    for name in gt.get_gate_names_1qubit():
        out.append(("1qubit", name, "qubit", 1, [2], [0]))
    for name in gt.get_gate_names_2qubit():
        for ids in ([[0, 1], [1, 0]] if name in gt.get_gate_names_2qubit_asymmetric() else [[0, 1]]):
            out.append(("2qubit", name, "qubit", 2, [2, 2], ids))
    for name in gt.get_gate_names_3qubit():
        for ids in itertools.permutations(range(3)):
            out.append(("3qubit", name, "qubit", 3, [2, 2, 2], list(ids)))
    for name in gt.get_gate_names_1qutrit():
        out.append(("1qutrit", name, "qutrit", 1, [3], [0]))
    for mode, n, dims in (("qubit", 1, [2]), ("qubit", 2, [2, 2]), ("qutrit", 1, [3]), ("qubit", 3, [2, 2, 2])):
        out.append(("identity", "identity", mode, n, dims, list(range(n))))
    # 2-qutrit gates: 198 single-base-matrix names and about 39k two-base-matrix names; one entry costs several seconds of the
    # library's own physicality checks, so the family is SAMPLED in both tiers (complete enumeration would take days of CPU)
    rng = random.Random(1000 + seed)
    single = gt.get_gate_names_2qutrit_single_base_matrix()
    double = gt.get_gate_names_2qutrit_two_base_matrices()
    if tier == "quick":
        names2 = rng.sample(single, 12) + rng.sample(double, 4)
    else:
        names2 = single + rng.sample(double, 600)
    for name in names2:
        out.append(("2qutrit", name, "qutrit", 2, [3, 3], [0, 1]))
    return out


def job_gates(group, tier="quick", seed=0, part=0, parts=1):
    gt = M("gate_typical")
    el = M("effective_lindbladian_typical")
    cases = [c for c in gate_cases(tier, seed) if c[0] == group]
    cases = cases[part::parts]
    t = Tally(f"gates/{group}" + (f"/part{part}" if parts > 1 else ""),
              [OBJ + "gate_typical:generate_gate_from_gate_name", OBJ + "gate_typical:generate_gate_mat_from_gate_name",
               OBJ + "gate_typical:generate_unitary_mat_from_gate_name", OBJ + "gate_typical:generate_gate_object_from_gate_name_object_name",
               OBJ + "effective_lindbladian_typical:generate_effective_lindbladian_from_gate_name",
               OBJ + "effective_lindbladian_typical:generate_effective_lindbladian_mat_from_gate_name",
               OBJ + "effective_lindbladian_typical:generate_hamiltonian_mat_from_gate_name"])
    cs = {}
    for grp, name, mode, n, dims, ids in cases:
        key = (mode, n)
        if key not in cs:
            c = csys(mode, n)
            cs[key] = (c, [np.asarray(b.toarray() if hasattr(b, "toarray") else b) for b in c.basis()])
        c, basis = cs[key]
        entry = (name, tuple(ids))
        d = c.dim

        def unitary():
            u = gt.generate_unitary_mat_from_gate_name(name, dims, ids)
            return u.shape == (d, d) and close(u.conj().T @ u, np.eye(d)), "not a unitary of the system's dimension"
        t.guard("unitary-matrix-is-unitary", entry, unitary, "U^dagger U == I")

        def hs():
            u = gt.generate_unitary_mat_from_gate_name(name, dims, ids)
            m = gt.generate_gate_mat_from_gate_name(name, dims, ids)
            return close(m, _hs_from_unitary(u, basis)), "HS matrix != representation of rho -> U rho U^dagger"
        t.guard("hs-matrix==conjugation-by-unitary", entry, hs, "HS_ij == Tr[B_i^dagger U B_j U^dagger]")

        def obj():
            g = gt.generate_gate_from_gate_name(name, c, ids)
            m = gt.generate_gate_mat_from_gate_name(name, dims, ids)
            return close(g.hs, m) and g.is_physical(), f"is_physical={g.is_physical()}"
        t.guard("object-physical-and-equal-to-hs-matrix", entry, obj, "generated Gate is physical and carries the catalogued HS matrix")

        def forms():
            a = gt.generate_gate_object_from_gate_name_object_name(name, "unitary_mat", dims, ids)
            b = gt.generate_gate_object_from_gate_name_object_name(name, "gate_mat", dims, ids)
            g = gt.generate_gate_object_from_gate_name_object_name(name, "gate", dims, ids, c)
            return close(a, gt.generate_unitary_mat_from_gate_name(name, dims, ids)) and close(b, g.hs), "object_name forms disagree"
        t.guard("object_name-forms-agree", entry, forms, "every object_name form returns the same gate")

        ref = textbook_unitary(name, ids)
        refs = [ref]
        if grp == "3qubit":
            # the role of `ids` is documented ambiguously for 3 subsystems ("ids[2] is for target" vs. the library's own interface tests):
            # accept  ids[k] = subsystem playing role k  and  ids[k] = role of subsystem k  (they differ for the two 3-cycles only)
            inv = [list(ids).index(k) for k in range(3)]
            refs.append(textbook_unitary(name, inv))
        if grp == "1qutrit":
            levels, axis, deg = name[:2], name[2], int(name[3:])
            ref = _expm_herm(_gell(levels, axis) * (math.radians(deg) / 2))
        if grp == "identity":
            ref = np.eye(d)
        if grp != "3qubit":
            refs = [ref]
        if ref is not None:
            def textbook():
                u = gt.generate_unitary_mat_from_gate_name(name, dims, ids)
                return any(_same_channel(u, rf) for rf in refs), "unitary differs from the textbook definition (beyond a global phase)"
            t.guard("textbook-definition", entry, textbook, "the unitary is the textbook one up to a global phase (control / target roles from ids)")

        def lind():
            h = el.generate_hamiltonian_mat_from_gate_name(name, dims, ids)
            u = gt.generate_unitary_mat_from_gate_name(name, dims, ids)
            herm = close(h, h.conj().T)
            return herm and _same_channel(_expm_herm(h), u), "exp(-iH) != U up to a phase / H not Hermitian"
        t.guard("hamiltonian-exponential==unitary", entry, lind, "H is Hermitian and exp(-iH) == U up to a global phase")

        def hvec():
            h = el.generate_hamiltonian_mat_from_gate_name(name, dims, ids)
            v = el.generate_hamiltonian_vec_from_gate_name(name, dims, ids)
            basis = [np.asarray(b.toarray() if hasattr(b, "toarray") else b) for b in c.basis()]
            ref = np.array([np.trace(b.conj().T @ h) for b in basis])
            return close(np.asarray(v, dtype=complex), ref), "hamiltonian_vec is not the coefficient vector of hamiltonian_mat"
        t.guard("hamiltonian-vector==coefficients-of-hamiltonian-matrix", entry, hvec,
                "hamiltonian_vec[a] == Tr(B_a^dagger H) for the catalogued Hamiltonian matrix H (traceful part included)")

        def lmat():
            lm = el.generate_effective_lindbladian_mat_from_gate_name(name, dims, ids)
            m = gt.generate_gate_mat_from_gate_name(name, dims, ids)
            import scipy.linalg
            lo = el.generate_effective_lindbladian_from_gate_name(name, c, ids)
            return close(scipy.linalg.expm(lm), m, 1e-8) and close(lo.hs, lm) and lo.is_physical() and close(lo.to_gate().hs, m, 1e-8), "exp(L) != gate"
        t.guard("lindbladian-exponential==gate", entry, lmat, "exp(L) == HS matrix of the gate; the EffectiveLindbladian object is physical and to_gate() gives the gate")
    return t.results(f"bounded: {len(cases)} (gate name, ids) entries of {group}" + (" (SAMPLED: 12 single + 4 two-base-matrix names)" if (group == '2qutrit' and tier == 'quick') else (" (all 198 single-base-matrix names, 600 SAMPLED two-base-matrix names of about 39k)" if group == '2qutrit' else "")))


ACTIONS_1Q = [("x", "z0", "z1"), ("x", "x0", "x0"), ("y", "z0", "z1"), ("z", "x0", "x1"), ("z", "z0", "z0"), ("hadamard", "z0", "x0"), ("hadamard", "x0", "z0"),
              ("hadamard", "y0", "y1"), ("phase", "x0", "y0"), ("phase_daggered", "y0", "x0"), ("x90", "z0", "y1"), ("y90", "z0", "x0"), ("z90", "x0", "y0"),
              ("zm90", "y0", "x0"), ("x180", "z0", "z1"), ("y180", "z0", "z1"), ("z180", "x0", "x1"), ("piover8", "z1", "z1")]
ACTIONS_2Q = [("cx", [0, 1], "z1_z0", "z1_z1"), ("cx", [0, 1], "z0_z1", "z0_z1"), ("cx", [1, 0], "z0_z1", "z1_z1"), ("cx", [1, 0], "z1_z0", "z1_z0"),
              ("cx", [0, 1], "x0_z0", "bell_phi_plus"), ("cz", [0, 1], "x0_z1", "x1_z1"), ("swap", [0, 1], "z0_z1", "z1_z0"), ("swap", [0, 1], "x0_y1", "y1_x0")]
ACTIONS_3Q = [("toffoli", [0, 1, 2], "z1_z1_z0", "z1_z1_z1"), ("toffoli", [0, 1, 2], "z1_z0_z0", "z1_z0_z0"), ("toffoli", [0, 2, 1], "z1_z0_z1", "z1_z1_z1"), ("toffoli", [1, 0, 2], "z1_z1_z1", "z1_z1_z0"),
              ("fredkin", [0, 1, 2], "z1_z0_z1", "z1_z1_z0"), ("fredkin", [0, 1, 2], "z0_z0_z1", "z0_z0_z1"), ("fredkin", [1, 0, 2], "z0_z1_z1", "z1_z1_z0")]


def job_actions(seed=0):
    gt, st, ops = M("gate_typical"), M("state_typical"), M("operators")
    t = Tally("gate-actions", [OBJ + "gate_typical:generate_gate_from_gate_name", OBJ + "state_typical:generate_state_from_name", OBJ + "operators:compose_qoperations"])
    for n, table in ((1, [(g, [0], a, b) for g, a, b in ACTIONS_1Q]), (2, ACTIONS_2Q), (3, ACTIONS_3Q)):
        c = csys("qubit", n)
        for g, ids, a, b in table:
            def act():
                gate = gt.generate_gate_from_gate_name(g, c, ids)
                out = ops.compose_qoperations(gate, st.generate_state_from_name(c, a))
                return close(out.vec, st.generate_state_from_name(c, b).vec), f"{g}{ids} |{a}> != |{b}>"
            t.guard("named-gate-maps-named-state-as-textbook-says", (g, tuple(ids), a, b), act, "gate |a> == |b> for the textbook table")
    return t.results("bounded: 33 textbook (gate, input state, output state) triples on 1-3 qubits")


# ------------------------------------------------------------------ measurement processes, ensembles

def job_mprocess(seed=0):
    mp, pt = M("mprocess_typical"), M("povm_typical")
    t = Tally("mprocesses", [OBJ + "mprocess_typical:generate_mprocess_from_name", OBJ + "mprocess_typical:generate_mprocess_hss_from_name",
                             OBJ + "mprocess_typical:generate_mprocess_set_kraus_matrices_from_name", OBJ + "mprocess_typical:generate_mprocess_set_pure_state_vectors_from_name",
                             OBJ + "mprocess_typical:generate_mprocess_object_from_mprocess_name_object_name"])
    one_q = ["x-type1", "y-type1", "z-type1", "x-type2", "y-type2", "z-type2"]
    two_q = ["bell-type1", "xxparity-type1", "zzparity-type1"]
    one_t = ["z3-type1", "z2-type1", "z3-type2", "z2-type2"]
    listed = set(mp.get_mprocess_names_type1() + mp.get_mprocess_names_type2())
    t.check("catalogue-is-the-expected-set", listed == set(one_q + two_q + one_t), sorted(listed), "type1 + type2 names are the thirteen documented ones")
    cases = [("qubit", 1, nm) for nm in one_q] + [("qubit", 2, nm) for nm in two_q] + [("qutrit", 1, nm) for nm in one_t]
    cases += [("qubit", 2, a + "_" + b) for a in one_q for b in one_q] + [("qutrit", 2, a + "_" + b) for a in one_t for b in one_t]
    pure_names = set(mp.get_mprocess_names_type1_set_pure_state_vectors())
    cs = {}
    for mode, n, name in cases:
        if (mode, n) not in cs:
            c = csys(mode, n)
            cs[(mode, n)] = (c, [np.asarray(b.toarray() if hasattr(b, "toarray") else b) for b in c.basis()])
        c, basis = cs[(mode, n)]
        d = c.dim

        def kraus():
            ks = mp.generate_mprocess_set_kraus_matrices_from_name(name)
            tot = sum(k.conj().T @ k for branch in ks for k in branch)
            return all(k.shape == (d, d) for branch in ks for k in branch) and close(tot, np.eye(d)), "sum K^dagger K != I"
        t.guard("kraus-sets-are-complete", name, kraus, "sum over outcomes and Kraus operators of K^dagger K == I")

        def hss():
            ks = mp.generate_mprocess_set_kraus_matrices_from_name(name)
            hs = mp.generate_mprocess_hss_from_name(name, c)
            ok = len(ks) == len(hs)
            for branch, h in zip(ks, hs):
                ref = np.zeros((d * d, d * d), dtype=complex)
                for j, bj in enumerate(basis):
                    img = sum(k @ bj @ k.conj().T for k in branch)
                    for i, bi in enumerate(basis):
                        ref[i, j] = np.trace(bi.conj().T @ img)
                ok = ok and close(h, ref)
            return ok, "HS matrices != representation of rho -> sum K rho K^dagger"
        t.guard("hs-matrices==kraus-action", name, hss, "hss[x]_ij == Tr[B_i^dagger sum_k K_xk B_j K_xk^dagger]")

        def obj():
            o = mp.generate_mprocess_from_name(c, name)
            hs = mp.generate_mprocess_hss_from_name(name, c)
            return o.is_physical() and len(o.hss) == len(hs) and all(close(a, b) for a, b in zip(o.hss, hs)), f"is_physical={o.is_physical()}"
        t.guard("object-physical-and-equal-to-hs-matrices", name, obj, "generated MProcess is physical and carries the catalogued HS matrices")
        if all(p in pure_names for p in name.split("_")):
            def pure():
                vs = mp.generate_mprocess_set_pure_state_vectors_from_name(name)
                ks = mp.generate_mprocess_set_kraus_matrices_from_name(name)
                flat = [np.outer(v, v.conj()) for b in vs for v in np.atleast_2d(np.asarray(b))]
                kflat = [k for b in ks for k in np.asarray(b).reshape((-1,) + np.asarray(b).shape[-2:])]
                return len(flat) == len(kflat) and all(close(a, b) for a, b in zip(kflat, flat)), "Kraus operators != |v><v|"
            t.guard("type1-kraus==projectors-on-pure-vectors", name, pure, "type-1 processes: K_x == |v_x><v_x|")

        def forms():
            a = mp.generate_mprocess_object_from_mprocess_name_object_name(name, "hss", c)
            b = mp.generate_mprocess_object_from_mprocess_name_object_name(name, "mprocess", c)
            return all(close(x, y) for x, y in zip(a, b.hss)) and type(b).__name__ == "MProcess", "object_name forms disagree"
        t.guard("object_name-forms-agree", name, forms, "hss and mprocess forms agree")
    c1 = cs[("qubit", 1)][0]
    for bad in BAD_NAMES + ["x-type1_", "x_type1", "w-type1"]:
        def rej():
            try:
                r = mp.generate_mprocess_from_name(c1, bad)
            except Exception:
                return True, ""
            return False, f"returned {type(r).__name__}"
        t.guard("unknown-name-raises", bad, rej, "a name outside the catalogue raises instead of yielding an object")
    return t.results(f"bounded: {len(cases)} measurement-process names (13 single names on their systems, all 36 + 16 two-fold products)")


def job_ensembles(seed=0):
    se, st = M("state_ensemble_typical"), M("state_typical")
    c = csys("qubit", 1)
    t = Tally("state-ensembles", [OBJ + "state_ensemble_typical:generate_state_ensemble_from_name", OBJ + "state_ensemble_typical:generate_state_ensemble_elements_from_name",
                                  OBJ + "state_ensemble_typical:get_state_ensemble_names"])
    for name in se.get_state_ensemble_names():
        def gen():
            e = se.generate_state_ensemble_from_name(c, name)
            ps = np.asarray(e.prob_dist.ps, dtype=float)
            ok = abs(ps.sum() - 1) <= TOL and bool(np.all(ps >= 0)) and all(s.is_physical() for s in e.states) and len(e.states) == len(ps)
            return ok, "not a probability distribution over physical states"
        t.guard("listed-name-generates-a-physical-ensemble", name, gen, "every listed ensemble name can be generated: physical states with a probability distribution")

        def avg():
            e = se.generate_state_ensemble_from_name(c, name)
            ps = np.asarray(e.prob_dist.ps, dtype=float)
            mean = sum(p * s.vec for p, s in zip(ps, e.states))
            target = st.generate_state_from_name(c, name).vec
            return close(mean, target) or abs(ps.max() - 0.5) <= TOL, "ensemble named after a state does not contain it with probability one"
        t.guard("ensemble-named-after-a-state-prepares-it", name, avg, "a sharp ensemble named after a state averages to that state")
    for bad in BAD_NAMES:
        if bad in se.get_state_ensemble_names():
            continue
        def rej():
            try:
                r = se.generate_state_ensemble_from_name(c, bad)
            except Exception:
                return True, ""
            return False, f"returned {type(r).__name__}"
        t.guard("unknown-name-raises", bad, rej, "a name outside the catalogue raises instead of yielding an object")
    return t.results("bounded: all listed state-ensemble names")


def job_canary(seed=0):
    """deliberately false catalogue claims must be refuted by the same machinery (vacuity guard)"""
    gt, st, ops = M("gate_typical"), M("state_typical"), M("operators")
    c = csys("qubit", 1)
    t = Tally("canary", [])

    def act(g, a, b):
        gate = gt.generate_gate_from_gate_name(g, c, [0])
        out = ops.compose_qoperations(gate, st.generate_state_from_name(c, a))
        return close(out.vec, st.generate_state_from_name(c, b).vec), ""
    t.guard("x-maps-z0-to-z0", ("x", "z0", "z0"), lambda: act("x", "z0", "z0"))
    t.guard("hadamard-is-textbook-z", "hadamard", lambda: (_same_channel(gt.generate_unitary_mat_from_gate_name("hadamard", [2], [0]), _Z), ""))
    t.guard("unknown-name-accepted", "x0", lambda: (st.generate_state_from_name(c, "nonsense") is not None, ""))
    out = []
    for label in sorted(t.count):
        ok = label in t.fail
        out.append(ObResult(name=f"C17/canary/{label}", status=R.CANARY_OK if ok else R.FAULT, prop="C17", engine="E0-enumeration",
                            clause="(deliberately false) " + label, detail="refuted as it must be" if ok else "a false catalogue claim was NOT refuted",
                            scope="canary", function=""))
    return out


# ------------------------------------------------------------------ legacy named constructors (gate.get_*, state.get_*_1q, povm.get_*_povm)

def job_legacy(seed=0):
    g, s, p = M("gate"), M("state"), M("povm")
    st, pt = M("state_typical"), M("povm_typical")
    c1, c2 = csys("qubit", 1), csys("qubit", 2)
    b1 = [np.asarray(b.toarray() if hasattr(b, "toarray") else b) for b in c1.basis()]
    b2 = [np.asarray(b.toarray() if hasattr(b, "toarray") else b) for b in c2.basis()]
    t = Tally("legacy-constructors", [OBJ + "gate:get_i", OBJ + "gate:get_x", OBJ + "gate:get_y", OBJ + "gate:get_z", OBJ + "gate:get_h", OBJ + "gate:get_root_x",
                                      OBJ + "gate:get_root_y", OBJ + "gate:get_s", OBJ + "gate:get_sdg", OBJ + "gate:get_t", OBJ + "gate:get_cnot", OBJ + "gate:get_cz",
                                      OBJ + "gate:get_swap", OBJ + "gate:get_depolarizing_channel", OBJ + "gate:get_x_rotation", OBJ + "gate:get_amplitutde_damping_channel",
                                      OBJ + "state:get_x0_1q", OBJ + "state:get_bell_2q", OBJ + "povm:get_x_povm", OBJ + "povm:get_xx_povm"])
    one = {"get_i": _I, "get_x": _X, "get_y": _Y, "get_z": _Z, "get_h": (_X + _Z) / math.sqrt(2), "get_root_x": _rot(_X, 90), "get_root_y": _rot(_Y, 90),
           "get_s": np.diag([1, 1j]), "get_sdg": np.diag([1, -1j]), "get_t": np.diag([1, np.exp(1j * math.pi / 4)])}
    for fn, u in one.items():
        def chk():
            gate = getattr(g, fn)(c1)
            return close(gate.hs, _hs_from_unitary(u, b1).real) and gate.is_physical(), "HS matrix differs from the textbook unitary's"
        t.guard("one-qubit-gate==textbook", fn, chk, "gate.get_<name>(c_sys) is the textbook gate (HS matrix of U . U^dagger) and physical")
    for ci in (0, 1):
        def chk():
            gate = g.get_cnot(c2, c2.elemental_systems[ci])
            u = textbook_unitary("cx", [ci, 1 - ci])
            return close(gate.hs, _hs_from_unitary(u, b2).real) and gate.is_physical(), "CNOT differs from the textbook one with this control"
        t.guard("cnot==textbook", ("get_cnot", ci), chk, "get_cnot(c_sys, control) is CNOT with that control qubit")
    for fn, name in (("get_cz", "cz"), ("get_swap", "swap")):
        def chk():
            gate = getattr(g, fn)(c2)
            return close(gate.hs, _hs_from_unitary(textbook_unitary(name, [0, 1]), b2).real) and gate.is_physical(), "differs from the textbook gate"
        t.guard("two-qubit-gate==textbook", fn, chk, "get_cz / get_swap are the textbook gates")
    for th in (0.0, 0.3, math.pi / 2, 2.5, -1.1):
        def chk():
            gate = g.get_x_rotation(th, c1)
            return close(gate.hs, _hs_from_unitary(_expm_herm(_X * (th / 2)), b1).real) and gate.is_physical(), "differs from exp(-i theta X / 2)"
        t.guard("x-rotation==textbook", ("get_x_rotation", th), chk, "get_x_rotation(theta) is rho -> R_x(theta) rho R_x(theta)^dagger")
    for q in (0.0, 0.2, 0.75, 1.0):
        def chk():
            gate = g.get_depolarizing_channel(q, c1)
            ref = np.diag([1.0] + [1 - q] * 3)
            return close(gate.hs, ref) and gate.is_physical(), "differs from (1-p) id + p (replace by I/2)"
        t.guard("depolarizing==textbook", ("get_depolarizing_channel", q), chk, "depolarizing channel of rate p")

        def chk2():
            gate = g.get_amplitutde_damping_channel(q, c1)
            k0 = np.array([[1, 0], [0, math.sqrt(1 - q)]], dtype=complex)
            k1 = np.array([[0, math.sqrt(q)], [0, 0]], dtype=complex)
            ref = np.zeros((4, 4), dtype=complex)
            for j, bj in enumerate(b1):
                img = k0 @ bj @ k0.conj().T + k1 @ bj @ k1.conj().T
                for i, bi in enumerate(b1):
                    ref[i, j] = np.trace(bi.conj().T @ img)
            return close(gate.hs, ref.real) and gate.is_physical(), "differs from the amplitude-damping channel with Kraus operators (|0><0| + sqrt(1-g)|1><1|, sqrt(g)|0><1|)"
        t.guard("amplitude-damping==textbook", ("get_amplitutde_damping_channel", q), chk2, "amplitude damping of rate gamma")
    for nm in ("x0", "x1", "y0", "y1", "z0", "z1"):
        def chk():
            v = getattr(s, f"get_{nm}_1q")(c1)
            v = v.vec if hasattr(v, "vec") else v
            return close(v, st.generate_state_from_name(c1, nm).vec), "differs from the catalogued state of that name"
        t.guard("legacy-state==catalogue", f"get_{nm}_1q", chk, "state.get_<name>_1q agrees with the catalogue entry <name>")

    def bell():
        v = s.get_bell_2q(c2)
        v = v.vec if hasattr(v, "vec") else v
        return close(v, st.generate_state_from_name(c2, "bell_phi_plus").vec), "differs from the catalogued Bell state phi+"
    t.guard("legacy-state==catalogue", "get_bell_2q", bell, "state.get_bell_2q is the catalogued Bell state (|00> + |11>)/sqrt 2")
    for a in "xyz":
        def chk():
            pv = getattr(p, f"get_{a}_povm")(c1)
            ref = pt.generate_povm_from_name(a, c1)
            return len(pv.vecs) == len(ref.vecs) and all(close(u, v) for u, v in zip(pv.vecs, ref.vecs)) and pv.is_physical(), "differs from the catalogued POVM"
        t.guard("legacy-povm==catalogue", f"get_{a}_povm", chk, "povm.get_<a>_povm agrees with the catalogue entry")
        for b in "xyz":
            def chk2():
                pv = getattr(p, f"get_{a}{b}_povm")(c2)
                ref = pt.generate_povm_from_name(f"{a}_{b}", c2)
                return len(pv.vecs) == len(ref.vecs) and all(close(u, v) for u, v in zip(pv.vecs, ref.vecs)) and pv.is_physical(), "differs from the catalogued product POVM"
            t.guard("legacy-povm==catalogue", f"get_{a}{b}_povm", chk2, "povm.get_<ab>_povm agrees with the catalogue entry a_b")
    return t.results("bounded: all legacy named constructors of gate.py / state.py / povm.py (parametrised channels at 4-5 parameter values)")


def job_testers(seed=0):
    """tester_typical and generate_composite_system"""
    tt, st, pt = M("tester_typical"), M("state_typical"), M("povm_typical")
    t = Tally("testers-and-systems", [OBJ + "tester_typical:generate_tester_states", OBJ + "tester_typical:generate_tester_povms",
                                      OBJ + "tester_typical:generate_tester_states_depolarized", OBJ + "tester_typical:generate_tester_povms_depolarized",
                                      OBJ + "composite_system_typical:generate_composite_system"])
    for mode, n, d in (("qubit", 1, 2), ("qubit", 2, 2), ("qubit", 3, 2), ("qutrit", 1, 3), ("qutrit", 2, 3)):
        for ids in (None, list(range(5, 5 + n)), list(range(n))[::-1]):
            def chk():
                c = M("composite_system_typical").generate_composite_system(mode, n, ids_esys=ids) if ids is not None else csys(mode, n)
                names = [e.name for e in c.elemental_systems]
                want = sorted(ids) if ids is not None else list(range(n))
                return c.dim == d ** n and c.num_e_sys == n and names == want and all(e.dim == d for e in c.elemental_systems), f"dim {c.dim}, names {names}"
            t.guard("composite-system-has-the-requested-shape", (mode, n, tuple(ids) if ids else None), chk,
                    "generate_composite_system(mode, n, ids): n elemental systems of the mode's dimension, named by ids in ascending order")
    for mode, n, snames, pnames in (("qubit", 1, ["x0", "y0", "z0", "z1"], ["x", "y", "z"]), ("qutrit", 1, ["01z0", "12z1", "02x0", "01y0"], ["z3", "z2", "01x3", "02y3"]),
                                    ("qubit", 2, ["z0", "x0", "y1"], ["x", "z"])):
        c = csys(mode, n)
        # on n subsystems the helpers take single-system names and return every product, first subsystem slowest
        full_s = ["_".join(tup) for tup in itertools.product(snames, repeat=n)]
        full_p = ["_".join(tup) for tup in itertools.product(pnames, repeat=n)]

        def chk_s():
            got = tt.generate_tester_states(c, snames)
            ref = [st.generate_state_from_name(c, nm) for nm in full_s]
            return len(got) == len(ref) and all(close(a.vec, b.vec) for a, b in zip(got, ref)), "tester states differ from the catalogue entries"
        t.guard("tester-states==catalogue-entries", (mode, n), chk_s, "generate_tester_states(names) are the catalogued states in that order")

        def chk_p():
            got = tt.generate_tester_povms(c, pnames)
            ref = [pt.generate_povm_from_name(nm, c) for nm in full_p]
            return len(got) == len(ref) and all(len(a.vecs) == len(b.vecs) and all(close(u, v) for u, v in zip(a.vecs, b.vecs)) for a, b in zip(got, ref)), "tester POVMs differ"
        t.guard("tester-povms==catalogue-entries", (mode, n), chk_p, "generate_tester_povms(names) are the catalogued POVMs in that order")
        for rate in (0.0, 0.25) + (([0.1 * (k + 1) for k in range(len(snames))],) if n == 1 else ()):
            def chk_d():
                got = tt.generate_tester_states_depolarized(c, snames, rate)
                ok = len(got) == len(full_s)
                for k, (a, nm) in enumerate(zip(got, full_s)):
                    q = rate if isinstance(rate, float) else rate[k]
                    v = st.generate_state_from_name(c, nm).vec
                    ref = np.concatenate([[v[0]], (1 - q) * v[1:]])
                    ok = ok and close(a.vec, ref) and a.is_physical()
                return ok, "depolarized tester state != (1-p) state + p I/d"
            t.guard("depolarized-tester-states", (mode, n, str(rate)), chk_d, "depolarized tester states mix the catalogued state with the maximally mixed one in proportion p")
        for rate in (0.0, 0.25) + (([0.1 * (k + 1) for k in range(len(pnames))],) if n == 1 else ()):
            def chk_dp():
                got = tt.generate_tester_povms_depolarized(c, pnames, rate)
                ok = len(got) == len(full_p)
                for k, (a, nm) in enumerate(zip(got, full_p)):
                    q = rate if isinstance(rate, float) else rate[k]
                    for u, v in zip(a.vecs, pt.generate_povm_from_name(nm, c).vecs):
                        ok = ok and close(u, np.concatenate([[v[0]], (1 - q) * v[1:]]))
                    ok = ok and a.is_physical()
                return ok, "depolarized tester POVM != (1-p) E + p Tr(E) I/d"
            t.guard("depolarized-tester-povms", (mode, n, str(rate)), chk_dp, "depolarized tester POVMs likewise")
    return t.results("bounded: composite systems for 5 system shapes x 3 id lists; tester helpers on 3 systems, 3 rate settings")

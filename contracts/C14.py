"""C14 sampled data and empirical distributions: jobs"""
from qverif.core.runner import Job

META = dict(
    level="proof",
    trusted_base=["CPython ast", "z3 5.1.0", "E1 pyvc VC generator", "E2 symtwin model incl. the ghost random streams (qverif/symtwin/symrandom.py)"],
    assumptions=["IEEE doubles treated as exact reals (cumulative sums in the sampler)",
                 "numpy / scipy random generators implement their distributions (trusted; distributional agreement is not decided)"],
)


def job_sampler(seed=0, timeout_s=10.0):
    from qverif.pyvc.verify import verify
    from . import C14_e1 as C
    return verify(C.sampler_contract(), "C14/_random_number_to_data", timeout_s=timeout_s, seed=seed, gen_concrete=C.sampler_gen, n_selfcheck=40)


def job_empi(m, seed=0, timeout_s=10.0):
    from qverif.pyvc.verify import verify
    from . import C14_e1 as C
    return verify(C.empi_contract(m), f"C14/calc_empi_dist_sequence[m={m}]", timeout_s=timeout_s, seed=seed, gen_concrete=C.empi_gen(m), n_selfcheck=30)


def jobs(tier, seed):
    t = 30.0 if tier == "quick" else 90.0
    js = [Job("C14/sampler", "contracts.C14:job_sampler", dict(seed=seed, timeout_s=t))]
    for m in ([2, 3, 4] if tier == "quick" else list(range(2, 17))):
        js.append(Job(f"C14/empi/{m}", "contracts.C14:job_empi", dict(m=m, seed=seed, timeout_s=t)))
    from .C02 import e2_jobs
    js += e2_jobs("C14", ["contracts.C14_e2:SeededGeneration", "contracts.C14_e2:SampleRouting", "contracts.C14_e2:ResetSeed", "contracts.C14_e2:DatasetSeeds"], tier, seed)
    return js

CLAIM = {'engine': 'E1-pyvc + E2-symtwin', 'level': 'proof',
 'text': 'E1, unbounded in data length: the inverse-CDF sampler returns an in-range index that is the smallest k with r < p_0+..+p_k and NEVER an outcome of zero probability (loop invariants over prefix sums, both loops); calc_empi_dist_sequence returns one entry per requested size, each exactly (n, counts of the first n data / n), non-negative and summing to one (invariant: frequency vector = prefix counts). E2 with ghost random streams: for twelve data-generation entry points (data_generator, Experiment, the four tomography classes) an integer seed draws only from the stream the seed identifies, from its start, and never touches the global state; a caller-owned generator is advanced by exactly the draws made; without seed the global state is used; empirical distributions are counts / n.',
 'note': 'Not decided: that sampling follows the requested distribution (numpy / scipy generators trusted). Floats as reals. calc_empi_dist_sequence for measurement_num 2..4 (2..16 thorough), requested sizes >= 1 (what every call site passes).',
 'technique': 'contract-based deductive verification (AST->VC with loop invariants and ghost prefix sums / counts, z3; symbolic execution with ghost random streams)'}

"""C02 (gate part): HS <-> Choi conversions and their alternative implementations."""
from qverif.symtwin.verify import E2Contract, eq, true
from ._cfg import make_csys, DIMS

G = "quara.objects.gate"


class ChoiFromHs(E2Contract):
    name = "to_choi_from_hs*"
    prop = "C02"
    targets = (G + ":to_choi_from_hs", G + ":to_choi_from_hs_with_dict", G + ":to_choi_from_hs_with_sparsity")

    def configs(self, tier):
        return ["1q", "1qt"] + (["2q"] if tier == "thorough" else [])

    def inputs(self, W, cfg, mk):
        n = DIMS[cfg] ** 2
        return dict(c_sys=make_csys(W, cfg), hs=mk.array("hs", (n, n)))

    def run(self, W, cfg, inp):
        g = W.mod(G)
        return [g.to_choi_from_hs(inp["c_sys"], inp["hs"]),
                g.to_choi_from_hs_with_dict(inp["c_sys"], inp["hs"]),
                g.to_choi_from_hs_with_sparsity(inp["c_sys"], inp["hs"])]

    def post(self, W, cfg, inp, out):
        spec = W.S.choi_from_hs(inp["c_sys"], inp["hs"])
        return [eq("formula/plain", out[0], spec, "to_choi_from_hs(hs) == sum HS_ab B_a (x) conj B_b"),
                eq("formula/dict", out[1], spec, "to_choi_from_hs_with_dict(hs) == the same formula"),
                eq("formula/sparsity", out[2], spec, "to_choi_from_hs_with_sparsity(hs) == the same formula")]

    def canary(self, W, cfg, inp, out):
        spec = W.S.choi_from_hs(inp["c_sys"], inp["hs"])
        return [eq("canary", out[0], spec.T, "(false) result == transpose of the formula")]


class HsFromChoi(E2Contract):
    name = "to_hs_from_choi*"
    prop = "C02"
    targets = (G + ":to_hs_from_choi", G + ":to_hs_from_choi_with_dict", G + ":to_hs_from_choi_with_sparsity")

    def configs(self, tier):
        return ["1q", "1qt"] + (["2q"] if tier == "thorough" else [])

    def inputs(self, W, cfg, mk):
        # domain: Choi matrices of Hermiticity-preserving maps = images of real HS matrices
        n = DIMS[cfg] ** 2
        c_sys = make_csys(W, cfg)
        hs = mk.array("hs", (n, n))
        return dict(c_sys=c_sys, hs=hs, choi=W.S.choi_from_hs(c_sys, hs))

    def run(self, W, cfg, inp):
        g = W.mod(G)
        return [g.to_hs_from_choi(inp["c_sys"], inp["choi"])]

    def post(self, W, cfg, inp, out):
        return [eq("inverse/plain", out[0], inp["hs"], "to_hs_from_choi(Choi(hs)) == hs for every real hs")]

    def canary(self, W, cfg, inp, out):
        return [eq("canary", out[0], inp["hs"].T, "(false) to_hs_from_choi(Choi(hs)) == hs^T")]

"""C02 (gate part): HS <-> Choi conversions and their alternative implementations."""
from qverif.symtwin.verify import E2Contract, eq, true
from ._cfg import make_csys, DIMS, split_layout, as_layout

G = "quara.objects.gate"


class ChoiFromHs(E2Contract):
    name = "to_choi_from_hs*"
    prop = "C02"
    targets = (G + ":to_choi_from_hs", G + ":to_choi_from_hs_with_dict", G + ":to_choi_from_hs_with_sparsity")

    def configs(self, tier):
        # "/F": the same arbitrary matrix handed over as a transposed view (Fortran memory order) - array semantics do not depend on layout
        return ["1q", "1qt", "1q/F", "1qt/F"] + (["2q", "2q/F"] if tier == "thorough" else [])

    def inputs(self, W, cfg, mk):
        name, layout = split_layout(cfg)
        n = DIMS[name] ** 2
        return dict(c_sys=make_csys(W, name), hs=as_layout(mk.array("hs", (n, n)), layout))

    def run(self, W, cfg, inp):
        g = W.mod(G)
        return [g.to_choi_from_hs(inp["c_sys"], inp["hs"]),
                g.to_choi_from_hs_with_dict(inp["c_sys"], inp["hs"]),
                g.to_choi_from_hs_with_sparsity(inp["c_sys"], inp["hs"])]

    def post(self, W, cfg, inp, out):
        spec = W.S.choi_from_hs(inp["c_sys"], inp["hs"])
        return [eq("formula/plain", out[0], spec, "to_choi_from_hs(hs) == sum HS_ab B_a (x) conj B_b"),
                eq("formula/dict", out[1], spec, "to_choi_from_hs_with_dict(hs) == the same formula"),
                eq("formula/sparsity", out[2], spec, "to_choi_from_hs_with_sparsity(hs) == the same formula")]

    def canary(self, W, cfg, inp, out):
        spec = W.S.choi_from_hs(inp["c_sys"], inp["hs"])
        return [eq("canary", out[0], spec.T, "(false) result == transpose of the formula")]


class HsFromChoi(E2Contract):
    name = "to_hs_from_choi*"
    prop = "C02"
    targets = (G + ":to_hs_from_choi", G + ":to_hs_from_choi_with_dict", G + ":to_hs_from_choi_with_sparsity")

    def configs(self, tier):
        return ["1q", "1qt", "1q/F"] + (["2q", "1qt/F"] if tier == "thorough" else [])

    def inputs(self, W, cfg, mk):
        # domain: Choi matrices of Hermiticity-preserving maps = images of real HS matrices
        name, layout = split_layout(cfg)
        n = DIMS[name] ** 2
        c_sys = make_csys(W, name)
        hs = mk.array("hs", (n, n))
        choi = W.S.choi_from_hs(c_sys, hs)
        if layout:
            choi = choi.T.copy().T          # same matrix, Fortran memory order
        return dict(c_sys=c_sys, hs=hs, choi=choi)

    def run(self, W, cfg, inp):
        g = W.mod(G)
        return [g.to_hs_from_choi(inp["c_sys"], inp["choi"])]

    def post(self, W, cfg, inp, out):
        return [eq("inverse/plain", out[0], inp["hs"], "to_hs_from_choi(Choi(hs)) == hs for every real hs")]

    def canary(self, W, cfg, inp, out):
        return [eq("canary", out[0], inp["hs"].T, "(false) to_hs_from_choi(Choi(hs)) == hs^T")]


class HsFromChoiTruncating(E2Contract):
    """the dict / sparsity implementations truncate: each entry is the exact value or 0 below eps"""
    name = "to_hs_from_choi_with_(dict|sparsity)"
    prop = "C02"
    targets = (G + ":to_hs_from_choi_with_dict", G + ":to_hs_from_choi_with_sparsity", "quara.utils.matrix_util:truncate_hs",
               "quara.utils.matrix_util:truncate_imaginary_part", "quara.utils.matrix_util:truncate_computational_fluctuation")

    def configs(self, tier):
        return ["1q", "1qt", "1q/F"] + (["2q", "1qt/F"] if tier == "thorough" else [])

    def inputs(self, W, cfg, mk):
        name, layout = split_layout(cfg)
        n = DIMS[name] ** 2
        c_sys = make_csys(W, name)
        hs = mk.array("hs", (n, n))
        eps = mk.real("eps")
        mk.require(eps > 0)
        mk.require(eps <= 1e-2)
        choi = W.S.choi_from_hs(c_sys, hs)
        if layout:
            choi = choi.T.copy().T          # same matrix, Fortran memory order
        return dict(c_sys=c_sys, hs=hs, choi=choi, eps=eps)

    def sample(self, cfg, names, rng):
        vals = {n: rng.uniform(-1.5, 1.5) for n in names}
        vals["eps"] = 10 ** rng.uniform(-13, -2)
        return vals

    def run(self, W, cfg, inp):
        g = W.mod(G)
        return [g.to_hs_from_choi_with_dict(inp["c_sys"], inp["choi"], inp["eps"]),
                g.to_hs_from_choi_with_sparsity(inp["c_sys"], inp["choi"], inp["eps"])]

    def post(self, W, cfg, inp, out):
        return [true("inverse/dict", W.S.truncated(out[0], inp["hs"], inp["eps"]),
                     "to_hs_from_choi_with_dict(Choi(hs)) == hs up to the truncation rule"),
                true("inverse/sparsity", W.S.truncated(out[1], inp["hs"], inp["eps"]),
                     "to_hs_from_choi_with_sparsity(Choi(hs)) == hs up to the truncation rule")]


class ChoiVar(E2Contract):
    name = "to_choi_from_var / to_var_from_choi"
    prop = "C02"
    targets = (G + ":to_choi_from_var", G + ":to_var_from_choi")

    def configs(self, tier):
        out = []
        for s in ["1q", "1qt"] + (["2q"] if tier == "thorough" else []):
            out += [(s, True), (s, False)]
        return out

    def inputs(self, W, cfg, mk):
        n = DIMS[cfg[0]] ** 2
        rows = n - 1 if cfg[1] else n
        return dict(c_sys=make_csys(W, cfg[0]), var=mk.array("var", rows * n))

    def run(self, W, cfg, inp):
        g = W.mod(G)
        choi = g.to_choi_from_var(inp["c_sys"], inp["var"], cfg[1])
        return [choi, g.to_var_from_choi(inp["c_sys"], choi, cfg[1])]

    def post(self, W, cfg, inp, out):
        np = W.np
        n = DIMS[cfg[0]] ** 2
        body = inp["var"].reshape((n - 1, n)) if cfg[1] else inp["var"].reshape((n, n))
        if cfg[1]:
            first = np.zeros((1, n))
            first[0, 0] = 1
            hs = np.vstack([first, body])
        else:
            hs = body
        return [eq("formula/to_choi_from_var", out[0], W.S.choi_from_hs(inp["c_sys"], hs),
                   "to_choi_from_var(var) == Choi of the HS matrix the variables denote (implied first row e0)"),
                true("inverse/to_var_from_choi", W.S.truncated(out[1], inp["var"], W.mod("quara.settings").Settings.get_atol()),
                     "to_var_from_choi(to_choi_from_var(var)) == var (up to the truncation rule at the global atol)")]


class HsFromKraus(E2Contract):
    name = "to_hs_from_kraus_matrices"
    prop = "C02"
    targets = (G + ":to_hs_from_kraus_matrices", G + ":convert_hs")

    def configs(self, tier):
        return [("1q", 1), ("1q", 2)] + ([("1qt", 1), ("1q", 4)] if tier == "thorough" else [])

    def inputs(self, W, cfg, mk):
        d = DIMS[cfg[0]]
        eps = mk.real("eps")
        mk.require(eps > 0)
        mk.require(eps <= 1e-2)
        return dict(c_sys=make_csys(W, cfg[0]), kraus=[mk.carray(f"K{k}", (d, d)) for k in range(cfg[1])], eps=eps)

    def sample(self, cfg, names, rng):
        vals = {n: rng.uniform(-1.5, 1.5) for n in names}
        vals["eps"] = 10 ** rng.uniform(-13, -2)
        return vals

    def run(self, W, cfg, inp):
        return W.mod(G).to_hs_from_kraus_matrices(inp["c_sys"], inp["kraus"], inp["eps"])

    def post(self, W, cfg, inp, out):
        exact = W.S.hs_from_kraus(inp["c_sys"], inp["kraus"])
        im = [x.imag for x in W.S.flat(exact)]
        return [true("formula", W.S.truncated(out, exact, inp["eps"]),
                     "HS_ab == <B_a, sum_k K B_b K^dagger> up to the truncation rule"),
                eq("formula-real", im, [0 * x for x in im], "the defining formula is real in a Hermitian basis")]


class ConvertHs(E2Contract):
    name = "convert_hs / convert_to_comp_basis"
    prop = "C02"
    targets = (G + ":convert_hs", G + ":Gate.convert_basis", G + ":Gate.convert_to_comp_basis",
               "quara.objects.matrix_basis:get_comp_basis")

    def configs(self, tier):
        return ["1q", "1qt"] + (["2q"] if tier == "thorough" else [])

    def inputs(self, W, cfg, mk):
        from ._cfg import obj_gate
        return dict(gate=obj_gate(W, mk, make_csys(W, cfg)))

    def run(self, W, cfg, inp):
        g = inp["gate"]
        c_sys = g.composite_system
        row = g.convert_to_comp_basis("row_major")
        col = g.convert_to_comp_basis("column_major")
        back = W.mod(G).convert_hs(row, c_sys.comp_basis("row_major"), c_sys.basis())
        return [row, col, back, g.convert_basis(c_sys.comp_basis("row_major"))]

    def post(self, W, cfg, inp, out):
        S = W.S
        g = inp["gate"]
        c_sys = g.composite_system
        d = c_sys.dim
        return [eq("formula/row_major", out[0], S.hs_in_basis(c_sys, g.hs, S.comp_basis(d, "row_major")),
                   "convert_to_comp_basis('row_major')_ab == <E_a, Lambda(E_b)> for E = |i><j| in row-major order"),
                eq("formula/column_major", out[1], S.hs_in_basis(c_sys, g.hs, S.comp_basis(d, "column_major")),
                   "the same in column-major order"),
                eq("inverse/comp->basis", out[2], g.hs, "convert back to the object's basis is the identity"),
                eq("agree/convert_basis", out[3], out[0], "Gate.convert_basis(comp) == convert_to_comp_basis()")]

    def canary(self, W, cfg, inp, out):
        S = W.S
        g = inp["gate"]
        return [eq("canary", out[0], S.hs_in_basis(g.composite_system, g.hs, S.comp_basis(g.composite_system.dim, "column_major")),
                   "(false) row-major result == column-major formula")]


class ProcessMatrix(E2Contract):
    """chi defined by its action: Lambda(rho) == sum_ab chi_ab E_a rho E_b^dagger  (E computational basis, row-major)"""
    name = "to_process_matrix_from_hs"
    prop = "C02"
    targets = (G + ":to_process_matrix_from_hs", G + ":Gate.to_process_matrix")

    def configs(self, tier):
        return ["1q"] + (["1qt"] if tier == "thorough" else [])

    def inputs(self, W, cfg, mk):
        from ._cfg import obj_gate
        d = DIMS[cfg]
        return dict(gate=obj_gate(W, mk, make_csys(W, cfg)), rho=mk.hermitian("rho", d))

    def run(self, W, cfg, inp):
        return inp["gate"].to_process_matrix()

    def post(self, W, cfg, inp, out):
        S = W.S
        g = inp["gate"]
        c_sys = g.composite_system
        d = c_sys.dim
        E = S.comp_basis(d, "row_major")
        acc = S.zeros_c((d, d))
        for a in range(d * d):
            for b in range(d * d):
                acc = acc + out[a, b] * (E[a] @ inp["rho"] @ S.dagger(E[b]))
        return [eq("defining-action", acc, S.apply_hs(c_sys, g.hs, inp["rho"]),
                   "sum_ab chi_ab E_a rho E_b^dagger == Lambda(rho) for every Hermitian rho")]


class KrausRoundTrip(E2Contract):
    """Kraus extraction goes through an eigendecomposition, sorting, filtering and a phase convention: checked on concrete channels whose Kraus
    operators are NOT invariant under transposition (a finite list of instances: bounded stand-in, never counted as proved)"""
    name = "to_kraus_matrices_from_hs / Gate.to_kraus_matrices (instances)"
    prop = "C02"
    targets = (G + ":to_kraus_matrices_from_hs", G + ":Gate.to_kraus_matrices", G + ":to_hs_from_kraus_matrices")
    bounded = "six concrete channels on 1 qubit / 1 qutrit / 2 qubits (rotation about y, amplitude damping alone and after a rotation / a phase gate, qutrit damping, H (x) Ry)"
    n_conformance = 0
    frame = False
    max_paths = 8

    def configs(self, tier):
        return ["ry(0.7)", "amplitude-damping(1/4)", "ry-then-damping", "phase-then-damping", "qutrit-damping", "2q:h(x)ry"]

    def inputs(self, W, cfg, mk):
        return dict(probe=mk.real("probe"))

    @staticmethod
    def _kraus(W, name):
        import math
        np = W.np
        c, s = math.cos(0.35), math.sin(0.35)
        ry = np.array([[c, -s], [s, c]], dtype=np.complex128)
        rx = np.array([[c, -1j * s], [-1j * s, c]], dtype=np.complex128)
        g = 0.25
        a0 = np.array([[1, 0], [0, math.sqrt(1 - g)]], dtype=np.complex128)
        a1 = np.array([[0, math.sqrt(g)], [0, 0]], dtype=np.complex128)
        if name == "ry(0.7)":
            return "1q", [ry]
        if name == "amplitude-damping(1/4)":
            return "1q", [a0, a1]
        if name == "ry-then-damping":
            return "1q", [a0 @ ry, a1 @ ry]
        if name == "phase-then-damping":
            ph = np.array([[1, 0], [0, 1j]], dtype=np.complex128)
            return "1q", [a0 @ ph, a1 @ ph]
        if name == "random-cptp-rank3":
            import random
            rng = random.Random(12345)
            import numpy
            ks = [numpy.array([[complex(rng.gauss(0, 1), rng.gauss(0, 1)) for _ in range(2)] for _ in range(2)]) for _ in range(3)]
            tot = sum(k.conj().T @ k for k in ks)
            w, v = numpy.linalg.eigh(tot)
            inv_sqrt = (v / numpy.sqrt(w)) @ v.conj().T
            return "1q", [np.array((k @ inv_sqrt).tolist(), dtype=np.complex128) for k in ks]
        if name == "qutrit-shift-mix":
            X = np.array([[0, 0, 1], [1, 0, 0], [0, 1, 0]], dtype=np.complex128)
            D = np.array([[1, 0, 0], [0, 1j, 0], [0, 0, -1]], dtype=np.complex128)
            return "1qt", [math.sqrt(0.7) * X, math.sqrt(0.3) * (D @ X)]
        if name == "qutrit-damping":
            b0 = np.array([[1, 0, 0], [0, math.sqrt(1 - g), 0], [0, 0, math.sqrt(1 - g)]], dtype=np.complex128)
            b1 = np.array([[0, math.sqrt(g), 0], [0, 0, 0], [0, 0, 0]], dtype=np.complex128)
            b2 = np.array([[0, 0, 0], [0, 0, math.sqrt(g)], [0, 0, 0]], dtype=np.complex128)
            return "1qt", [b0, b1, b2]
        h = np.array([[1, 1], [1, -1]], dtype=np.complex128) / math.sqrt(2)
        return "2q", [np.kron(h, ry)]

    def run(self, W, cfg, inp):
        np = W.np
        s, kraus = self._kraus(W, cfg)
        c_sys = make_csys(W, s)
        hs = np.real(W.S.hs_from_kraus(c_sys, kraus))
        g = W.mod(G)
        got = g.to_kraus_matrices_from_hs(c_sys, hs)
        gate = g.Gate(c_sys, hs, is_physicality_required=False)
        return dict(hs=hs, back=W.S.hs_from_kraus(c_sys, got) if len(got) else None, n=len(got), n_in=len(kraus),
                    tp=sum((np.conjugate(k).T @ k for k in got[1:]), np.conjugate(got[0]).T @ got[0]) if len(got) else None,
                    method=W.S.hs_from_kraus(c_sys, gate.to_kraus_matrices()), dim=c_sys.dim)

    def post(self, W, cfg, inp, out):
        np, S = W.np, W.S
        tol = 1e-9
        close = lambda a, b: S.And(*[S.abs(x - y) <= tol for x, y in zip(S.flat(a), S.flat(b))])
        if out["back"] is None:
            return [true("kraus-operators-exist", False, "a completely positive map has a Kraus representation")]
        return [true("kraus-operators-exist", True, "a completely positive map has a Kraus representation"),
                eq("number-of-kraus-operators==rank", out["n"], out["n_in"], "as many Kraus operators as the Choi rank (the instances have linearly independent Kraus operators)"),
                true("kraus-of-hs-reproduce-hs", S.And(close(np.real(out["back"]), out["hs"]), close(np.imag(out["back"]), 0 * out["hs"])),
                     "to_hs_from_kraus(to_kraus_from_hs(hs)) == hs: the extracted operators denote the same map"),
                true("completeness", close(out["tp"], np.eye(out["dim"], dtype=np.complex128)), "sum K^dagger K == I for a trace-preserving map"),
                true("Gate.to_kraus_matrices-agrees", close(np.real(out["method"]), out["hs"]), "the method form gives the same map")]

"""C20 schedule validation: jobs (E1)"""
from qverif.core.runner import Job

META = dict(
    level="proof",
    trusted_base=["CPython ast", "z3 5.1.0", "E1 pyvc VC generator (qverif/pyvc), cross-checked against CPython on random concrete inputs every run"],
    assumptions=["schedules are python lists of items (non-sequence schedules are outside the property's notion of a schedule)",
                 "object lists are abstracted to their lengths (validation reads only len() and truthiness of the lists)"],
)


def job_item(cls, with_objdict, seed=0, timeout_s=10.0):
    from qverif.pyvc.verify import verify
    from . import C20_all as C
    tag = "ok" if cls == "ok" else C.MALFORMED[cls][0]
    return verify(C.item_contract(cls, with_objdict), f"C20/_validate_schedule_item[{tag},{'objdict' if with_objdict else 'self'}]",
                  timeout_s=timeout_s, seed=seed, gen_concrete=C.item_gen(cls, with_objdict), n_selfcheck=25)


def job_order(L, seed=0, timeout_s=10.0):
    from qverif.pyvc.verify import verify
    from . import C20_all as C
    return verify(C.order_contract(L), f"C20/_validate_schedule_order[L={L}]", timeout_s=timeout_s, seed=seed,
                  gen_concrete=C.order_gen(L), n_selfcheck=25)


def job_schedules(idx, with_objdict, tier="quick", seed=0, timeout_s=10.0):
    from qverif.pyvc.verify import verify
    from . import C20_all as C
    shape = C.schedule_shapes(tier)[idx]
    tag = "|".join(",".join("ok" if c == "ok" else C.MALFORMED[c][0] for c in s) for s in shape)
    return verify(C.schedules_contract(shape, with_objdict), f"C20/_validate_schedules[{tag}{';objdict' if with_objdict else ''}]",
                  timeout_s=timeout_s, seed=seed)


def job_setter(which, seed=0, timeout_s=10.0):
    from qverif.pyvc.verify import verify
    from . import C20_all as C
    return verify(C.setter_contract(which), f"C20/Experiment.{which}.setter", timeout_s=timeout_s, seed=seed)


def job_tomo(which, L, seed=0, timeout_s=10.0):
    from qverif.pyvc.verify import verify
    from . import C20_all as C
    return verify(C.tomo_contract(which, L), f"C20/{C.TOMO[which][0].split(':')[1]}[L={L}]", timeout_s=timeout_s, seed=seed,
                  gen_concrete=C.tomo_gen(which, L), n_selfcheck=25)


def job_schedules_str(seed=0, timeout_s=10.0):
    from qverif.pyvc.verify import verify
    from . import C20_all as C
    return verify(C.schedules_str_contract(), "C20/StandardQTomography._validate_schedules_str", timeout_s=timeout_s, seed=seed,
                  gen_concrete=C.schedules_str_gen(), n_selfcheck=40)


def jobs(tier, seed):
    from . import C20_all as C
    t = 30.0 if tier == "quick" else 90.0
    js = []
    for cls in ["ok"] + list(range(len(C.MALFORMED))):
        for od in (False, True):
            js.append(Job(f"C20/item/{cls}/{od}", "contracts.C20:job_item", dict(cls=cls, with_objdict=od, seed=seed, timeout_s=t)))
    js.append(Job("C20/schedules_str", "contracts.C20:job_schedules_str", dict(seed=seed, timeout_s=t)))
    from .C02 import e2_jobs
    js += e2_jobs("C20", ["contracts.C20_e2:AllExpansion", "contracts.C20_e2:CalcProbDist"], tier, seed)
    for L in range(0, 5 if tier == "quick" else 6):
        js.append(Job(f"C20/order/{L}", "contracts.C20:job_order", dict(L=L, seed=seed, timeout_s=t)))
    shapes = C.schedule_shapes(tier)
    for i in range(len(shapes)):
        js.append(Job(f"C20/schedules/{i}", "contracts.C20:job_schedules", dict(idx=i, with_objdict=False, tier=tier, seed=seed, timeout_s=t)))
        if i % 7 == 0:
            js.append(Job(f"C20/schedules/{i}/objdict", "contracts.C20:job_schedules", dict(idx=i, with_objdict=True, tier=tier, seed=seed, timeout_s=t)))
    for which in ("qst", "povmt", "qpt", "qmpt"):
        for L in range(1, 5 if tier == "quick" else 6):
            js.append(Job(f"C20/tomo/{which}/{L}", "contracts.C20:job_tomo", dict(which=which, L=L, seed=seed, timeout_s=t)))
    for which in ("states", "povms", "gates", "mprocesses"):
        js.append(Job(f"C20/setter/{which}", "contracts.C20:job_setter", dict(which=which, seed=seed, timeout_s=t)))
    return js


CLAIM = {'engine': 'E1-pyvc + E2-symtwin', 'level': 'proof',
 'text': 'VCs generated from the AST of Experiment._validate_schedule_item, _validate_schedule_order, _validate_schedules, the four list setters and the four tomography classes\' _validate_schedules: accepted <=> well formed (spec written from the property), rejected only with the schedule-item / schedule-order error, item error iff an item is invalid, setters keep the old list on rejection and route the new list to its own slot; for all list sizes, all integer indices, all kind strings (symbolic string with equality only) and every malformed-item class, for schedules of length <= 4 (5 thorough). Lemma by z3: Experiment-WF and tomography-level acceptance and the class\'s list sizes imply exactly the class\'s schedule shape.',
 'note': 'Unbounded in values; schedule length bounded by the property\'s own bound (loops over a schedule are unrolled). _validate_schedules and the setters are verified modularly against the callee contracts. Executability: Experiment.calc_prob_dist is under an E2 contract on the three accepted schedule shapes (state-povm, state-gate-povm, state-mprocess-povm) with a symbolic state in the regular regime (all probabilities >= 2e-8): Born distribution in circuit order, normalised, and a None placeholder at any referenced position is rejected with ValueError naming list and index; the circuit statistics of every tomography schedule are additionally proved under C08. Non-sequence schedules are outside the property\'s notion of schedule.',
 'technique': 'contract-based deductive verification (AST->VC, callee contracts, z3; the string form of the schedules argument and its expansion by the four tomography constructors executed in the symbolic twin)'}

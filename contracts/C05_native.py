"""C05, bounded stand-in: what the proof leaves undecided (termination within the iteration limit, accuracy, nearest-point-ness, order independence)
evaluated on the real code with native floats.

The symbolic contracts (C05_all) prove that the loop IS Dykstra's recurrence with the right stop test, for uninterpreted constraint projections; they
say nothing about where the iteration ends.  This job runs the real routine on seeded random inputs - near-physical points (a physical object plus
noise, as linear estimation produces them), far points of norm 1, 10 and 100, and exactly physical points - and evaluates the property's
clauses with a tolerance derived from the stopping threshold: the result is physical, it satisfies the variational inequality of the nearest point
against random physical competitors, physical inputs are returned unchanged, both projection orders and the object / variable level routines agree,
and the reported history ends at the returned point.  BOUNDED: seeded random inputs, never counted as proved."""
import random

import numpy as np

from qverif.core import native as N
from .C17_enum import Tally
from .C04_native import M, _csys, _n_var, _template, _arrays, _flat, _Ref


def _rand_c(rng, r, c):
    return np.array([[complex(rng.gauss(0, 1), rng.gauss(0, 1)) for _ in range(c)] for _ in range(r)])


def _inv_sqrt(S):
    w, V = np.linalg.eigh((S + S.conj().T) / 2)
    return (V / np.sqrt(w)) @ V.conj().T


def physical_arrays(ref, kind, m, rng):
    """a random physical object of the kind, as its parameter arrays in the composite system's basis"""
    d = ref.d
    B = ref.B
    if kind == "state":
        G = _rand_c(rng, d, d)
        rho = G @ G.conj().T
        return [ref.vec(rho / np.trace(rho).real)]
    if kind == "povm":
        Gs = [_rand_c(rng, d, d) for _ in range(m)]
        Es = [G @ G.conj().T for G in Gs]
        R = _inv_sqrt(sum(Es))
        return [ref.vec(R @ E @ R) for E in Es]
    n_out = 1 if kind == "gate" else m
    Ks = [[_rand_c(rng, d, d) for _ in range(2)] for _ in range(n_out)]
    R = _inv_sqrt(sum(K.conj().T @ K for ks in Ks for K in ks))
    out = []
    for ks in Ks:
        hs = np.zeros((d * d, d * d))
        for K in ks:
            K = K @ R
            for a in range(d * d):
                for b in range(d * d):
                    hs[a, b] += np.trace(B[a].conj().T @ K @ B[b] @ K.conj().T).real
        out.append(hs)
    return out


def _build(kind, c, arrays, on_para, order=None, eps=None):
    kw = dict(is_physicality_required=False, on_para_eq_constraint=on_para, eps_proj_physical=eps)
    if order is not None:
        kw["mode_proj_order"] = order
    if kind == "state":
        return M("state").State(c, np.array(arrays[0], dtype=float), **kw)
    if kind == "povm":
        return M("povm").Povm(c, [np.array(a, dtype=float) for a in arrays], **kw)
    if kind == "gate":
        return M("gate").Gate(c, np.array(arrays[0], dtype=float), **kw)
    return M("mprocess").MProcess(c, [np.array(a, dtype=float) for a in arrays], **kw)


def _violation(ref, kind, arrays):
    """(equality residual, most negative eigenvalue) of the denoted operators"""
    lam = min(float(np.linalg.eigvalsh((A + A.conj().T) / 2).min()) for A in ref.operators(kind, arrays))
    return ref.eq_residual(kind, arrays), lam


def _configs(tier):
    out = [("1q", "state", 0), ("1q", "povm", 2), ("1q", "povm", 3), ("1q", "gate", 0), ("1q", "mprocess", 2), ("1qt", "state", 0),
           ("1q", "mprocess", 3), ("1qt", "gate", 0)]
    if tier == "thorough":
        out += [("1q", "povm", 4), ("1qt", "povm", 3), ("2q", "state", 0), ("2q", "povm", 2), ("1qt", "povm", 2)]
    # both parametrisations: with the flag on, the input is the object generated from the constrained variables
    return [c + (flag,) for c in out for flag in (False, True)]


def job_physical_projection(tier="quick", seed=0, part=0, parts=1):
    import contextlib
    import io
    rng = random.Random(5000 + seed + 17 * part)
    reps = 2 if tier == "quick" else 6
    t = Tally(f"physical-projection[part {part + 1} of {parts}]", ["quara.objects.qoperation:QOperation.calc_proj_physical", "quara.objects.qoperation:QOperation.calc_proj_physical_with_var"],
              prop="C05", what="input")
    cfgs = [c for k, c in enumerate(_configs(tier)) if k % parts == part]
    LIMIT = 200000
    for (s, kind, m, on_para) in cfgs:
        c = _csys(s)
        ref = _Ref(c)
        for what in ("near-physical", "physical", "far-1", "far-10", "far-100"):
            for eps in (None, 1e-8):
                acc = 1e-5 if eps is None else 1e-3          # accuracy demanded of a run stopped at threshold eps (1e-14 by default / 1e-8)
                for rep in range(reps if what != "far-100" else 1):
                    if what == "far-100" and (s != "1q" or on_para):
                        continue        # (the far-100 class is there for the iteration limit: one-qubit objects, flag off)
                    entry = (s, kind, m, "flag on" if on_para else "flag off", what, "eps=default" if eps is None else f"eps={eps:g}", rep)
                    phys = physical_arrays(ref, kind, m, rng)
                    if what == "physical":
                        arrays, scale = phys, 1.0
                    elif what == "near-physical":
                        arrays, scale = [a + 1e-2 * np.array([rng.gauss(0, 1) for _ in range(a.size)]).reshape(a.shape) for a in phys], 1.0
                    else:
                        norm = float(what.split("-")[1])
                        raw = [np.array([rng.gauss(0, 1) for _ in range(a.size)]).reshape(a.shape) for a in phys]
                        tot = np.sqrt(sum(float(np.sum(a * a)) for a in raw))
                        arrays, scale = [a * norm / tot for a in raw], norm
                    tol = acc * max(1.0, scale)
                    sc = f"[{what}]"
                    x = _build(kind, c, arrays, False, "eq_ineq", eps)
                    if on_para:
                        # the constrained variables of the input (implied entries dropped), and the object they denote
                        x = _build(kind, c, _arrays(_build(kind, c, arrays, True).generate_from_var(_build(kind, c, arrays, True).to_var())), True, "eq_ineq", eps)
                    xs = _flat(x)
                    before = [np.array(a, copy=True) for a in _arrays(x)]
                    try:
                        with contextlib.redirect_stdout(io.StringIO()) as buf:
                            px, hist = x.calc_proj_physical(is_iteration_history=True)
                        default_limit_hit = "exceeds the limit" in buf.getvalue()
                        err = None
                    except Exception as e:  # noqa
                        px, hist, err, default_limit_hit = None, None, e, False
                    t.check(f"returns-normally{sc}", err is None, entry, "the physical projection returns", "" if err is None else f"raised {type(err).__name__}: {str(err)[:100]}")
                    if px is None:
                        continue
                    if what == "far-100":
                        t.check("converges-within-default-iteration-limit[far-100]", not default_limit_hit, entry,
                                "the iteration meets its stopping criterion within the default limit of 1000 iterations", "stopped by the iteration limit (console warning), not by the criterion")
                    else:
                        t.check(f"converges-within-default-iteration-limit{sc}", not default_limit_hit, entry,
                                "the iteration meets its stopping criterion within the default limit of 1000 iterations", "stopped by the iteration limit (console warning), not by the criterion")
                    if default_limit_hit:
                        # the remaining clauses are about a run that met its stopping criterion: give it the iterations it needs
                        with contextlib.redirect_stdout(io.StringIO()) as buf:
                            px, hist = x.calc_proj_physical(max_iteration=LIMIT, is_iteration_history=True)
                        t.check(f"terminates-by-criterion-within-{LIMIT}-iterations{sc}", "exceeds the limit" not in buf.getvalue(), entry,
                                "with the iteration limit raised the run ends by its stopping criterion", "")
                    limit = LIMIT if default_limit_hit else 1000
                    pa = _arrays(px)
                    pxs = _flat(px)
                    r, lam = _violation(ref, kind, pa)
                    t.check(f"result-physical{sc}", r <= tol and lam >= -tol, entry, "the result satisfies both constraints to the accuracy implied by the stopping threshold",
                            f"equality residual {r:.3e}, min eigenvalue {lam:.3e} (tolerance {tol:.1e})")
                    worst = -np.inf
                    for _ in range(4):
                        ys = np.hstack([np.asarray(a, dtype=float).reshape(-1) for a in physical_arrays(ref, kind, m, rng)])
                        worst = max(worst, float(np.dot(xs - pxs, ys - pxs)))
                    t.check(f"nearest-point{sc}", worst <= tol * max(1.0, scale) * 10, entry,
                            "<x - P x, y - P x> <= 0 for physical competitors y (variational inequality of the nearest physical point)", f"max inner product {worst:.3e}")
                    if what == "physical":
                        dv = float(np.abs(pxs - xs).max())
                        t.check("identity-on-physical", dv <= tol, entry, "a physical input is returned unchanged", f"max deviation {dv:.3e}")
                    hx = hist.get("x") if isinstance(hist, dict) else None
                    if hx:
                        last = hx[-1]
                        lastv = np.hstack([np.asarray(a, dtype=float).reshape(-1) for a in (_arrays(last) if hasattr(last, "composite_system") else [last])])
                        dv = float(np.abs(lastv - pxs).max()) if lastv.shape == pxs.shape else float("inf")
                        t.check(f"history-ends-at-result{sc}", dv <= 1e-12 * max(1.0, scale), entry, "the last iterate of the reported history is the returned point", f"max deviation {dv:.3e}")
                    def other_order():
                        with contextlib.redirect_stdout(io.StringIO()):
                            py = _build(kind, c, before, on_para, "ineq_eq", eps).calc_proj_physical(max_iteration=limit)
                        dv = float(np.abs(_flat(py) - pxs).max())
                        return dv <= tol, f"max deviation {dv:.3e}"
                    t.guard(f"order-independent{sc}", entry, other_order, "both orders of alternating the two constraint projections give the same point")

                    def var_level():
                        with contextlib.redirect_stdout(io.StringIO()):
                            pv = x.calc_proj_physical_with_var(x.to_var(), on_para_eq_constraint=on_para, max_iteration=limit)
                        if on_para:
                            pv = _flat(x.generate_from_var(np.asarray(pv, dtype=float)))
                        dv = float(np.abs(np.asarray(pv, dtype=float) - pxs).max())
                        return dv <= (tol if on_para else 1e-9 * max(1.0, scale)), f"max deviation {dv:.3e}"
                    t.guard(f"var-level==object-level{sc}", entry, var_level,
                            "calc_proj_physical_with_var(var) == calc_proj_physical() (flag off: the same iterates, 1e-9; flag on: the variable-level result is re-embedded "
                            "with the constraint exact, the object-level one satisfies it to the stopping accuracy)")
                    unchanged = all(np.array_equal(a, b) for a, b in zip(_arrays(x), before))
                    t.check(f"argument-unchanged{sc}", unchanged, entry, "the projection never modifies its argument", "")
    return t.results(f"{len(cfgs)} configurations x 5 input classes x 2 stopping thresholds, seeded random inputs (bounded)")

"""C02 (state part): coefficient vector <-> density matrix."""
from qverif.symtwin.verify import E2Contract, eq, true
from ._cfg import make_csys, DIMS

ST = "quara.objects.state"
CFGS = [("1q", None), ("1qt", None), ("1q", "pauli"), ("1q", "hermitian")]


def mk_state(W, c_sys, vec, **kw):
    return W.mod(ST).State(c_sys, vec, is_physicality_required=False, **kw)


class DensityFromVec(E2Contract):
    name = "to_density_matrix*"
    prop = "C02"
    targets = (ST + ":State.to_density_matrix", ST + ":State.to_density_matrix_with_sparsity",
               ST + ":to_density_matrix_from_vec", ST + ":to_density_matrix_from_var")

    def configs(self, tier):
        return CFGS + ([("2q", None), ("qxqt", None)] if tier == "thorough" else [("2q", None)])

    def inputs(self, W, cfg, mk):
        d = DIMS[cfg[0]]
        return dict(c_sys=make_csys(W, *cfg), vec=mk.array("v", d * d))

    def run(self, W, cfg, inp):
        st = mk_state(W, inp["c_sys"], inp["vec"])
        m = W.mod(ST)
        return [st.to_density_matrix(), st.to_density_matrix_with_sparsity(),
                m.to_density_matrix_from_vec(inp["c_sys"], inp["vec"]),
                m.to_density_matrix_from_var(inp["c_sys"], inp["vec"], on_para_eq_constraint=False)]

    def post(self, W, cfg, inp, out):
        spec = W.S.op_from_vec(inp["c_sys"], inp["vec"])
        return [eq("formula/to_density_matrix", out[0], spec, "to_density_matrix() == sum_a v_a B_a"),
                eq("formula/with_sparsity", out[1], spec, "to_density_matrix_with_sparsity() == sum_a v_a B_a"),
                eq("formula/from_vec", out[2], spec, "to_density_matrix_from_vec(vec) == sum_a v_a B_a"),
                eq("formula/from_var(flag off)", out[3], spec, "to_density_matrix_from_var(var, False) == sum_a var_a B_a")]

    def canary(self, W, cfg, inp, out):
        spec = W.S.op_from_vec(inp["c_sys"], inp["vec"])
        return [eq("canary", out[0], spec.T, "(false) density == transpose of the formula")]


class VecFromDensity(E2Contract):
    """inverse direction on Hermitian operators; orthonormal bases only (the function's own precondition)"""
    name = "to_vec_from_density_matrix_with_sparsity"
    prop = "C02"
    targets = (ST + ":to_vec_from_density_matrix_with_sparsity", ST + ":to_var_from_density_matrix",
               "quara.utils.matrix_util:truncate_hs")

    def configs(self, tier):
        # third component "F": the Hermitian matrix is handed over as a transposed view (Fortran memory order)
        return [("1q", None), ("1qt", None), ("1qt", None, "F")] + ([("2q", None), ("2q", None, "F")] if tier == "thorough" else [])

    def inputs(self, W, cfg, mk):
        d = DIMS[cfg[0]]
        eps = mk.real("eps")
        mk.require(eps > 0)
        mk.require(eps <= 1e-2)
        rho = mk.hermitian("rho", d)
        return dict(c_sys=make_csys(W, *cfg[:2]), rho=rho.T if len(cfg) > 2 else rho, eps=eps)

    def sample(self, cfg, names, rng):
        vals = {n: rng.uniform(-1.5, 1.5) for n in names}
        vals["eps"] = 10 ** rng.uniform(-13, -2)
        return vals

    def run(self, W, cfg, inp):
        m = W.mod(ST)
        return [m.to_vec_from_density_matrix_with_sparsity(inp["c_sys"], inp["rho"], inp["eps"])]

    def post(self, W, cfg, inp, out):
        exact = W.S.vec_from_op(inp["c_sys"], inp["rho"])
        im = [x.imag for x in W.S.flat(exact)]
        return [true("truncation-rule", W.S.truncated(out[0], exact, inp["eps"]),
                     "each entry equals <B_a, rho> or is 0 where |<B_a, rho>| < eps"),
                eq("coefficients-real", im, [0 * x for x in im], "<B_a, rho> is real for Hermitian rho and Hermitian basis")]


class VecDensityRoundTrip(E2Contract):
    name = "vec->density->vec"
    prop = "C02"
    targets = (ST + ":to_density_matrix_from_vec", "spec:vec_from_op")

    def configs(self, tier):
        return [("1q", None), ("1qt", None), ("2q", None)] + ([("qxqt", None)] if tier == "thorough" else [])

    def inputs(self, W, cfg, mk):
        d = DIMS[cfg[0]]
        return dict(c_sys=make_csys(W, *cfg), vec=mk.array("v", d * d))

    def run(self, W, cfg, inp):
        m = W.mod(ST)
        return m.to_density_matrix_from_vec(inp["c_sys"], inp["vec"])

    def post(self, W, cfg, inp, out):
        back = W.S.vec_from_op(inp["c_sys"], out)
        return [eq("inverse", back, inp["vec"], "<B_a, to_density_matrix_from_vec(v)> == v_a (conversion followed by its inverse)")]

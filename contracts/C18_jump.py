"""C18: effective Lindbladians built from jump operators (GKSL form  L(rho) = sum_k c_k rho c_k^dagger - 1/2 {c_k^dagger c_k, rho})"""
from qverif.symtwin.verify import E2Contract, eq, true, Raised
from ._cfg import make_csys, DIMS

EL = "quara.objects.effective_lindbladian"


class JumpOperators(E2Contract):
    name = "jump-operator builders"
    prop = "C18"
    targets = (EL + ":generate_effective_lindbladian_from_jump_operators", EL + ":generate_d_part_gb_from_jump_operators",
               EL + ":generate_d_part_cb_from_jump_operators", EL + ":generate_j_part_cb_from_jump_operators", EL + ":generate_k_part_cb_from_jump_operators",
               EL + ":generate_j_part_gb_from_jump_operators", EL + ":generate_k_part_gb_from_jump_operators")
    max_paths = 16
    frame = True
    n_conformance = 1

    def configs(self, tier):
        return [("1q", 1), ("1q", 2)] + ([("1qt", 1)] if tier == "thorough" else [])

    def inputs(self, W, cfg, mk):
        s, k = cfg
        d = DIMS[s]
        return dict(c_sys=make_csys(W, s), ops=[mk.carray(f"c{j}", (d, d)) for j in range(k)])

    def run(self, W, cfg, inp):
        m = W.mod(EL)
        c, ops = inp["c_sys"], inp["ops"]
        el = m.generate_effective_lindbladian_from_jump_operators(c, ops, is_physicality_required=False)
        return dict(hs=el.hs, k_gb=m.generate_k_part_gb_from_jump_operators(ops, c.basis()), j_gb=m.generate_j_part_gb_from_jump_operators(ops, c.basis()),
                    d_cb=m.generate_d_part_cb_from_jump_operators(ops), j_cb=m.generate_j_part_cb_from_jump_operators(ops),
                    k_cb=m.generate_k_part_cb_from_jump_operators(ops))

    def post(self, W, cfg, inp, out):
        S, np = W.S, W.np
        c, ops = inp["c_sys"], inp["ops"]
        atol = W.mod("quara.settings").Settings.get_atol()
        d = DIMS[cfg[0]]

        def K(r):
            acc = S.zeros_c((d, d))
            for o in ops:
                acc = acc + o @ r @ S.dagger(o)
            return acc

        def J(r):
            acc = S.zeros_c((d, d))
            for o in ops:
                cc = S.dagger(o) @ o
                acc = acc + (cc @ r + r @ cc)
            return acc / (-2)
        e_k, e_j = S.hs_of_map(c, K), S.hs_of_map(c, J)
        both = lambda o, e: S.And(S.truncated(np.real(o), np.real(e), atol), S.truncated(np.imag(o), np.imag(e), atol)) if hasattr(o, "imag") else S.truncated(o, np.real(e), atol)
        return [true("k-part", both(out["k_gb"], e_k), "K part == HS matrix of rho -> sum_k c_k rho c_k^dagger"),
                true("j-part", both(out["j_gb"], e_j), "J part == HS matrix of rho -> -1/2 sum_k {c_k^dagger c_k, rho}"),
                true("gksl-action", S.truncated(out["hs"], np.real(e_k + e_j), atol),
                     "the generator built from jump operators acts as sum_k c_k rho c_k^dagger - 1/2 {c_k^dagger c_k, rho}"),
                eq("d-part==j-part+k-part", out["d_cb"], out["j_cb"] + out["k_cb"], "the dissipator part is the sum of its J and K parts (computational basis)"),
                eq("lemma:gksl-generator-is-real-in-a-hermitian-basis", np.imag(e_k + e_j), 0 * np.imag(e_k), "the GKSL generator has a real HS matrix in a Hermitian basis")]

    def canary(self, W, cfg, inp, out):
        return [eq("canary", out["k_cb"], 2 * out["k_cb"] + 1, "(false) the K part is an affine function of itself")]

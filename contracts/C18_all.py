"""C18: effective Lindbladians (GKSL generators) decompose, recompose and exponentiate correctly.

Reference semantics, written on operators (independent of any vectorisation convention):
  L_H(rho) = -i [H, rho]      L_J(rho) = J rho + rho J      L_K(rho) = sum_{a,b>=1} K_ab B_a rho B_b^dagger
  GKSL:  J = -1/2 sum_ab K_ab B_b^dagger B_a ;   jump form: L(rho) = sum_k c_k rho c_k^dagger - 1/2 {c_k^dagger c_k, rho}
and the HS matrix of a map is <B_a, map(B_b)>."""
from qverif.symtwin.verify import E2Contract, eq, true, Raised
from ._cfg import make_csys, DIMS
from .C01_state import atol_input, sample_with_atol
from .C01_all import spec_psd

EL = "quara.objects.effective_lindbladian"


def herm_traceless_free(mk, name, d):
    return mk.hermitian(name, d)


def spec_parts(S, c_sys, H, J, K):
    bs = S.basis(c_sys)
    d = bs[0].shape[0]

    def LH(r):
        return -1j * (H @ r - r @ H)

    def LJ(r):
        return J @ r + r @ J

    def LK(r):
        acc = S.zeros_c((d, d))
        n = len(bs)
        for a in range(1, n):
            for b in range(1, n):
                acc = acc + K[a - 1, b - 1] * (bs[a] @ r @ S.dagger(bs[b]))
        return acc
    return LH, LJ, LK


def gksl_j(S, c_sys, K):
    bs = S.basis(c_sys)
    d = bs[0].shape[0]
    J = S.zeros_c((d, d))
    for a in range(1, len(bs)):
        for b in range(1, len(bs)):
            J = J + K[a - 1, b - 1] * (S.dagger(bs[b]) @ bs[a])
    return -0.5 * J if not S.W.symbolic else J / (-2)


class GenerateFromHJK(E2Contract):
    name = "generate_hs_from_hjk / _hk / _h / _k"
    prop = "C18"
    targets = (EL + ":generate_hs_from_hjk", EL + ":generate_hs_from_hk", EL + ":generate_hs_from_h", EL + ":generate_hs_from_k",
               EL + ":_calc_h_part_from_h_mat", EL + ":_calc_j_part_from_j_mat", EL + ":_calc_k_part_from_k_mat",
               EL + ":_calc_k_part_from_k_mat_with_sparsity", EL + ":_calc_k_part_from_slowly", EL + ":_calc_j_mat_from_k_mat",
               EL + ":_calc_j_mat_from_k_mat_with_sparsity", EL + ":_calc_j_mat_from_k_mat_slowly", EL + ":_truncate_hs")
    max_paths = 8

    def configs(self, tier):
        return ["1q", "1qt"]

    def inputs(self, W, cfg, mk):
        d = DIMS[cfg]
        return dict(c_sys=make_csys(W, cfg), H=mk.hermitian("H", d), J=mk.hermitian("J", d), K=mk.hermitian("K", d * d - 1))

    def run(self, W, cfg, inp):
        m = W.mod(EL)
        c, H, J, K = inp["c_sys"], inp["H"], inp["J"], inp["K"]
        return dict(hjk=m.generate_hs_from_hjk(c, H, J, K), hk=m.generate_hs_from_hk(c, H, K), h=m.generate_hs_from_h(c, H),
                    k=m.generate_hs_from_k(c, K), kslow=m._calc_k_part_from_slowly(K, c), kfast=m._calc_k_part_from_k_mat_with_sparsity(K, c),
                    jslow=m._calc_j_mat_from_k_mat_slowly(K, c), jfast=m._calc_j_mat_from_k_mat_with_sparsity(K, c))

    def post(self, W, cfg, inp, out):
        S = W.S
        c, H, J, K = inp["c_sys"], inp["H"], inp["J"], inp["K"]
        atol = W.mod("quara.settings").Settings.get_atol()
        LH, LJ, LK = spec_parts(S, c, H, J, K)
        Jg = gksl_j(S, c, K)
        _, LJg, _ = spec_parts(S, c, H, Jg, K)
        e_hjk = S.hs_of_map(c, lambda r: LH(r) + LJ(r) + LK(r))
        e_hk = S.hs_of_map(c, lambda r: LH(r) + LJg(r) + LK(r))
        e_h = S.hs_of_map(c, LH)
        e_k = S.hs_of_map(c, lambda r: LJg(r) + LK(r))
        return [true("hjk/action", S.truncated(out["hjk"], e_hjk, atol), "HS of rho -> -i[H,rho] + {J,rho} + sum K_ab B_a rho B_b^dagger (up to the truncation rule)"),
                true("hk/GKSL-action", S.truncated(out["hk"], e_hk, atol), "HS of the GKSL generator -i[H,rho] + sum K_ab (B_a rho B_b^+ - 1/2 {B_b^+ B_a, rho})"),
                true("h/action", S.truncated(out["h"], e_h, atol), "HS of rho -> -i[H,rho]"),
                true("k/GKSL-action", S.truncated(out["k"], e_k, atol), "HS of the pure dissipator"),
                eq("k-part/slow==sparse", out["kslow"], out["kfast"], "the two implementations of the K part agree"),
                eq("j-from-k/slow==sparse", out["jslow"], out["jfast"], "the two implementations of J(K) agree"),
                eq("j-from-k/formula", out["jfast"], Jg, "J(K) == -1/2 sum K_ab B_b^dagger B_a")]


class ExtractAndParts(E2Contract):
    """extraction of (H, J, K) from a generator and the H / J / K parts summing to the whole"""
    name = "calc_h_mat / calc_j_mat / calc_k_mat / parts"
    prop = "C18"
    targets = (EL + ":EffectiveLindbladian.calc_h_mat", EL + ":EffectiveLindbladian.calc_j_mat", EL + ":EffectiveLindbladian.calc_k_mat",
               EL + ":EffectiveLindbladian.calc_h_part", EL + ":EffectiveLindbladian.calc_j_part", EL + ":EffectiveLindbladian.calc_k_part",
               EL + ":EffectiveLindbladian.calc_d_part")
    max_paths = 8
    frame = False

    def configs(self, tier):
        return ["1q", "1qt"]

    def inputs(self, W, cfg, mk):
        d = DIMS[cfg]
        S = W.S
        c = make_csys(W, cfg)
        H, J, K = mk.hermitian("H", d), mk.hermitian("J", d), mk.hermitian("K", d * d - 1)
        LH, LJ, LK = spec_parts(S, c, H, J, K)
        hs = S.hs_of_map(c, lambda r: LH(r) + LJ(r) + LK(r))
        hs_real = W.np.array(hs.real, dtype=W.np.float64) if not W.symbolic else hs.real
        return dict(c_sys=c, H=H, J=J, K=K, hs=hs_real, hs_c=hs)

    def run(self, W, cfg, inp):
        el = W.mod(EL).EffectiveLindbladian(inp["c_sys"], inp["hs"], is_physicality_required=False)
        return dict(h=el.calc_h_mat(), j=el.calc_j_mat(), k=el.calc_k_mat(),
                    parts_cb=el.calc_h_part("comp_basis") + el.calc_j_part("comp_basis") + el.calc_k_part("comp_basis"),
                    d_cb=el.calc_d_part("comp_basis"), jk_cb=el.calc_j_part("comp_basis") + el.calc_k_part("comp_basis"),
                    whole_cb=el.convert_to_comp_basis(),
                    h_hb=el.calc_h_part(), j_hb=el.calc_j_part(), k_hb=el.calc_k_part(), d_hb=el.calc_d_part())

    def post(self, W, cfg, inp, out):
        S = W.S
        np = W.np
        d = DIMS[cfg]
        H, J, K = inp["H"], inp["J"], inp["K"]
        ident = np.eye(d, dtype=np.complex128)
        return [eq("spec-hs-is-real", inp["hs_c"].imag, 0 * inp["hs_c"].imag, "the generator built from Hermitian H, J, K has a real HS matrix"),
                eq("extract/K", out["k"], K, "calc_k_mat(generate(H,J,K)) == K"),
                eq("extract/H", out["h"], H - S.trace(H) / d * ident, "calc_h_mat == the traceless part of H (the identity component does not act)"),
                eq("extract/J", out["j"], J, "calc_j_mat(generate(H,J,K)) == J (including its identity component)"),
                eq("parts-sum-to-whole", out["parts_cb"], out["whole_cb"], "H part + J part + K part == the generator (computational basis)"),
                eq("d-part", out["d_cb"], out["jk_cb"], "dissipator part == J part + K part"),
                ] + self._hermitian_mode(W, cfg, inp, out)

    def _hermitian_mode(self, W, cfg, inp, out):
        """default mode (the object's Hermitian basis): every part is the HS matrix of its own map, up to the documented truncation; the exact parts sum to the whole"""
        S = W.S
        c = inp["c_sys"]
        d = DIMS[cfg]
        np = W.np
        atol = W.mod("quara.settings").Settings.get_atol()
        H0 = inp["H"] - S.trace(inp["H"]) / d * np.eye(d, dtype=np.complex128)
        LH, LJ, LK = spec_parts(S, c, H0, inp["J"], inp["K"])
        e_h, e_j, e_k = S.hs_of_map(c, LH), S.hs_of_map(c, LJ), S.hs_of_map(c, LK)
        tr = lambda o, e: S.And(S.truncated(o, np.real(e), atol))
        return [true("h-part/hermitian-basis", tr(out["h_hb"], e_h), "calc_h_part() == HS matrix of rho -> -i[H,rho] in the object's basis (up to truncation)"),
                true("j-part/hermitian-basis", tr(out["j_hb"], e_j), "calc_j_part() == HS matrix of rho -> J rho + rho J (up to truncation)"),
                true("k-part/hermitian-basis", tr(out["k_hb"], e_k), "calc_k_part() == HS matrix of rho -> sum K_ab B_a rho B_b^dagger (up to truncation)"),
                true("d-part/hermitian-basis", tr(out["d_hb"], e_j + e_k), "calc_d_part() == J part + K part (up to truncation)"),
                eq("lemma:exact-parts-sum-to-whole/hermitian-basis", np.real(e_h + e_j + e_k), inp["hs"], "the exact H, J and K parts sum to the generator in the object's basis")]


class IneqProjection(E2Contract):
    """the inequality projection replaces the dissipator matrix K by sum_k max(w_k,0) v_k v_k^dagger for the library's eigenpairs of K and keeps H and J:
    with numpy's eig contract (V unitary, V diag(w) V^dagger == K, assumed) this is the positive part of K: a positive semidefinite dissipator, and K itself
    whenever K is already positive semidefinite (physical generators unchanged)"""
    name = "EffectiveLindbladian.calc_proj_ineq_constraint"
    prop = "C18"
    targets = (EL + ":EffectiveLindbladian.calc_proj_ineq_constraint", EL + ":generate_effective_lindbladian_from_hjk")
    max_paths = 64
    frame = True
    n_conformance = 1

    def configs(self, tier):
        return ["1q"]

    def inputs(self, W, cfg, mk):
        d = DIMS[cfg]
        S = W.S
        c = make_csys(W, cfg)
        H, J, K = mk.hermitian("H", d), mk.hermitian("J", d), mk.hermitian("K", d * d - 1)
        LH, LJ, LK = spec_parts(S, c, H, J, K)
        hs = S.hs_of_map(c, lambda r: LH(r) + LJ(r) + LK(r))
        hs_real = W.np.array(hs.real, dtype=W.np.float64) if not W.symbolic else hs.real
        return dict(el=W.mod(EL).EffectiveLindbladian(c, hs_real, is_physicality_required=False), c_sys=c)

    def run(self, W, cfg, inp):
        el = inp["el"]
        new = el.calc_proj_ineq_constraint()
        return dict(hs_new=new.hs, k=el.calc_k_mat(), h=el.calc_h_mat(), j=el.calc_j_mat(), kind=type(new).__name__, hs=el.hs)

    def post(self, W, cfg, inp, out):
        np, S = W.np, W.S
        c = inp["c_sys"]
        K = out["k"]
        w, V = np.linalg.eig(K)
        n = K.shape[0]
        acc = S.zeros_c((n, n))
        for k in range(n):
            vk = V[:, k].reshape((n, 1))
            wk = np.where(w[k] < 0, 0, w[k]) if W.symbolic else max(float(np.real(w[k])), 0.0)
            acc = acc + wk * (vk @ np.conjugate(vk).T)
        atol = W.mod("quara.settings").Settings.get_atol()
        LH, LJ, LK = spec_parts(S, c, out["h"], out["j"], acc)
        exact = S.hs_of_map(c, lambda r: LH(r) + LJ(r) + LK(r))
        return [eq("type", out["kind"], "EffectiveLindbladian", "the projection returns an EffectiveLindbladian"),
                true("generator==(H, J, positive-part-of-K)", S.truncated(out["hs_new"], np.real(exact), atol),
                     "the result is the generator with the same H and J and with K replaced by sum_k max(w_k,0) v_k v_k^dagger for the eigenpairs (w, V) of K "
                     "(up to the truncation rule): a positive semidefinite dissipator, and the generator itself when K already is")]

    def canary(self, W, cfg, inp, out):
        return [eq("canary", out["hs_new"], out["hs"], "(false) the projection never changes the generator")]


class Verdicts(E2Contract):
    name = "EffectiveLindbladian.is_tp / is_cp / eq-projection / to_gate"
    prop = "C18"
    targets = (EL + ":EffectiveLindbladian.is_tp", EL + ":EffectiveLindbladian.is_cp", EL + ":EffectiveLindbladian.calc_proj_eq_constraint",
               EL + ":EffectiveLindbladian.to_gate", EL + ":convert_var_to_effective_lindbladian", EL + ":convert_effective_lindbladian_to_var")
    max_paths = 64

    def configs(self, tier):
        return ["1q"]

    def inputs(self, W, cfg, mk):
        n = DIMS[cfg] ** 2
        return dict(c_sys=make_csys(W, cfg), hs=mk.array("hs", (n, n)), atol=atol_input(mk))

    def sample(self, cfg, names, rng):
        return sample_with_atol(cfg, names, rng)

    def run(self, W, cfg, inp):
        m = W.mod(EL)
        el = m.EffectiveLindbladian(inp["c_sys"], inp["hs"], is_physicality_required=False)
        pe = el.calc_proj_eq_constraint()
        var = el.to_var()
        return dict(tp=el.is_tp(inp["atol"]), cp=el.is_cp(inp["atol"]), proj=pe.hs, gate=el.to_gate().hs, k=el.calc_k_mat(),
                    back=m.convert_var_to_effective_lindbladian(inp["c_sys"], m.convert_effective_lindbladian_to_var(inp["c_sys"], pe.hs, True),
                                                                is_physicality_required=False).hs)

    def post(self, W, cfg, inp, out):
        S = W.S
        np = W.np
        hs, atol = inp["hs"], inp["atol"]
        n = hs.shape[0]
        want = np.copy(hs)
        want[0, :] = 0
        return [eq("is_tp", out["tp"], S.And(*[S.abs(hs[0, k]) <= atol for k in range(n)]), "is_tp(atol) <=> the first row vanishes within atol"),
                eq("is_cp", out["cp"], spec_psd(S, out["k"], atol), "is_cp(atol) <=> the dissipator matrix K is PSD within atol (spectrum trusted)"),
                eq("eq-projection-zeroes-exactly-the-first-row", out["proj"], want, "the equality projection zeroes the first row and changes nothing else"),
                eq("to_gate==expm", out["gate"], W.scipy.linalg.expm(hs), "to_gate().hs == expm(hs) (expm trusted)"),
                eq("var-round-trip", out["back"][1:], want[1:], "variables <-> generator round trip (rows 1..)")]

"""C02: the lazily built (and droppable) tables of CompositeSystem through which the *_with_sparsity / *_with_dict conversions go
(C13's cache contract, re-checked under C02: the conversions denote the same operator whatever the state of the tables)"""
from .C13_all import CompositeSystemCaches as _Caches


class LazyTables(_Caches):
    prop = "C02"

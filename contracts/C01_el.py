"""C01: the physicality predicates of EffectiveLindbladian (a Gate subclass): C18's verdict contract, re-checked under C01"""
from .C18_all import Verdicts as _ELVerdicts


class EffectiveLindbladianVerdicts(_ELVerdicts):
    prop = "C01"

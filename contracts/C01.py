"""C01 Physicality verdicts: jobs"""
from .C02 import e2_jobs, META as _M

META = dict(_M)
META["assumptions"] = _M["assumptions"] + ["eigvalsh/eigh return the spectrum (assumed library contract): verdicts are relative to it"]
CLASSES = ["contracts.C01_state:StateTraceOne"] + ["contracts.C01_all:" + c for c in (
    "MutilHermitian", "MutilPsd", "StatePsd", "StatePhysical", "StateConstructor", "OriginZero",
    "PovmIdentitySum", "PovmPsd", "GateTp", "GateCp", "MProcessSumTp", "MProcessCp", "TypePhysical", "TypeConstructor")] + ["contracts.C01_el:EffectiveLindbladianVerdicts"]


def jobs(tier, seed):
    return e2_jobs("C01", CLASSES, tier, seed)

CLAIM = {'engine': 'E2-symtwin', 'level': 'proof', 'text': "Every verdict function is executed unmodified with symbolic parameters and symbolic atol in [1e-13,1e-2]; the VC 'verdict <=> mathematical definition with atol the only slack' is discharged by z3 on every path; constructor raise conditions and origin/zero objects likewise.", 'note': 'PSD verdicts are relative to the assumed eigvalsh contract (real ascending spectrum); all-inputs@config. Floats as reals.', 'technique': 'contract-based deductive verification (symbolic execution of the real source -> VCs, z3)'}

"""C01 Physicality verdicts: jobs"""
from .C02 import e2_jobs, META as _M

META = dict(_M)
META["assumptions"] = _M["assumptions"] + ["eigvalsh/eigh return the spectrum (assumed library contract): verdicts are relative to it"]
CLASSES = ["contracts.C01_state:StateTraceOne"]


def jobs(tier, seed):
    return e2_jobs("C01", CLASSES, tier, seed)

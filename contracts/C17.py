"""C17 catalogues: jobs (complete enumeration on the real code: bounded stand-in, never counted as proved)"""
from qverif.core.runner import Job

META = dict(
    level="other",
    bounded_only=True,
    trusted_base=["CPython", "numpy / scipy (native floats, tolerance 1e-9)", "the independent reference definitions in contracts/C17_enum.py"],
    assumptions=["floating point with tolerance 1e-9 (1e-8 for matrix exponentials)",
                 "the role of `ids` for 3-qubit gates is accepted in either of its two readings (they differ for the two 3-cycles only)"],
    explanation=("Bounded stand-in: the catalogue dispatchers build function names with eval() over name lists, out of reach of the VC generators; the catalogues are finite, "
                 "so the contract of every dispatcher is evaluated on the real code for every listed name (2-qutrit gates sampled). Nothing here is counted as proved."),
    not_decided=["2-qutrit two-base-matrix gate names outside the sample"],
)

GROUPS = ["1qubit", "2qubit", "3qubit", "1qutrit", "2qutrit"]


def _run(fn, **kw):
    from . import C17_enum as C
    return getattr(C, fn)(**kw)


def jobs(tier, seed):
    js = []
    for g in GROUPS:
        js.append(Job(f"C17/states/{g}", "contracts.C17:_run", dict(fn="job_states", group=g, seed=seed), timeout_s=1500.0))
        js.append(Job(f"C17/povms/{g}", "contracts.C17:_run", dict(fn="job_povms", group=g, seed=seed), timeout_s=1500.0))
    for g in ["1qubit", "2qubit", "1qutrit", "identity"]:
        js.append(Job(f"C17/gates/{g}", "contracts.C17:_run", dict(fn="job_gates", group=g, tier=tier, seed=seed), timeout_s=1500.0))
    for part in range(4):
        js.append(Job(f"C17/gates/3qubit/{part}", "contracts.C17:_run", dict(fn="job_gates", group="3qubit", tier=tier, seed=seed, part=part, parts=4), timeout_s=1500.0))
    n2 = 16 if tier == "quick" else 64
    for part in range(n2):
        js.append(Job(f"C17/gates/2qutrit/{part}", "contracts.C17:_run", dict(fn="job_gates", group="2qutrit", tier=tier, seed=seed, part=part, parts=n2), timeout_s=1500.0))
    js.append(Job("C17/actions", "contracts.C17:_run", dict(fn="job_actions", seed=seed), timeout_s=1500.0))
    js.append(Job("C17/mprocess", "contracts.C17:_run", dict(fn="job_mprocess", seed=seed), timeout_s=1500.0))
    js.append(Job("C17/ensembles", "contracts.C17:_run", dict(fn="job_ensembles", seed=seed), timeout_s=1500.0))
    js.append(Job("C17/legacy", "contracts.C17:_run", dict(fn="job_legacy", seed=seed), timeout_s=1500.0))
    js.append(Job("C17/testers", "contracts.C17:_run", dict(fn="job_testers", seed=seed), timeout_s=1500.0))
    js.append(Job("C17/canary", "contracts.C17:_run", dict(fn="job_canary", seed=seed), timeout_s=1500.0))
    return js


CLAIM = {'engine': 'E0-enumeration (runtime contracts on the real code)', 'level': 'other',
 'text': 'BOUNDED STAND-IN, nothing counted as proved. The contracts of the catalogue dispatchers are evaluated natively on the real code for every listed name: all state names (1-3 qubits, 1-2 qutrits: 1066 names), all POVM names (345), all measurement-process names (13 single, 52 products), all state-ensemble names, all 1-/2-/3-qubit and 1-qutrit gate names with every qubit-id permutation, identity gates, and a sample of the 2-qutrit gates. Clauses: the object can be generated and is physical; pure vector / density matrix / coefficient vector / object agree; unitary / HS matrix / Hamiltonian exponential / Lindbladian exponential / object agree; Kraus sets are complete and give the HS matrices; every object_name form agrees; product names are Kronecker products; unitaries equal independent textbook definitions up to a global phase; 33 textbook (gate, state, state) actions; names outside the catalogue raise; the legacy named constructors (gate.get_*, state.get_*_1q, povm.get_*_povm) agree with the textbook / catalogue objects; tester helpers and generate_composite_system give what their arguments name.',
 'note': 'Level other: exhaustive evaluation over a finite domain with floats, tolerance 1e-9; the dispatchers use eval() on constructed names, which the VC generators do not follow, and there is no symbolic input to quantify over. 2-qutrit gates (about 39k names, seconds each) are sampled in both tiers (16 quick, 798 thorough). One genuine defect found and fixed (state-ensemble catalogue listed names without a generator). Observation: for 3-qubit gates the documented role of ids ("ids[2] is for target") and the behaviour differ for the two cyclic permutations; the library\'s own interface tests pin the behaviour, so both readings are accepted.',
 'technique': 'runtime contracts evaluated by complete enumeration of the finite catalogues (bounded stand-in for contract-based deductive verification)'}

"""C16 Outcome-probability bookkeeping: jobs"""
from qverif.core.runner import Job

META = dict(
    level="proof",
    trusted_base=["CPython ast", "z3 5.1.0 (cvc5 1.0.3 / z3 4.8.12 fallback)", "E1 pyvc VC generator (qverif/pyvc)"],
    assumptions=["IEEE doubles treated as exact reals (E2 part)", "regular regime / chosen zero pattern fixed in requires for the distribution contracts"],
    explanation="",
)


def job_encode(seed=0, timeout_s=10.0):
    from qverif.pyvc.verify import verify
    from . import C16_index as I
    return verify(I.encode_contract(), "C16/index_serial_from_index_multi_dimensional", timeout_s=timeout_s,
                  seed=seed, gen_concrete=I.encode_gen)


def job_decode(variant, seed=0, timeout_s=10.0):
    from qverif.pyvc.verify import verify
    from . import C16_index as I
    return verify(I.decode_contract(variant), f"C16/index_multi_dimensional_from_index_serial[{variant}]",
                  timeout_s=timeout_s, seed=seed, gen_concrete=I.decode_gen)


E2_CLASSES = ["contracts.C16_dist:DistRegular", "contracts.C16_dist:DistZeros", "contracts.C16_dist:EnsembleLayout", "contracts.C16_dist:ValidateProbDist", "contracts.C16_dist:EnsembleTensorProduct", "contracts.C16_dist:LegacyProbDist", "contracts.C16_dist:JointWithImpossibleOutcomeUnderC16"]


def jobs(tier, seed):
    from .C02 import e2_jobs
    t = 30.0 if tier == "quick" else 90.0
    js = e2_jobs("C16", E2_CLASSES, tier, seed) + [Job("C16/encode", "contracts.C16:job_encode", dict(seed=seed, timeout_s=t)),
          Job("C16/decode-A", "contracts.C16:job_decode", dict(variant="A", seed=seed, timeout_s=t)),
          Job("C16/decode-B", "contracts.C16:job_decode", dict(variant="B", seed=seed, timeout_s=t))]
    return js

CLAIM = {'engine': 'E1-pyvc + E2-symtwin', 'level': 'proof', 'text': 'Deductive proof, unbounded in list length and values, of the serial<->multi-dimensional index maps of quara.utils.index_util: VCs generated from the AST of the real functions with loop invariants over ghost recursive definitions (row-major value, Horner value, suffix products); every VC discharged by z3; refutations replayed on the real function.', 'note': 'Trusted: CPython ast, z3, the E1 VC generator (cross-checked against CPython on random concrete inputs every run). Python ints are mathematical. Distribution-level clauses (constructor thresholds, marginal, conditional, joint = marginal x conditional, ensemble layout, incl. the composite POVM built by POVM o measurement process) are E2 contracts: all probability tensors per shape (all-inputs@config; shapes up to 3-4 variables).', 'technique': 'contract-based deductive verification (AST->VC, loop invariants, z3)'}

"""C02 All representations of one object denote the same operator: jobs"""
from qverif.core.runner import Job

META = dict(
    level="proof",
    trusted_base=["CPython", "numpy structural operations on object arrays", "symnp/symlinalg model (qverif/symtwin)",
                  "exact polynomial normaliser (qverif/symtwin/scalar.py)", "z3 5.1.0"],
    assumptions=["IEEE doubles treated as exact reals; float literals read as rationals",
                 "scipy.linalg.kron absent in installed SciPy: resolved to the model's kron in the twin, numpy.kron natively"],
)


def run_contract(cls, cfg, tier="quick", seed=0, timeout_s=10.0):
    import importlib
    from qverif.symtwin.verify import verify_config
    from spec.qspec import factory
    mod, _, name = cls.partition(":")
    c = getattr(importlib.import_module(mod), name)()
    return verify_config(c, cfg, tier=tier, seed=seed, timeout_s=timeout_s, spec_factory=factory)


def e2_jobs(prop, classes, tier, seed, timeout_s=None):
    import importlib
    out = []
    for cls in classes:
        mod, _, name = cls.partition(":")
        c = getattr(importlib.import_module(mod), name)()
        for cfg in c.configs(tier):
            out.append(Job(f"{prop}/{c.name}[{cfg}]", "contracts.C02:run_contract",
                           dict(cls=cls, cfg=cfg, tier=tier, seed=seed, timeout_s=timeout_s or (30.0 if tier == "quick" else 90.0)),
                           timeout_s=900 if tier == "quick" else 2400, weight=getattr(c, "weight", 1.0)))
    return out


CLASSES = ["contracts.C02_gate:ChoiFromHs", "contracts.C02_gate:HsFromChoi",
           "contracts.C02_state:DensityFromVec", "contracts.C02_state:VecFromDensity",
           "contracts.C02_state:VecDensityRoundTrip",
           "contracts.C02_povm:PovmMatrices", "contracts.C02_povm:PovmMatrixWithSparsity", "contracts.C02_povm:PovmVecFromMatrix",
           "contracts.C02_povm:PovmRoundTrip", "contracts.C02_povm:PovmTupleIndex",
           "contracts.C02_gate:HsFromChoiTruncating", "contracts.C02_gate:ChoiVar", "contracts.C02_gate:HsFromKraus",
           "contracts.C02_gate:ConvertHs", "contracts.C02_gate:ProcessMatrix",
           "contracts.C02_misc:ConvertVec", "contracts.C02_misc:MProcessConversions", "contracts.C02_misc:Linearity", "contracts.C02_misc:CompBasis", "contracts.C02_gate:KrausRoundTrip", "contracts.C02_tables:LazyTables"]


def jobs(tier, seed):
    return e2_jobs("C02", CLASSES, tier, seed)

CLAIM = {'engine': 'E2-symtwin', 'level': 'proof', 'text': 'For every listed configuration the real conversion functions are executed unmodified over exact symbolic scalars; each postcondition (result == defining formula, alternative implementations agree, inverse pair == identity, truncation rule) is a verification condition over ALL real inputs, decided by exact polynomial normalisation and z3; refutations are replayed natively.', 'note': "all-inputs@config: universal over inputs, finite over configurations (systems 1q/1qt/2q[/qxqt], bases). Trusted: the numpy/scipy model (structural ops are numpy's own on object arrays), floats as exact reals, polynomial normaliser, z3. Kraus extraction (eigendecomposition, sorting, phase convention) is checked on six concrete non-symmetric channels as a bounded stand-in, not counted as proved.", 'technique': 'contract-based deductive verification (symbolic execution of the real source -> VCs, normaliser + z3)'}

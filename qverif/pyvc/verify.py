"""Driver for one E1 contract: prove every clause on every path, replay refutations natively,
refute the canary, cross-check the engine against CPython on random concrete inputs."""
import random
import time
import traceback
from fractions import Fraction

import z3

from ..core import result as R
from ..core.errors import Undecided, Unsupported
from ..core.result import ObResult
from ..core import native as N
from ..core import solver as S
from . import values as V
from .engine import Engine, Contract, LoopSpec, _Raise, _Return  # noqa
from .values import SymSeq, NdVec, Seq


# ------------------------------------------------------------------ model -> python

def py_of(model, v, maxlen=64):
    """concrete python value of an engine value under a model"""
    if v is None or isinstance(v, (bool, int, str)):
        return v
    if isinstance(v, float):
        return v
    if isinstance(v, Fraction):
        return v
    if isinstance(v, tuple):
        return tuple(py_of(model, x, maxlen) for x in v)
    if isinstance(v, list):
        return [py_of(model, x, maxlen) for x in v]
    if isinstance(v, dict):
        return {k: py_of(model, x, maxlen) for k, x in v.items()}
    if isinstance(v, NdVec):
        return [py_of(model, x, maxlen) for x in v.items]
    if isinstance(v, Seq):
        n = py_of(model, v.length)
        if not isinstance(n, int) or n < 0 or n > maxlen:
            raise Undecided(f"model gives sequence length {n}")
        return [py_of(model, v.get(z3.IntVal(i)), maxlen) for i in range(n)]
    if z3.is_expr(v):
        if v.sort() == V.StrSort:
            val = model.eval(v, model_completion=True) if model is not None else z3.simplify(v)
            for s, c in V.known_strings().items():
                cv = model.eval(c, model_completion=True) if model is not None else c
                if cv.eq(val):
                    return s
            return "__other_string__"
        if model is None:
            sv = z3.simplify(v)
            if z3.is_int_value(sv):
                return sv.as_long()
            if z3.is_rational_value(sv):
                return Fraction(sv.numerator_as_long(), sv.denominator_as_long())
            if z3.is_true(sv):
                return True
            if z3.is_false(sv):
                return False
            raise Undecided(f"not a concrete value: {sv}")
        return S.model_value(model, v)
    if isinstance(v, V.OpaqueStr):
        return "<str>"
    return repr(v)


def norm(x):
    """normalise native / engine results for comparison"""
    import numpy as np
    if isinstance(x, (bool, np.bool_)):
        return bool(x)
    if isinstance(x, (int, np.integer)):
        return int(x)
    if isinstance(x, (float, np.floating)):
        return float(x)
    if isinstance(x, Fraction):
        return float(x) if x.denominator != 1 else int(x)
    if isinstance(x, np.ndarray):
        return [norm(y) for y in x.tolist()]
    if isinstance(x, (list, tuple)):
        return [norm(y) for y in x]
    if isinstance(x, dict):
        return {k: norm(v) for k, v in x.items()}
    return x


def same(a, b, tol=1e-9):
    a, b = norm(a), norm(b)
    if isinstance(a, list) and isinstance(b, list):
        return len(a) == len(b) and all(same(x, y, tol) for x, y in zip(a, b))
    if isinstance(a, dict) and isinstance(b, dict):
        return a.keys() == b.keys() and all(same(a[k], b[k], tol) for k in a)
    if isinstance(a, bool) or isinstance(b, bool):
        return a == b
    if isinstance(a, (int, float)) and isinstance(b, (int, float)):
        return abs(a - b) <= tol * max(1.0, abs(a), abs(b))
    return a == b


def native_outcome(contract, native_args):
    """run the real function natively: ('return', value) | ('raise', exception class name)"""
    if contract.native_call:
        return contract.native_call(native_args)
    f = N.resolve(contract.target)
    try:
        if isinstance(native_args, dict):
            return ("return", f(**native_args))
        return ("return", f(*native_args))
    except Exception as e:  # noqa
        return ("raise", type(e).__name__)


# ------------------------------------------------------------------ main driver

def verify(contract, name, timeout_s=10.0, n_selfcheck=60, seed=0, gen_concrete=None):
    """returns list[ObResult] for one contract"""
    t0 = time.time()
    out = []
    eng = Engine(contract, timeout_s=timeout_s)
    fn = contract.target
    common = dict(prop=contract.prop, engine="E1-pyvc", scope=contract.scope, function=fn)
    try:
        records = eng.run()
    except Undecided as e:
        # the unbounded proof is not available (anchor moved / unsupported construct):
        # still look for a concrete failing input; none found => undecided, never a violation
        found = _bounded_search(contract, None)
        if found is None and getattr(contract, "native_search", None):
            found = contract.native_search(None, canary=False)
        if found is None and gen_concrete and contract.native_check:
            # the proof is unavailable for this source text: run the contract natively on random concrete inputs (a witness is a violation;
            # no witness leaves the obligation undecided)
            rng = random.Random(seed * 7919 + 23)
            for _ in range(400):
                na = gen_concrete(rng)
                oc = native_outcome(contract, na)
                chk = contract.native_check(na, oc)
                bad = [k for k, v in chk.items() if v is False]
                if bad:
                    found = dict(args=na, outcome=oc, clause=bad[0])
                    break
        if found is not None:
            return [ObResult(name=f"{name}/{found['clause']}", status=R.REFUTED,
                             witness=dict(args=repr(found["args"]), outcome=repr(found["outcome"])),
                             replay=dict(confirmed=True, how="bounded search + native call", args=repr(found["args"]),
                                         outcome=repr(found["outcome"])),
                             clause=contract.clause_text.get(found["clause"], found["clause"]),
                             detail=f"(proof unavailable: {e}) clause fails on the real code", **common)]
        return [ObResult(name=f"{name}/undecided", status=R.UNDECIDED, detail=str(e), **common)]
    if eng.n_paths == 0 or not records:
        return [ObResult(name=f"{name}/vacuous", status=R.FAULT, detail="no path / no obligation generated", **common)]

    # requires satisfiable? (vacuity)
    st, _ = S.is_sat(eng.base_hyps + V.str_distinct_axioms())
    if st != "sat":
        out.append(ObResult(name=f"{name}/requires-satisfiable", status=R.FAULT,
                            detail=f"requires is {st}: contract would be vacuous", **common))

    for label, recs in sorted(records.items()):
        secs = sum(r["seconds"] for r in recs)
        backends = sorted({r["backend"] for r in recs})
        clause = contract.clause_text.get(label.split("/")[-1], contract.clause_text.get(label, label))
        res = ObResult(name=f"{name}/{label}", status=R.DISCHARGED, seconds=secs, backend="+".join(backends),
                       clause=clause, extra=dict(paths=len(recs)), **common)
        sat = [r for r in recs if r["status"] == "sat"]
        unk = [r for r in recs if r["status"] == "unknown"]
        if sat:
            res = _handle_refutation(contract, eng, res, label, sat)
        elif unk:
            res.status = R.UNDECIDED
            res.detail = f"solver returned unknown on {len(unk)} of {len(recs)} paths: {unk[0].get('reason', '')}"
            res.smt = unk[0].get("smt", "")[:4000]
        else:
            res.smt = ""
        out.append(res)

    for lname, lhyps, lgoal in (getattr(contract, "lemmas", None) or []):
        r = S.prove(lhyps, lgoal, timeout_s=timeout_s)
        out.append(ObResult(name=f"{name}/lemma/{lname}", status=R.DISCHARGED if r["status"] == "unsat" else R.UNDECIDED,
                            seconds=r["seconds"], backend=r["backend"], clause=f"lemma {lname}: {lgoal}",
                            detail="" if r["status"] == "unsat" else f"lemma not proved: {r['status']}", **common))

    # canary: deliberately false clauses must be refuted and the witness confirmed natively
    if contract.canary:
        ceng = Engine(contract, timeout_s=timeout_s)
        crecs = ceng.run(post=contract.canary)
        for label, recs in sorted(crecs.items()):
            if label.startswith("loop"):
                continue
            sat = [r for r in recs if r["status"] == "sat"]
            ok = False
            detail = ""
            for r in sat:
                na = r.get("native_args")
                if na is None:
                    continue
                oc = native_outcome(contract, na)
                cn = getattr(contract, "canary_native", None)
                chk = cn(na, oc) if cn else {}
                key = label.split("/")[-1]
                if chk.get(key) is False:
                    ok = True
                    detail = f"witness {na!r} -> {oc!r}"
                    break
            if not ok:
                found = _bounded_search(contract, label.split("/")[-1], post=contract.canary,
                                        check=getattr(contract, "canary_native", None))
                if found is not None:
                    ok, detail = True, f"witness {found['args']!r} -> {found['outcome']!r} (bounded search)"
                elif getattr(contract, "native_search", None):
                    found = contract.native_search(label.split("/")[-1], canary=True)
                    if found is not None:
                        ok, detail = True, f"witness {found['args']!r} -> {found['outcome']!r} (native search over concrete instances)"
            out.append(ObResult(name=f"{name}/canary/{label}", status=R.CANARY_OK if ok else R.FAULT,
                                detail=detail if ok else "canary clause was NOT refuted with a natively confirmed witness",
                                clause="(deliberately false) " + label, **common))

    # engine conformance: concrete executions of the VC generator's evaluator vs CPython
    if gen_concrete:
        rng = random.Random(seed * 7919 + 17)
        n_ok = 0
        for k in range(n_selfcheck):
            na = gen_concrete(rng)
            oc = native_outcome(contract, na)
            try:
                eoc = concrete_run(contract, na, timeout_s)
            except Undecided as e:
                out.append(ObResult(name=f"{name}/conformance", status=R.UNDECIDED, detail=f"concrete run undecided: {e}", **common))
                break
            if not (eoc[0] == oc[0] and (same(eoc[1], oc[1]) if oc[0] == "return" else eoc[1] == oc[1])):
                out.append(ObResult(name=f"{name}/conformance", status=R.FAULT,
                                    detail=f"engine and CPython disagree on {na!r}: engine {eoc!r}, CPython {oc!r}", **common))
                break
            n_ok += 1
        if out:
            out[0].extra["conformance_points"] = n_ok
    for r in out:
        r.extra.setdefault("paths_total", eng.n_paths)
    return out


def concrete_run(contract, native_args, timeout_s=10.0):
    """run the engine on concrete inputs (single path), return outcome in python values"""
    eng = Engine(contract, timeout_s=timeout_s)
    made = contract.make_inputs(("concrete", native_args))
    saved_loops = contract.loops
    try:
        contract_loops = contract.loops
        contract.loops = {}           # concrete lengths: loops are simply executed
        from ..core.paths import PathManager
        eng.base_hyps = list(made.get("requires", []))
        eng.ghost = made.get("ghost", {})
        eng.pm = PathManager(eng.base_hyps, max_paths=4)
        eng.pm.start_path()
        for ax in V.str_distinct_axioms():
            eng.pm.solver.add(ax)
        eng.inputs = dict(made["args"])
        eng.env = dict(made["args"])
        eng.pure = 0
        try:
            eng.exec_block(eng.fnode.body)
            return ("return", None)
        except _Return as r:
            return ("return", py_of(None, r.value))
        except _Raise as e:
            return ("raise", e.exc)
    finally:
        contract.loops = saved_loops


def _handle_refutation(contract, eng, res, label, sat):
    """a VC has a counter-model. Replay on the real code."""
    key = label.split("/")[-1]
    is_loop_ob = label.startswith("loop")
    confirmed = None
    tried = []
    for r in sat:
        na = r.get("native_args")
        if na is None or is_loop_ob:
            continue
        oc = native_outcome(contract, na)
        chk = contract.native_check(na, oc) if contract.native_check else {}
        tried.append(dict(args=repr(na), outcome=repr(oc), clause_holds=chk.get(key)))
        if chk.get(key) is False:
            confirmed = dict(args=na, outcome=oc)
            break
    if confirmed is None:
        # bounded search for a concrete failing input (no invariants, small concrete lengths);
        # for a loop obligation any post clause failing on the real code is the witness
        confirmed = _bounded_search(contract, None if is_loop_ob else key)
    if confirmed is None and getattr(contract, "native_search", None):
        # contracts over uninterpreted callees: look for a failing CONCRETE instance (concrete callees) on the real code
        confirmed = contract.native_search(None if is_loop_ob else key, canary=False)
        if confirmed is None and not is_loop_ob:
            # a structural clause (how callees are wired) has no native reading of its own: any clause failing natively is the witness
            confirmed = contract.native_search(None, canary=False)
    if confirmed is not None:
        res.status = R.REFUTED
        res.witness = dict(args=repr(confirmed["args"]), outcome=repr(confirmed["outcome"]))
        res.replay = dict(confirmed=True, how="native call of the real function; clause evaluated in CPython",
                          args=repr(confirmed["args"]), outcome=repr(confirmed["outcome"]))
        res.detail = f"clause `{confirmed.get('clause', key)}` fails on the real code for {confirmed['args']!r} -> {confirmed['outcome']!r}"
        res.smt = sat[0].get("smt", "")[:4000]
        return res
    through_cut = any(1 in r["path"] or 0 in r["path"] for r in sat) and bool(contract.loops)
    if is_loop_ob or through_cut:
        # the VC has a model, but no concrete failing input exists in the bounded search:
        # a previously discharged obligation now fails => reported, marked no-failing-input-found
        res.status = R.REFUTED
        res.replay = dict(confirmed=False, tried=tried)
        res.detail = ("verification condition has a counter-model (" + str(sat[0]["model"])[:800] +
                      "); no concrete failing input found by native replay / bounded search")
        res.smt = sat[0].get("smt", "")[:4000]
        return res
    if getattr(contract, "native_search", None) and not tried:
        # modular contract over callee stubs: the VC is refuted but no concrete instance fails natively
        res.status = R.REFUTED
        res.replay = dict(confirmed=False, tried=tried)
        res.detail = "verification condition over the callee contracts is refuted; no concrete failing input found by the native search"
        res.smt = sat[0].get("smt", "")[:4000]
        return res
    # straight-line path, model determines the input, CPython says the clause holds => engine is wrong
    res.status = R.FAULT
    res.detail = f"counter-model does not replay on CPython: {tried!r}"
    return res


def _bounded_search(contract, key, max_len=3, timeout_s=5.0, post=None, check=None):
    """look for a concrete failing input with all sequences of concrete length <= max_len"""
    try:
        shapes = contract.make_inputs(("bounds", max_len)).get("bounds")
    except Exception:
        return None
    if not shapes:
        return None
    saved = contract.loops
    try:
        contract.loops = {}
        for b in shapes:
            eng = Engine(contract, timeout_s=timeout_s)
            orig = contract.make_inputs
            contract.make_inputs = lambda mode=None, _b=b, _o=orig: _o(("bounded", _b))
            try:
                recs = eng.run(post=post)
            except Undecided:
                continue
            finally:
                contract.make_inputs = orig
            for label, rr in recs.items():
                if key is not None and label.split("/")[-1] != key:
                    continue
                if label.startswith("loop"):
                    continue
                for r in rr:
                    if r["status"] == "sat" and r.get("native_args") is not None:
                        na = r["native_args"]
                        oc = native_outcome(contract, na)
                        ck = check or contract.native_check
                        chk = ck(na, oc) if ck else {}
                        if chk.get(label.split("/")[-1]) is False:
                            return dict(args=na, outcome=oc, clause=label.split("/")[-1])
    finally:
        contract.loops = saved
    return None

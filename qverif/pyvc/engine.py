"""E1 `pyvc`: verification-condition generation from the AST of real Python functions.

The function's source is read from /repo on every run (ast of the current file).
Forward symbolic execution, one run per path (core.paths.PathManager);
loops with an invariant are cut (entry / preservation / use after the loop);
callees are replaced by contract-supplied stubs; each contract clause on each
path is a VC discharged by z3 (cvc5 / z3-4.8 as fallback).

Python semantics assumed: mathematical ints; floor // and %; floats as reals;
left-to-right evaluation; short-circuit and/or; exceptions as abrupt exits;
strings only compared for equality (anything else on a symbolic string is
`Unsupported` => undecided).
"""
import ast
import os
import time
from fractions import Fraction

import z3

from ..core import result as R
from ..core.errors import Undecided, Unsupported, EngineFault
from ..core.paths import PathManager, DeadPath
from ..core.result import ObResult
from ..core import solver as S
from . import values as V
from .values import (SymSeq, ConcSeq, RangeSeq, EnumSeq, ZipSeq, RevSeq, Seq, NdVec, Obj, BoundMethod, Func,
                     OpaqueStr, ExcClass, ExcValue, PyType, StrSort, str_const)

REPO = os.environ.get("QVERIF_REPO", "/repo")


# ------------------------------------------------------------------ control flow signals

class _Return(Exception):
    def __init__(self, value):
        self.value = value


class _Raise(Exception):
    def __init__(self, exc, payload=None):
        self.exc = exc          # exception class name
        self.payload = payload


class _Break(Exception):
    pass


class _Continue(Exception):
    pass


class _PathEnd(Exception):
    pass


class _NeedFork(Exception):
    pass


class MaybeUnbound:
    def __init__(self, defined, value):
        self.defined, self.value = defined, value


class CounterVal:
    def __init__(self, items):
        self.items = items


EXC_HIERARCHY = {
    "Exception": None, "ValueError": "Exception", "TypeError": "Exception", "IndexError": "LookupError",
    "KeyError": "LookupError", "LookupError": "Exception", "ZeroDivisionError": "ArithmeticError",
    "ArithmeticError": "Exception", "UnboundLocalError": "NameError", "NameError": "Exception",
    "AttributeError": "Exception", "NotImplementedError": "RuntimeError", "RuntimeError": "Exception",
}


def exc_isinstance(name, cls, extra=None):
    h = dict(EXC_HIERARCHY)
    if extra:
        h.update(extra)
    while name is not None:
        if name == cls:
            return True
        name = h.get(name, "Exception" if name != "Exception" else None)
    return False


# ------------------------------------------------------------------ source access

def load_function(target):
    """target 'quara.utils.index_util:func' or 'quara.qcircuit.experiment:Experiment._validate_schedule_item'
    -> (ast.FunctionDef, source path, source text of the function)"""
    mod, _, qual = target.partition(":")
    path = os.path.join(REPO, *mod.split(".")) + ".py"
    if not os.path.exists(path):
        raise Undecided(f"anchor missing: {path}")
    src = open(path).read()
    tree = ast.parse(src, path)
    node = tree
    for part in qual.split("."):
        found = None
        for ch in node.body:
            if isinstance(ch, (ast.FunctionDef, ast.ClassDef)) and ch.name == part:
                found = ch     # last definition wins (property setter after getter)
        if found is None:
            raise Undecided(f"anchor missing: {target}")
        node = found
    return node, path, ast.get_source_segment(src, node)


def load_setter(target):
    """property setter: 'mod:Class.name.setter'"""
    mod, _, qual = target.partition(":")
    parts = qual.split(".")
    assert parts[-1] == "setter"
    path = os.path.join(REPO, *mod.split(".")) + ".py"
    src = open(path).read()
    tree = ast.parse(src, path)
    node = tree
    for part in parts[:-2]:
        node = next((ch for ch in node.body if isinstance(ch, ast.ClassDef) and ch.name == part), None)
        if node is None:
            raise Undecided(f"anchor missing: {target}")
    for ch in node.body:
        if isinstance(ch, ast.FunctionDef) and ch.name == parts[-2]:
            for d in ch.decorator_list:
                if isinstance(d, ast.Attribute) and d.attr == "setter":
                    return ch, path, ast.get_source_segment(src, ch)
    raise Undecided(f"anchor missing: {target}")


# ------------------------------------------------------------------ contract objects

class LoopSpec:
    def __init__(self, header, invariant, shapes=None, facts=None, body_post=None):
        self.header = header          # expected `ast.unparse` of "for <target> in <iter>" / "while <test>"
        self.invariant = invariant    # (ctx, t) -> [(label, z3 Bool)]
        self.shapes = shapes or {}    # var -> shape for lists turned into SymSeq / maybe-unbound vars
        self.facts = facts            # (ctx, t) -> [z3 Bool]  (instances of ghost-definition axioms)
        self.body_post = body_post    # (ctx, t) -> [(label, z3 Bool)]  obligations about the state at the END of an arbitrary iteration
                                      # (checked where the body falls through and where it leaves by `break`)


class Contract:
    def __init__(self, target, make_inputs, post, loops=None, globals_=None, facts=None,
                 canary=None, concretize=None, native_check=None, prop="", scope="unbounded",
                 max_paths=4000, clause_text=None, setter=False, native_call=None):
        self.target = target
        self.make_inputs = make_inputs      # () -> dict(args=..., requires=[...], ghost={...})
        self.post = post                    # (ctx) -> [(label, goal)]
        self.loops = loops or {}
        self.globals = globals_ or {}
        self.facts = facts                  # (ctx) -> [z3 Bool]
        self.canary = canary                # (ctx) -> [(label, goal)]  -- must be refuted
        self.concretize = concretize        # (model, inputs) -> dict of native args
        self.native_check = native_check    # (native_args, outcome) -> {label: bool}
        self.native_call = native_call      # (native_args) -> outcome   (default: call the real function)
        self.prop = prop
        self.scope = scope
        self.max_paths = max_paths
        self.clause_text = clause_text or {}
        self.setter = setter


class Ctx:
    """what contract callbacks see"""

    def __init__(self, eng):
        self.eng = eng
        self.env = eng.env
        self.inputs = eng.inputs
        self.ghost = eng.ghost
        self.kind = None       # 'return' | 'raise'
        self.value = None
        self.exc = None

    # helpers for callee stubs
    def assume(self, c):
        self.eng.pm.assume(c)

    def branch(self, c):
        return self.eng.branch(c)

    def require(self, label, goal):
        self.eng.record(label, goal)

    def fresh_int(self, name):
        return self.eng.fresh("int", name)

    def fresh_real(self, name):
        return self.eng.fresh("real", name)

    def raise_(self, exc):
        raise _Raise(exc)


# ------------------------------------------------------------------ the engine

class Engine:
    def __init__(self, contract, timeout_s=10.0):
        self.c = contract
        self.timeout_s = timeout_s
        if contract.setter:
            self.fnode, self.path, self.src = load_setter(contract.target)
        else:
            self.fnode, self.path, self.src = load_function(contract.target)
        self.loop_ordinal = {}
        n = 0
        for node in ast.walk(self.fnode):
            pass
        for node in self._loops_in_order(self.fnode):
            self.loop_ordinal[id(node)] = n
            n += 1
        self.n_loops = n
        self.records = {}        # label -> list of dict(status, model, seconds, backend, path)
        self.fresh_counter = 0
        self.solver_seconds = 0.0

    @staticmethod
    def _loops_in_order(fnode):
        out = []

        def visit(n):
            for ch in ast.iter_child_nodes(n):
                if isinstance(ch, (ast.For, ast.While)):
                    out.append(ch)
                if not isinstance(ch, (ast.FunctionDef, ast.Lambda, ast.ClassDef)) or ch is fnode:
                    visit(ch)
        visit(fnode)
        return out

    # -------------------------------------------------------------- utilities
    def fresh(self, kind, name):
        self.fresh_counter += 1
        nm = f"{name}!{self.fresh_counter}"
        if kind == "int":
            return z3.Int(nm)
        if kind == "real":
            return z3.Real(nm)
        if kind == "bool":
            return z3.Bool(nm)
        if kind == "str":
            return z3.Const(nm, StrSort)
        raise Unsupported(kind)

    def branch(self, cond):
        if isinstance(cond, bool):
            return cond
        if self.pure > 0:
            c = z3.simplify(cond)
            if z3.is_true(c):
                return True
            if z3.is_false(c):
                return False
            raise _NeedFork()
        return self.pm.branch(cond)

    def hyps(self):
        return self.base_hyps + V.str_distinct_axioms() + self.pm.pc

    def record(self, label, goal, extra_facts=()):
        """prove `goal` under the current path condition; store result under label"""
        if isinstance(goal, bool):
            goal = z3.BoolVal(goal)
        hyps = self.hyps() + list(extra_facts)
        r = S.prove(hyps, goal, timeout_s=self.timeout_s)
        self.solver_seconds += r["seconds"]
        rec = dict(status=r["status"], model=r["model"], seconds=r["seconds"], backend=r["backend"],
                   path=list(self.pm.decisions), goal=goal, reason=r.get("reason", ""))
        if r["status"] != "unsat" and not rec.get("smt"):
            try:
                rec["smt"] = S.to_smt2(hyps, z3.Not(goal))
            except Exception:
                rec["smt"] = ""
        if r["status"] == "sat" and r["model"] is not None and self.c.concretize:
            try:
                rec["native_args"] = self.c.concretize(r["model"], self.inputs, self.ghost)
            except Exception as e:  # noqa
                rec["native_args_error"] = repr(e)
        self.records.setdefault(label, []).append(rec)
        return r["status"] == "unsat"

    # -------------------------------------------------------------- running
    def run(self, post=None, only_first_refutation=False):
        """explore all paths, prove all clauses; returns records dict"""
        post = post or self.c.post
        self.records = {}
        made = self.c.make_inputs()
        self.base_hyps = list(made.get("requires", []))
        self.ghost = made.get("ghost", {})
        args = made["args"]
        self.pm = PathManager(self.base_hyps, max_paths=self.c.max_paths)
        self.n_paths = 0
        self.outcomes = {"return": 0, "raise": 0, "cut": 0}
        while self.pm.has_next():
            self.pm.start_path()
            for ax in V.str_distinct_axioms():
                self.pm.solver.add(ax)
            # re-make inputs so that mutable symbolic values are fresh per path (same names => same symbols)
            made = self.c.make_inputs()
            args = made["args"]
            self.ghost = made.get("ghost", {})
            self.inputs = {k: (v.snapshot() if isinstance(v, SymSeq) else v) for k, v in args.items()}
            self.env = dict(args)
            self.pure = 0
            self.n_paths += 1
            ctx = Ctx(self)
            try:
                try:
                    self.exec_block(self.fnode.body)
                    ctx.kind, ctx.value = "return", None
                except _Return as r:
                    ctx.kind, ctx.value = "return", r.value
                except _Raise as e:
                    ctx.kind, ctx.exc = "raise", e.exc
                self.outcomes[ctx.kind] += 1
                ctx.env = self.env
                facts = self.c.facts(ctx) if self.c.facts else []
                for label, goal in post(ctx):
                    self.record(label, goal, facts)
            except _PathEnd:
                self.outcomes["cut"] += 1
            except DeadPath:
                pass
        return self.records

    # -------------------------------------------------------------- statements
    def exec_block(self, stmts):
        for s in stmts:
            self.exec_stmt(s)

    def exec_stmt(self, s):
        m = getattr(self, "st_" + type(s).__name__, None)
        if m is None:
            raise Unsupported(f"unsupported statement {type(s).__name__} at {self.path}:{s.lineno}")
        return m(s)

    def st_Pass(self, s):
        pass

    def st_Expr(self, s):
        self.eval(s.value)

    def st_Return(self, s):
        raise _Return(self.eval(s.value) if s.value is not None else None)

    def st_Raise(self, s):
        if s.exc is None:
            raise Unsupported("bare raise")
        v = self.eval(s.exc)
        if isinstance(v, ExcClass):
            raise _Raise(v.name)
        if isinstance(v, ExcValue):
            raise _Raise(v.name)
        raise Unsupported(f"raise of {v!r}")

    def st_Assign(self, s):
        v = self.eval(s.value)
        for t in s.targets:
            self.assign(t, v)

    def st_AnnAssign(self, s):
        if s.value is not None:
            self.assign(s.target, self.eval(s.value))

    def st_AugAssign(self, s):
        if isinstance(s.target, ast.Name):
            cur = self.eval(ast.Name(id=s.target.id, ctx=ast.Load()))
            self.assign(s.target, self.binop(s.op, cur, self.eval(s.value)))
        elif isinstance(s.target, ast.Subscript):
            base = self.eval(s.target.value)
            idx = self.eval(s.target.slice)
            cur = self.subscript(base, idx)
            self.store_subscript(base, idx, self.binop(s.op, cur, self.eval(s.value)))
        else:
            raise Unsupported("augmented assignment target")

    def st_If(self, s):
        if self.branch(self.truth(self.eval(s.test))):
            self.exec_block(s.body)
        else:
            self.exec_block(s.orelse)

    def st_Assert(self, s):
        if not self.branch(self.truth(self.eval(s.test))):
            raise _Raise("AssertionError")

    def st_Try(self, s):
        if s.finalbody:
            raise Unsupported("try/finally")
        try:
            self.exec_block(s.body)
        except _Raise as e:
            for h in s.handlers:
                if h.type is None:
                    names = ["Exception"]
                else:
                    tv = self.eval(h.type)
                    names = [x.name for x in (tv if isinstance(tv, tuple) else (tv,))]
                if any(exc_isinstance(e.exc, n, self.c.globals.get("__exc_hierarchy__")) for n in names):
                    if h.name:
                        self.env[h.name] = Obj("exc:" + e.exc, attrs={"args": ConcSeq([OpaqueStr()])})
                    self.exec_block(h.body)
                    return
            raise
        else:
            self.exec_block(s.orelse)

    def _name_nonlinear_real(self, name, v):
        """a real-valued scalar defined by a division by / product of non-constants gets a name (fresh constant == expression):
        later VCs then mention the name, which keeps them within reach of the product abstraction in core.solver.prove"""
        if not (z3.is_expr(v) and v.sort() == z3.RealSort()) or getattr(self, "pure", 0) > 0:
            return v

        def nonlinear(e, depth=0):
            if depth > 40 or not z3.is_app(e):
                return False
            k = e.decl().kind()
            args = e.children()
            nonnum = [a for a in args if not (z3.is_int_value(a) or z3.is_rational_value(a))]
            if k == z3.Z3_OP_MUL and len(nonnum) >= 2:
                return True
            if k in (z3.Z3_OP_DIV, z3.Z3_OP_POWER) and not (z3.is_int_value(args[1]) or z3.is_rational_value(args[1])):
                return True
            return any(nonlinear(a, depth + 1) for a in args)
        if not nonlinear(v):
            return v
        c = self.fresh("real", name)
        self.pm.assume(c == v)
        return c

    def assign(self, target, v):
        if isinstance(target, ast.Name):
            v = self._name_nonlinear_real(target.id, v)
            self.env[target.id] = v
        elif isinstance(target, (ast.Tuple, ast.List)):
            items = self.unpack(v, len(target.elts))
            for t, x in zip(target.elts, items):
                self.assign(t, x)
        elif isinstance(target, ast.Subscript):
            self.store_subscript(self.eval(target.value), self.eval(target.slice), v)
        elif isinstance(target, ast.Attribute):
            base = self.eval(target.value)
            if isinstance(base, Obj):
                base.attrs[target.attr] = v
            else:
                raise Unsupported("attribute store")
        else:
            raise Unsupported(f"assignment target {type(target).__name__}")

    def unpack(self, v, n):
        if isinstance(v, (tuple, list)):
            if len(v) != n:
                raise _Raise("ValueError")
            return list(v)
        if isinstance(v, NdVec):
            if len(v.items) != n:
                raise _Raise("ValueError")
            return list(v.items)
        if isinstance(v, Seq):
            if not self.branch(v.length == n):
                raise _Raise("ValueError")
            return [v.get(z3.IntVal(i)) for i in range(n)]
        if v is None or isinstance(v, (int, float, bool)) or z3.is_expr(v):
            raise _Raise("TypeError")
        raise Unsupported(f"unpack of {v!r}")

    # ---- loops
    def _assigned_names(self, body):
        names, mutated = set(), set()
        for st in body:
            for n in ast.walk(st):
                if isinstance(n, ast.Name) and isinstance(n.ctx, ast.Store):
                    names.add(n.id)
                elif isinstance(n, ast.Call) and isinstance(n.func, ast.Attribute) and \
                        n.func.attr in ("append", "extend", "insert", "pop") and isinstance(n.func.value, ast.Name):
                    mutated.add(n.func.value.id)
                elif isinstance(n, (ast.Subscript,)) and isinstance(n.ctx, ast.Store) and isinstance(n.value, ast.Name):
                    mutated.add(n.value.id)
        return names, mutated

    def havoc_var(self, name, spec, in_env):
        shape = spec.shapes.get(name)
        if not in_env:
            shp = shape or "int"
            val = self.fresh_of_shape(shp, name)
            return MaybeUnbound(self.fresh("bool", "def_" + name), val)
        cur = self.env[name]
        if isinstance(cur, MaybeUnbound):
            return MaybeUnbound(self.fresh("bool", "def_" + name), self.fresh_like(cur.value, name, shape))
        return self.fresh_like(cur, name, shape)

    def fresh_of_shape(self, shape, name):
        if isinstance(shape, str):
            return self.fresh(shape, name)
        if shape[0] == "seq":
            self.fresh_counter += 1
            return SymSeq.fresh(shape[1], f"{name}!{self.fresh_counter}")
        if shape[0] == "opt":
            return V.OptVal(self.fresh("bool", "none_" + name), self.fresh_of_shape(shape[1], name))
        leaves = [self.fresh(s, name) for s in V.leaves_of(shape)]
        v, _ = V.unflatten(shape, leaves)
        return v

    def fresh_like(self, cur, name, shape=None):
        if shape is not None:
            return self.fresh_of_shape(shape, name)
        if isinstance(cur, bool):
            return self.fresh("bool", name)
        if isinstance(cur, int):
            return self.fresh("int", name)
        if isinstance(cur, (float, Fraction)):
            return self.fresh("real", name)
        if z3.is_expr(cur):
            if cur.sort() == z3.IntSort():
                return self.fresh("int", name)
            if cur.sort() == z3.RealSort():
                return self.fresh("real", name)
            if cur.sort() == z3.BoolSort():
                return self.fresh("bool", name)
            if cur.sort() == StrSort:
                return self.fresh("str", name)
        if isinstance(cur, SymSeq):
            self.fresh_counter += 1
            return SymSeq.fresh(cur.shape, f"{name}!{self.fresh_counter}")
        if isinstance(cur, NdVec):
            return NdVec([self.fresh("real" if cur.kind == "real" else "int", name) for _ in cur.items], cur.kind)
        if isinstance(cur, V.OptVal):
            return V.OptVal(self.fresh("bool", "none_" + name), self.fresh_like(cur.value, name))
        if isinstance(cur, tuple):
            return tuple(self.fresh_like(x, name) for x in cur)
        if isinstance(cur, str):
            return self.fresh("str", name)
        if cur is None:
            raise Unsupported(f"cannot havoc variable {name} holding None without a declared shape")
        if isinstance(cur, list):
            raise Unsupported(f"list variable {name} modified in a cut loop needs a declared shape")
        raise Unsupported(f"cannot havoc variable {name} of value {cur!r}")

    def st_For(self, s):
        it = self.as_seq(self.eval(s.iter))
        spec = self.c.loops.get(self.loop_ordinal[id(s)])
        n = z3.simplify(it.length)
        if spec is None:
            if not z3.is_int_value(n):
                raise Undecided(f"loop over a sequence of symbolic length without an invariant at {self.path}:{s.lineno}")
            broke = False
            for k in range(n.as_long()):
                self.assign(s.target, it.get(z3.IntVal(k)))
                try:
                    self.exec_block(s.body)
                except _Continue:
                    continue
                except _Break:
                    broke = True
                    break
            if not broke:
                self.exec_block(s.orelse)
            return
        header = f"for {ast.unparse(s.target)} in {ast.unparse(s.iter)}"
        if header != spec.header:
            raise Undecided(f"contract anchor moved: loop header is `{header}`, contract expects `{spec.header}`")
        ctx = Ctx(self)
        # (1) invariant holds on entry
        t0 = z3.IntVal(0)
        facts = spec.facts(ctx, t0) if spec.facts else []
        for label, goal in spec.invariant(ctx, t0):
            self.record(f"loop{self.loop_ordinal[id(s)]}/entry/{label}", goal, facts)
        mode = self.pm.choice(2)
        names, mutated = self._assigned_names(s.body)
        tnames = {x.id for x in ast.walk(s.target) if isinstance(x, ast.Name)}
        for nm in sorted((names | mutated) - tnames):
            self.env[nm] = self.havoc_var(nm, spec, nm in self.env)
        t = self.fresh("int", "t")
        ctx = Ctx(self)
        if mode == 0:
            self.pm.assume(z3.And(t >= 0, t < n))
            for f in (spec.facts(ctx, t) if spec.facts else []):
                self.pm.assume(f)
            for _, inv in spec.invariant(ctx, t):
                self.pm.assume(inv)
            self.assign(s.target, it.get(t))

            def _body_post():
                if spec.body_post:
                    c2 = Ctx(self)
                    f2 = spec.facts(c2, t + 1) if spec.facts else []
                    for label, goal in spec.body_post(c2, t):
                        self.record(f"loop{self.loop_ordinal[id(s)]}/iteration/{label}", goal, f2)
            try:
                self.exec_block(s.body)
            except _Continue:
                pass
            except _Break:
                _body_post()
                return
            _body_post()
            ctx = Ctx(self)
            facts = spec.facts(ctx, t + 1) if spec.facts else []
            for label, goal in spec.invariant(ctx, t + 1):
                self.record(f"loop{self.loop_ordinal[id(s)]}/preserved/{label}", goal, facts)
            raise _PathEnd()
        else:
            self.pm.assume(t == n)
            self.pm.assume(n >= 0)
            for f in (spec.facts(ctx, t) if spec.facts else []):
                self.pm.assume(f)
            for _, inv in spec.invariant(ctx, t):
                self.pm.assume(inv)
            for tn in sorted(tnames):
                if tn not in self.env:
                    self.env[tn] = MaybeUnbound(n > 0, self.fresh("int", tn))
            self.exec_block(s.orelse)

    def st_While(self, s):
        spec = self.c.loops.get(self.loop_ordinal[id(s)])
        if spec is None:
            # bounded unrolling only for concrete conditions
            for _ in range(10000):
                c = self.truth(self.eval(s.test))
                if not isinstance(c, bool):
                    c = z3.simplify(c)
                    if z3.is_true(c):
                        c = True
                    elif z3.is_false(c):
                        c = False
                    else:
                        raise Undecided(f"while loop with symbolic condition without an invariant at {self.path}:{s.lineno}")
                if not c:
                    break
                try:
                    self.exec_block(s.body)
                except _Continue:
                    continue
                except _Break:
                    return
            self.exec_block(s.orelse)
            return
        header = f"while {ast.unparse(s.test)}"
        if header != spec.header:
            raise Undecided(f"contract anchor moved: loop header is `{header}`, contract expects `{spec.header}`")
        ctx = Ctx(self)
        for label, goal in spec.invariant(ctx, None):
            self.record(f"loop{self.loop_ordinal[id(s)]}/entry/{label}", goal, spec.facts(ctx, None) if spec.facts else [])
        mode = self.pm.choice(2)
        names, mutated = self._assigned_names(s.body)
        for nm in sorted(names | mutated):
            self.env[nm] = self.havoc_var(nm, spec, nm in self.env)
        ctx = Ctx(self)
        for f in (spec.facts(ctx, None) if spec.facts else []):
            self.pm.assume(f)
        for _, inv in spec.invariant(ctx, None):
            self.pm.assume(inv)
        c = self.truth(self.eval(s.test))
        if mode == 0:
            self.pm.assume(c if not isinstance(c, bool) else z3.BoolVal(c))
            try:
                self.exec_block(s.body)
            except _Continue:
                pass
            except _Break:
                return
            ctx = Ctx(self)
            for label, goal in spec.invariant(ctx, None):
                self.record(f"loop{self.loop_ordinal[id(s)]}/preserved/{label}", goal,
                            spec.facts(ctx, None) if spec.facts else [])
            raise _PathEnd()
        else:
            self.pm.assume(z3.Not(c) if not isinstance(c, bool) else z3.BoolVal(not c))
            self.exec_block(s.orelse)

    def st_Break(self, s):
        raise _Break()

    def st_Continue(self, s):
        raise _Continue()

    # -------------------------------------------------------------- expressions
    def eval(self, e):
        m = getattr(self, "ex_" + type(e).__name__, None)
        if m is None:
            raise Unsupported(f"unsupported expression {type(e).__name__} at {self.path}:{getattr(e, 'lineno', '?')}")
        return m(e)

    def ex_Constant(self, e):
        return e.value

    def ex_Name(self, e):
        if e.id in self.env:
            v = self.env[e.id]
            if isinstance(v, MaybeUnbound):
                if not self.branch(v.defined):
                    raise _Raise("UnboundLocalError")
                return v.value
            return v
        if e.id in self.c.globals:
            return self.c.globals[e.id]
        if e.id in BUILTINS:
            return BUILTINS[e.id]
        if e.id in EXC_HIERARCHY:
            return ExcClass(e.id)
        # a local assigned somewhere in the function but not yet => UnboundLocalError
        for n in ast.walk(self.fnode):
            if isinstance(n, ast.Name) and isinstance(n.ctx, ast.Store) and n.id == e.id:
                raise _Raise("UnboundLocalError")
        raise Unsupported(f"unknown name {e.id} at {self.path}:{e.lineno}")

    def ex_Tuple(self, e):
        return tuple(self.eval(x) for x in e.elts)

    def ex_List(self, e):
        return [self.eval(x) for x in e.elts]

    def ex_Dict(self, e):
        return {self.hashable(self.eval(k)): self.eval(v) for k, v in zip(e.keys, e.values)}

    def hashable(self, k):
        if isinstance(k, (str, int, bool)) or k is None:
            return k
        raise Unsupported(f"dict key {k!r}")

    def ex_JoinedStr(self, e):
        for v in e.values:
            if isinstance(v, ast.FormattedValue):
                self.eval(v.value)
        return OpaqueStr()

    def ex_UnaryOp(self, e):
        v = self.eval(e.operand)
        if isinstance(e.op, ast.Not):
            t = self.truth(v)
            return (not t) if isinstance(t, bool) else z3.Not(t)
        if isinstance(e.op, ast.USub):
            if isinstance(v, (int, float, Fraction)) and not isinstance(v, bool):
                return -v
            return -self.num(v)
        if isinstance(e.op, ast.UAdd):
            return v
        raise Unsupported("unary op")

    def ex_BoolOp(self, e):
        is_and = isinstance(e.op, ast.And)
        # Python returns the deciding operand; we only support use in boolean position or same-typed values
        vals = e.values

        def rec(i):
            v = self.eval(vals[i])
            if i == len(vals) - 1:
                return v
            t = self.truth(v)
            if isinstance(t, bool):
                if is_and:
                    return rec(i + 1) if t else v
                return v if t else rec(i + 1)
            # symbolic: try a pure evaluation of the rest
            saved_env = dict(self.env)
            self.pure += 1
            try:
                rest = rec(i + 1)
                rt = self.truth(rest)
                pure_ok = True
            except _NeedFork:
                pure_ok = False
            except (_Raise,):
                pure_ok = False
            finally:
                self.pure -= 1
            if pure_ok:
                rt = rt if not isinstance(rt, bool) else z3.BoolVal(rt)
                return z3.And(t, rt) if is_and else z3.Or(t, rt)
            self.env = saved_env
            if self.branch(t):
                return rec(i + 1) if is_and else True
            return False if is_and else rec(i + 1)
        return rec(0)

    def ex_IfExp(self, e):
        t = self.truth(self.eval(e.test))
        if isinstance(t, bool):
            return self.eval(e.body if t else e.orelse)
        self.pure += 1
        try:
            a = self.eval(e.body)
            b = self.eval(e.orelse)
            merged = V.ite_value(t, a, b)
            ok = True
        except (_NeedFork, _Raise, Unsupported):
            ok = False
        finally:
            self.pure -= 1
        if ok:
            return merged
        return self.eval(e.body if self.branch(t) else e.orelse)

    def ex_Compare(self, e):
        left = self.eval(e.left)
        result = None
        for i, (op, rn) in enumerate(zip(e.ops, e.comparators)):
            if result is not None:
                # short circuit: later comparators are only evaluated when earlier comparison true;
                # comparators here are side-effect free in the supported subset except for raising
                pass
            right = self.eval(rn)
            c = self.compare(op, left, right)
            if result is None:
                result = c
            else:
                if isinstance(result, bool):
                    result = c if result else False
                elif isinstance(c, bool):
                    result = result if c else False
                else:
                    result = z3.And(result, c)
            left = right
        return result

    def compare(self, op, a, b):
        if isinstance(op, (ast.Is, ast.IsNot)):
            r = self.identical(a, b)
            return r if isinstance(op, ast.Is) else self.neg(r)
        if isinstance(op, (ast.In, ast.NotIn)):
            r = self.contains(b, a)
            return r if isinstance(op, ast.In) else self.neg(r)
        if isinstance(op, (ast.Eq, ast.NotEq)):
            r = self.equal(a, b)
            return r if isinstance(op, ast.Eq) else self.neg(r)
        # ordering
        if isinstance(a, (int, float, Fraction)) and isinstance(b, (int, float, Fraction)):
            return {ast.Lt: a < b, ast.LtE: a <= b, ast.Gt: a > b, ast.GtE: a >= b}[type(op)]
        if a is None or b is None or isinstance(a, (str, tuple, list)) or isinstance(b, (str, tuple, list)):
            if isinstance(a, str) and isinstance(b, str):
                return {ast.Lt: a < b, ast.LtE: a <= b, ast.Gt: a > b, ast.GtE: a >= b}[type(op)]
            if a is None or b is None:
                raise _Raise("TypeError")
            raise Unsupported("ordering of non-numeric values")
        x, y = self.num2(a, b)
        return {ast.Lt: x < y, ast.LtE: x <= y, ast.Gt: x > y, ast.GtE: x >= y}[type(op)]

    def neg(self, r):
        return (not r) if isinstance(r, bool) else z3.Not(r)

    def identical(self, a, b):
        if isinstance(a, V.OptVal) and b is None:
            return a.is_none
        if isinstance(b, V.OptVal) and a is None:
            return b.is_none
        if a is None or b is None:
            return a is b
        if isinstance(a, PyType) and isinstance(b, PyType):
            return a.name == b.name
        return a is b

    def pytype_of(self, v):
        if isinstance(v, MaybeUnbound):
            v = v.value
        if v is None:
            return PyType("NoneType")
        if isinstance(v, bool):
            return PyType("bool")
        if isinstance(v, int):
            return PyType("int")
        if isinstance(v, (float, Fraction)):
            return PyType("float")
        if isinstance(v, (str, OpaqueStr)):
            return PyType("str")
        if isinstance(v, tuple):
            return PyType("tuple")
        if isinstance(v, (list, SymSeq)):
            return PyType("list")
        if isinstance(v, dict):
            return PyType("dict")
        if z3.is_expr(v):
            return PyType({"Int": "int", "Real": "float", "Bool": "bool", "Str": "str"}[str(v.sort())])
        if isinstance(v, Obj) and v.pytype:
            return PyType(v.pytype)
        if isinstance(v, NdVec):
            return PyType("ndarray")
        raise Unsupported(f"type() of {v!r}")

    def equal(self, a, b):
        if isinstance(a, PyType) or isinstance(b, PyType):
            return isinstance(a, PyType) and isinstance(b, PyType) and a.name == b.name
        if isinstance(a, str) and isinstance(b, str):
            return a == b
        if (isinstance(a, str) or (z3.is_expr(a) and a.sort() == StrSort)) and \
                (isinstance(b, str) or (z3.is_expr(b) and b.sort() == StrSort)):
            return V.coerce(a, "str") == V.coerce(b, "str")
        if a is None or b is None:
            return a is None and b is None
        if isinstance(a, (tuple, list)) and isinstance(b, (tuple, list)):
            if type(a) != type(b) or len(a) != len(b):
                return False
            out = True
            for x, y in zip(a, b):
                c = self.equal(x, y)
                if isinstance(c, bool):
                    if not c:
                        return False
                else:
                    out = c if out is True else z3.And(out, c)
            return out
        an = isinstance(a, (int, float, Fraction, bool)) or (z3.is_expr(a) and a.sort() != StrSort)
        bn = isinstance(b, (int, float, Fraction, bool)) or (z3.is_expr(b) and b.sort() != StrSort)
        if an and bn:
            if not z3.is_expr(a) and not z3.is_expr(b):
                return a == b
            if z3.is_expr(a) and a.sort() == z3.BoolSort() and z3.is_expr(b) and b.sort() == z3.BoolSort():
                return a == b
            x, y = self.num2(a, b)
            return x == y
        if an != bn:
            return False      # e.g. "state" == 3
        if isinstance(a, OpaqueStr) or isinstance(b, OpaqueStr):
            raise Unsupported("comparison of an opaque string")
        raise Unsupported(f"equality of {a!r} and {b!r}")

    def contains(self, container, x):
        if isinstance(container, (list, tuple)):
            out = False
            for y in container:
                c = self.equal(x, y)
                if isinstance(c, bool):
                    if c:
                        return True
                else:
                    out = c if out is False else z3.Or(out, c)
            return out
        if isinstance(container, dict):
            return self.contains(list(container.keys()), x)
        raise Unsupported(f"`in` on {container!r}")

    def num(self, v):
        if isinstance(v, MaybeUnbound):
            v = v.value
        if isinstance(v, bool):
            return z3.IntVal(int(v))
        if isinstance(v, int):
            return z3.IntVal(v)
        if isinstance(v, (float, Fraction)):
            return V.to_real(v)
        if z3.is_expr(v):
            if v.sort() == z3.BoolSort():
                return z3.If(v, z3.IntVal(1), z3.IntVal(0))
            if v.sort() in (z3.IntSort(), z3.RealSort()):
                return v
        if v is None or isinstance(v, (str, tuple, list, dict, OpaqueStr)):
            raise _Raise("TypeError")
        raise Unsupported(f"not a number: {v!r}")

    def num2(self, a, b):
        x, y = self.num(a), self.num(b)
        if x.sort() != y.sort():
            x, y = V.to_real(x), V.to_real(y)
        return x, y

    def ex_BinOp(self, e):
        return self.binop(e.op, self.eval(e.left), self.eval(e.right))

    def unwrap(self, v):
        """Optional value used as a value: None raises TypeError (arithmetic on None), otherwise the payload"""
        if isinstance(v, V.OptVal):
            if self.branch(v.is_none):
                raise _Raise("TypeError")
            return v.value
        return v

    def binop(self, op, a, b):
        if isinstance(a, MaybeUnbound):
            a = a.value
        if isinstance(b, MaybeUnbound):
            b = b.value
        a, b = self.unwrap(a), self.unwrap(b)
        # strings / messages
        if isinstance(a, (str, OpaqueStr)) and isinstance(b, (str, OpaqueStr)) and isinstance(op, ast.Add):
            return OpaqueStr() if (isinstance(a, OpaqueStr) or isinstance(b, OpaqueStr)) else a + b
        if isinstance(a, (str, OpaqueStr)) and isinstance(op, ast.Mod):
            return OpaqueStr()
        if isinstance(a, list) and isinstance(b, list) and isinstance(op, ast.Add):
            return a + b
        if isinstance(a, tuple) and isinstance(b, tuple) and isinstance(op, ast.Add):
            return a + b
        if isinstance(a, NdVec) or isinstance(b, NdVec):
            return self.vec_binop(op, a, b)
        pa = isinstance(a, (int, float, Fraction)) and not z3.is_expr(a)
        pb = isinstance(b, (int, float, Fraction)) and not z3.is_expr(b)
        if pa and pb:
            return self.py_binop(op, a, b)
        x, y = self.num(a), self.num(b)
        both_int = x.sort() == z3.IntSort() and y.sort() == z3.IntSort()
        if isinstance(op, ast.Add):
            x, y = self.num2(a, b)
            return x + y
        if isinstance(op, ast.Sub):
            x, y = self.num2(a, b)
            return x - y
        if isinstance(op, ast.Mult):
            x, y = self.num2(a, b)
            return x * y
        if isinstance(op, ast.Div):
            x, y = V.to_real(x), V.to_real(y)
            if self.branch(y == 0):
                raise _Raise("ZeroDivisionError")
            return x / y
        if isinstance(op, (ast.FloorDiv, ast.Mod)):
            if not both_int:
                raise Unsupported("floor division / modulo on reals")
            if self.branch(y == 0):
                raise _Raise("ZeroDivisionError")
            if self.branch(y > 0):
                return (x / y) if isinstance(op, ast.FloorDiv) else (x % y)
            # y < 0: floor semantics via the positive divisor -y
            if isinstance(op, ast.FloorDiv):
                return (-x) / (-y)
            return -((-x) % (-y))
        if isinstance(op, ast.Pow):
            if isinstance(b, int) and not isinstance(b, bool) and 0 <= b <= 8:
                out = z3.IntVal(1) if x.sort() == z3.IntSort() else z3.RealVal(1)
                for _ in range(b):
                    out = out * x
                return out
            raise Unsupported("power with a symbolic / large exponent")
        raise Unsupported(f"binary operator {type(op).__name__}")

    def py_binop(self, op, a, b):
        try:
            if isinstance(a, float):
                a = Fraction(repr(a))
            if isinstance(b, float):
                b = Fraction(repr(b))
            if isinstance(op, ast.Add):
                return a + b
            if isinstance(op, ast.Sub):
                return a - b
            if isinstance(op, ast.Mult):
                return a * b
            if isinstance(op, ast.Div):
                return Fraction(a) / Fraction(b)
            if isinstance(op, ast.FloorDiv):
                return a // b
            if isinstance(op, ast.Mod):
                return a % b
            if isinstance(op, ast.Pow):
                if isinstance(b, int) and b >= 0:
                    return a ** b
                raise Unsupported("power with non-natural exponent")
        except ZeroDivisionError:
            raise _Raise("ZeroDivisionError")
        raise Unsupported(f"binary operator {type(op).__name__}")

    def vec_binop(self, op, a, b):
        if isinstance(a, NdVec) and isinstance(b, NdVec):
            if len(a.items) != len(b.items):
                raise _Raise("ValueError")
            items = [self.binop(op, x, y) for x, y in zip(a.items, b.items)]
        elif isinstance(a, NdVec):
            items = [self.binop(op, x, b) for x in a.items]
        else:
            items = [self.binop(op, a, y) for y in b.items]
        kind = "real" if (isinstance(op, ast.Div) or any(z3.is_expr(i) and i.sort() == z3.RealSort() for i in items)) else "int"
        if kind == "real":
            items = [V.to_real(i) for i in items]
        return NdVec(items, kind)

    def truth(self, v):
        if isinstance(v, MaybeUnbound):
            v = v.value
        if isinstance(v, bool):
            return v
        if v is None:
            return False
        if isinstance(v, (int, float, Fraction)):
            return v != 0
        if isinstance(v, (str, list, tuple, dict)):
            return len(v) > 0
        if isinstance(v, OpaqueStr):
            raise Unsupported("truth of an opaque string")
        if z3.is_expr(v):
            if v.sort() == z3.BoolSort():
                return v
            if v.sort() in (z3.IntSort(), z3.RealSort()):
                return v != 0
            if v.sort() == StrSort:
                return v != str_const("")
        if isinstance(v, Seq):
            return v.length != 0
        if isinstance(v, Obj):
            return v.truthy
        if isinstance(v, (PyType, ExcClass, Func, BoundMethod)):
            return True
        if isinstance(v, NdVec):
            raise _Raise("ValueError")
        raise Unsupported(f"truth value of {v!r}")

    # ---- attribute / subscript / call
    def ex_Attribute(self, e):
        base = self.eval(e.value)
        return self.getattr(base, e.attr, e)

    def getattr(self, base, attr, node=None):
        if isinstance(base, Obj):
            if attr in base.attrs:
                v = base.attrs[attr]
                if isinstance(v, MaybeUnbound):
                    if not self.branch(v.defined):
                        raise _Raise("AttributeError")
                    return v.value
                return v
            if attr in base.methods:
                return BoundMethod(base, attr, base.methods[attr])
            raise Unsupported(f"attribute {attr} of {base!r} is not abstracted by the contract")
        if isinstance(base, (list, SymSeq)) and attr in ("append",):
            return BoundMethod(base, attr, None)
        if isinstance(base, (str, OpaqueStr)) and attr in ("format", "join", "lower", "upper", "__str__"):
            return BoundMethod(base, attr, None)
        if isinstance(base, PyType) and attr == "__name__":
            return base.name
        if isinstance(base, ExcClass) and attr == "__name__":
            return base.name
        if isinstance(base, NdVec):
            if attr == "shape":
                return (len(base.items),)
            if attr in ("tolist", "copy"):
                return BoundMethod(base, attr, None)
        if isinstance(base, dict) and attr in ("get", "keys", "values", "items"):
            return BoundMethod(base, attr, None)
        raise Unsupported(f"attribute {attr} on {base!r} at {self.path}:{getattr(node, 'lineno', '?')}")

    def ex_Subscript(self, e):
        base = self.eval(e.value)
        if isinstance(e.slice, ast.Slice):
            lo = self.eval(e.slice.lower) if e.slice.lower is not None else None
            hi = self.eval(e.slice.upper) if e.slice.upper is not None else None
            if e.slice.step is not None:
                raise Unsupported("slice step")
            if isinstance(base, (list, tuple, str)) and all(x is None or isinstance(x, int) for x in (lo, hi)):
                return base[lo:hi]
            if isinstance(base, OpaqueStr):
                return OpaqueStr()
            if isinstance(base, SymSeq):
                # a slice of a symbolic sequence is only usable by callee stubs that accept it (e.g. np.sum -> fresh value)
                return Obj("slice", attrs=dict(base=base, lo=lo, hi=hi))
            raise Unsupported("slice of a symbolic sequence")
        idx = self.eval(e.slice)
        return self.subscript(base, idx)

    def subscript(self, base, idx):
        if isinstance(base, MaybeUnbound):
            base = base.value
        if isinstance(base, dict):
            if isinstance(idx, (str, int)) or idx is None:
                if idx in base:
                    return base[idx]
                raise _Raise("KeyError")
            # symbolic key: ite chain
            for k, v in base.items():
                if self.branch(self.equal(idx, k)):
                    return v
            raise _Raise("KeyError")
        if isinstance(base, CounterVal):
            total = z3.IntVal(0)
            for it in base.items:
                c = self.equal(it, idx)
                if isinstance(c, bool):
                    total = total + (1 if c else 0)
                else:
                    total = total + z3.If(c, 1, 0)
            return total
        if isinstance(base, (list, tuple)):
            return self.index_concrete(base, idx)
        if isinstance(base, NdVec):
            return self.index_concrete(base.items, idx)
        if isinstance(base, Seq):
            i = self.num(idx)
            if i.sort() != z3.IntSort():
                raise _Raise("TypeError")
            n = base.length
            if self.branch(z3.And(i >= 0, i < n)):
                return base.get(i)
            if self.branch(z3.And(i < 0, i >= -n)):
                return base.get(i + n)
            raise _Raise("IndexError")
        if isinstance(base, (str, OpaqueStr)):
            return OpaqueStr()
        if base is None or isinstance(base, (int, float)) or (z3.is_expr(base)):
            raise _Raise("TypeError")
        raise Unsupported(f"subscript of {base!r}")

    def index_concrete(self, items, idx):
        n = len(items)
        if isinstance(idx, bool):
            idx = int(idx)
        if isinstance(idx, int):
            if -n <= idx < n:
                return items[idx]
            raise _Raise("IndexError")
        if z3.is_expr(idx) and idx.sort() == z3.IntSort():
            idx = z3.simplify(idx)
            if z3.is_int_value(idx):
                return self.index_concrete(items, idx.as_long())
            if not self.branch(z3.And(idx >= -n, idx < n)):
                raise _Raise("IndexError")
            k = z3.If(idx < 0, idx + n, idx)
            out = items[-1]
            for i in range(n - 2, -1, -1):
                out = V.ite_value(k == i, items[i], out)
            return out
        if isinstance(idx, (str, float)) or idx is None or isinstance(idx, tuple):
            raise _Raise("TypeError")
        raise Unsupported(f"index {idx!r}")

    def store_subscript(self, base, idx, v):
        if isinstance(base, dict):
            base[self.hashable(idx)] = v
            return
        items = base.items if isinstance(base, NdVec) else base
        if isinstance(items, list):
            n = len(items)
            if isinstance(idx, int):
                if not -n <= idx < n:
                    raise _Raise("IndexError")
                items[idx] = v
                return
            if z3.is_expr(idx) and idx.sort() == z3.IntSort():
                if not self.branch(z3.And(idx >= -n, idx < n)):
                    raise _Raise("IndexError")
                k = z3.If(idx < 0, idx + n, idx)
                for i in range(n):
                    items[i] = V.ite_value(k == i, v, items[i])
                return
        raise Unsupported(f"subscript store on {base!r}")

    def as_seq(self, v):
        if isinstance(v, MaybeUnbound):
            v = v.value
        if isinstance(v, Seq):
            return v
        if isinstance(v, (list, tuple)):
            return ConcSeq(v)
        if isinstance(v, NdVec):
            return ConcSeq(v.items)
        if isinstance(v, dict):
            return ConcSeq(list(v.keys()))
        if v is None or isinstance(v, (int, float, bool)) or (z3.is_expr(v) and v.sort() != StrSort):
            raise _Raise("TypeError")
        raise Unsupported(f"iteration over {v!r}")

    def ex_ListComp(self, e):
        if len(e.generators) != 1:
            raise Unsupported("nested comprehension")
        g = e.generators[0]
        it = self.as_seq(self.eval(g.iter))
        n = z3.simplify(it.length)
        if not z3.is_int_value(n):
            raise Undecided("comprehension over a sequence of symbolic length")
        out = []
        saved = dict(self.env)
        for k in range(n.as_long()):
            self.assign(g.target, it.get(z3.IntVal(k)))
            ok = True
            for cond in g.ifs:
                if not self.branch(self.truth(self.eval(cond))):
                    ok = False
                    break
            if ok:
                out.append(self.eval(e.elt))
        self.env = saved
        return out

    def ex_Call(self, e):
        f = self.eval(e.func)
        args = []
        for a in e.args:
            if isinstance(a, ast.Starred):
                args.extend(self.eval(a.value))
            else:
                args.append(self.eval(a))
        kwargs = {k.arg: self.eval(k.value) for k in e.keywords}
        return self.call(f, args, kwargs, e)

    def call(self, f, args, kwargs, node=None):
        if isinstance(f, Func):
            return f.fn(Ctx(self), *args, **kwargs)
        if isinstance(f, BoundMethod):
            if f.fn is not None:
                return f.fn(Ctx(self), *args, **kwargs)
            base = f.obj
            if f.name == "append":
                if isinstance(base, list):
                    base.append(args[0])
                else:
                    base.append(args[0])
                return None
            if isinstance(base, (str, OpaqueStr)):
                return OpaqueStr()
            if isinstance(base, NdVec) and f.name == "tolist":
                return list(base.items)
            if isinstance(base, NdVec) and f.name == "copy":
                return base.copy()
            if isinstance(base, dict) and f.name == "get":
                return base.get(args[0], args[1] if len(args) > 1 else None)
            if isinstance(base, dict) and f.name == "keys":
                return list(base.keys())
            if isinstance(base, dict) and f.name == "values":
                return list(base.values())
            if isinstance(base, dict) and f.name == "items":
                return list(base.items())
            raise Unsupported(f"method {f.name}")
        if isinstance(f, ExcClass):
            return ExcValue(f.name)
        if isinstance(f, Builtin):
            return f.fn(self, *args, **kwargs)
        if isinstance(f, PyType):
            return self.call(BUILTINS[f.name], args, kwargs, node) if f.name in BUILTINS else self._unsupported_call(f)
        raise Unsupported(f"call of {f!r} at {self.path}:{getattr(node, 'lineno', '?')}")

    def _unsupported_call(self, f):
        raise Unsupported(f"call of {f!r}")


class Builtin:
    def __init__(self, name, fn):
        self.name, self.fn = name, fn


def _b_len(eng, v):
    if isinstance(v, MaybeUnbound):
        v = v.value
    if isinstance(v, (list, tuple, str, dict)):
        return len(v)
    if isinstance(v, NdVec):
        return len(v.items)
    if isinstance(v, Seq):
        return v.length
    if isinstance(v, Obj) and "__len__" in v.attrs:
        return v.attrs["__len__"]
    if v is None or isinstance(v, (int, float)) or z3.is_expr(v):
        raise _Raise("TypeError")
    raise Unsupported(f"len of {v!r}")


def _b_range(eng, *a):
    if len(a) == 1:
        return RangeSeq(0, a[0])
    if len(a) == 2:
        return RangeSeq(a[0], a[1])
    raise Unsupported("range with step")


def _b_enumerate(eng, it, start=0):
    return EnumSeq(eng.as_seq(it), start)


def _b_zip(eng, *its):
    return ZipSeq([eng.as_seq(i) for i in its])


def _b_reversed(eng, it):
    return RevSeq(eng.as_seq(it))


def _b_list(eng, it=None):
    if it is None:
        return []
    if isinstance(it, (list, tuple)):
        return list(it)
    s = eng.as_seq(it)
    n = z3.simplify(s.length)
    if z3.is_int_value(n):
        return [s.get(z3.IntVal(i)) for i in range(n.as_long())]
    return s


def _b_tuple(eng, it=None):
    if it is None:
        return ()
    if isinstance(it, (list, tuple)):
        return tuple(it)
    s = eng.as_seq(it)
    n = z3.simplify(s.length)
    if z3.is_int_value(n):
        return tuple(s.get(z3.IntVal(i)) for i in range(n.as_long()))
    return s


def _b_dict(eng, *a, **kw):
    d = dict(*a) if a else {}
    d.update(kw)
    return d


def _b_divmod(eng, a, b):
    return (eng.binop(ast.FloorDiv(), a, b), eng.binop(ast.Mod(), a, b))


def _b_abs(eng, a):
    if isinstance(a, (int, float, Fraction)):
        return abs(a)
    x = eng.num(a)
    return z3.If(x >= 0, x, -x)


def _b_minmax(is_min):
    def f(eng, *a):
        if len(a) == 1:
            a = list(eng.as_seq(a[0]).items) if isinstance(eng.as_seq(a[0]), ConcSeq) else None
            if a is None:
                raise Unsupported("min/max over symbolic sequence")
        out = a[0]
        for x in a[1:]:
            xx, oo = eng.num2(x, out)
            c = xx < oo if is_min else xx > oo
            out = V.ite_value(c, xx, oo)
        return out
    return f


def _b_sum(eng, it, start=0):
    s = eng.as_seq(it)
    n = z3.simplify(s.length)
    if not z3.is_int_value(n):
        raise Undecided("sum over a sequence of symbolic length")
    out = start
    for i in range(n.as_long()):
        out = eng.binop(ast.Add(), out, s.get(z3.IntVal(i)))
    return out


def _b_isinstance(eng, v, t):
    ts = t if isinstance(t, tuple) else (t,)
    pt = eng.pytype_of(v)
    for x in ts:
        name = x.name if isinstance(x, (PyType, ExcClass)) else None
        if name is None:
            raise Unsupported("isinstance target")
        if pt.name == name or (pt.name == "bool" and name == "int"):
            return True
    return False


def _b_type(eng, v):
    return eng.pytype_of(v)


def _b_str(eng, v=""):
    return OpaqueStr()


def _b_int(eng, v=0):
    if isinstance(v, (int, bool)):
        return int(v)
    if z3.is_expr(v) and v.sort() == z3.IntSort():
        return v
    raise Unsupported("int() conversion")


def _b_float(eng, v=0.0):
    if isinstance(v, (int, float, Fraction)):
        return Fraction(repr(v)) if isinstance(v, float) else Fraction(v)
    return V.to_real(v)


def _b_bool(eng, v=False):
    return eng.truth(v)


def _b_set(eng, it=()):
    return list(it)


def _b_print(eng, *a, **k):
    return None


BUILTINS = {
    "len": Builtin("len", _b_len), "range": Builtin("range", _b_range), "enumerate": Builtin("enumerate", _b_enumerate),
    "zip": Builtin("zip", _b_zip), "reversed": Builtin("reversed", _b_reversed), "list": Builtin("list", _b_list),
    "tuple": Builtin("tuple", _b_tuple), "dict": Builtin("dict", _b_dict), "divmod": Builtin("divmod", _b_divmod),
    "abs": Builtin("abs", _b_abs), "min": Builtin("min", _b_minmax(True)), "max": Builtin("max", _b_minmax(False)),
    "sum": Builtin("sum", _b_sum), "isinstance": Builtin("isinstance", _b_isinstance), "type": Builtin("type", _b_type),
    "str": Builtin("str", _b_str), "int": Builtin("int", _b_int), "float": Builtin("float", _b_float),
    "bool": Builtin("bool", _b_bool), "set": Builtin("set", _b_set), "print": Builtin("print", _b_print),
    "True": True, "False": False, "None": None,
}
# `x == int`, `type(x) != tuple`: bare type names evaluate to PyType (calls go through BUILTINS[name])
TYPE_NAMES = {"int", "str", "float", "bool", "tuple", "list", "dict"}


class _TypeAndBuiltin(PyType):
    pass


for _n in TYPE_NAMES:
    BUILTINS[_n + "!fn"] = BUILTINS[_n]
    BUILTINS[_n] = PyType(_n)
for _n in list(TYPE_NAMES):
    pass


def _call_pytype(eng, f, args, kwargs):
    return BUILTINS[f.name + "!fn"].fn(eng, *args, **kwargs)


def _patched_call(self, f, args, kwargs, node=None, _orig=Engine.call):
    if isinstance(f, PyType) and (f.name + "!fn") in BUILTINS:
        return _call_pytype(self, f, args, kwargs)
    return _orig(self, f, args, kwargs, node)


Engine.call = _patched_call

"""Value model of E1 (pyvc).

int  -> z3 Int (mathematical, as Python's)        float -> z3 Real (ASSUMPTION: floats as reals)
bool -> z3 Bool / python bool                     str   -> uninterpreted sort `Str`, equality only
list/tuple of concrete length -> python list/tuple of values
sequence of symbolic length   -> SymSeq (z3 arrays + length) and lazy views (range/zip/enumerate/reversed)
opaque objects                -> Obj (attributes / methods given by the contract = callee contracts)
"""
from fractions import Fraction

import z3

from ..core.errors import Unsupported

StrSort = z3.DeclareSort("Str")
_str_consts = {}


def str_const(s):
    if s not in _str_consts:
        _str_consts[s] = z3.Const("str!" + s, StrSort)
    return _str_consts[s]


def str_distinct_axioms():
    cs = list(_str_consts.values())
    return [z3.Distinct(*cs)] if len(cs) > 1 else []


def known_strings():
    return dict(_str_consts)


class OpaqueStr:
    """a string whose value is irrelevant (messages)"""

    def __repr__(self):
        return "<opaque str>"


class ExcClass:
    def __init__(self, name):
        self.name = name

    def __repr__(self):
        return f"<exc class {self.name}>"


class ExcValue:
    def __init__(self, name):
        self.name = name


class NdVec:
    """numpy 1-D array of concrete length holding z3 scalars"""

    def __init__(self, items, kind="int"):
        self.items = list(items)
        self.kind = kind

    def copy(self):
        return NdVec(self.items, self.kind)


class OptVal:
    """Optional[value]: `is_none` (z3 Bool) tells whether the variable holds None, otherwise it holds `value`"""

    def __init__(self, is_none, value):
        self.is_none = is_none
        self.value = value


class Obj:
    """opaque object: attrs (name -> value) and methods (name -> python callable(ctx, *args, **kw))"""

    def __init__(self, name, attrs=None, methods=None, truthy=True, pytype=None):
        self.name = name
        self.attrs = dict(attrs or {})
        self.methods = dict(methods or {})
        self.truthy = truthy
        self.pytype = pytype

    def __repr__(self):
        return f"<Obj {self.name}>"


class BoundMethod:
    def __init__(self, obj, name, fn):
        self.obj, self.name, self.fn = obj, name, fn


class Func:
    """a callee replaced by its contract: fn(ctx, *args, **kwargs) -> value"""

    def __init__(self, name, fn):
        self.name, self.fn = name, fn


class PyType:
    def __init__(self, name):
        self.name = name

    def __repr__(self):
        return f"<type {self.name}>"


# ------------------------------------------------------------------ shapes

def sort_of(shape):
    return {"int": z3.IntSort(), "real": z3.RealSort(), "bool": z3.BoolSort(), "str": StrSort}[shape]


def leaves_of(shape):
    if isinstance(shape, str):
        return [shape]
    if shape[0] == "tuple":
        out = []
        for s in shape[1]:
            out += leaves_of(s)
        return out
    if shape[0] == "vec":
        out = []
        for _ in range(shape[1]):
            out += leaves_of(shape[2])
        return out
    raise Unsupported(f"shape {shape}")


def flatten(shape, value):
    if isinstance(shape, str):
        return [coerce(value, shape)]
    if shape[0] == "tuple":
        if not isinstance(value, tuple) or len(value) != len(shape[1]):
            raise Unsupported(f"value {value!r} does not fit shape {shape}")
        out = []
        for s, v in zip(shape[1], value):
            out += flatten(s, v)
        return out
    if shape[0] == "vec":
        if not isinstance(value, NdVec) or len(value.items) != shape[1]:
            raise Unsupported(f"value {value!r} does not fit shape {shape}")
        out = []
        for v in value.items:
            out += flatten(shape[2], v)
        return out
    raise Unsupported(f"shape {shape}")


def unflatten(shape, leaves, pos=0):
    if isinstance(shape, str):
        return leaves[pos], pos + 1
    if shape[0] == "tuple":
        vals = []
        for s in shape[1]:
            v, pos = unflatten(s, leaves, pos)
            vals.append(v)
        return tuple(vals), pos
    if shape[0] == "vec":
        vals = []
        for _ in range(shape[1]):
            v, pos = unflatten(shape[2], leaves, pos)
            vals.append(v)
        return NdVec(vals, "real" if shape[2] == "real" else "int"), pos
    raise Unsupported(f"shape {shape}")


def coerce(v, kind):
    if kind == "int":
        if isinstance(v, bool):
            return z3.IntVal(int(v))
        if isinstance(v, int):
            return z3.IntVal(v)
        if z3.is_expr(v) and v.sort() == z3.IntSort():
            return v
        if z3.is_expr(v) and v.sort() == z3.BoolSort():
            return z3.If(v, z3.IntVal(1), z3.IntVal(0))
    if kind == "real":
        return to_real(v)
    if kind == "bool":
        if isinstance(v, bool):
            return z3.BoolVal(v)
        if z3.is_expr(v) and v.sort() == z3.BoolSort():
            return v
    if kind == "str":
        if isinstance(v, str):
            return str_const(v)
        if z3.is_expr(v) and v.sort() == StrSort:
            return v
    raise Unsupported(f"cannot coerce {v!r} to {kind}")


def to_real(v):
    if isinstance(v, bool):
        return z3.RealVal(int(v))
    if isinstance(v, int):
        return z3.RealVal(v)
    if isinstance(v, float):
        return z3.RealVal(str(Fraction(repr(v))))
    if isinstance(v, Fraction):
        return z3.RealVal(str(v))
    if z3.is_expr(v):
        if v.sort() == z3.RealSort():
            return v
        if v.sort() == z3.IntSort():
            return z3.ToReal(v)
        if v.sort() == z3.BoolSort():
            return z3.If(v, z3.RealVal(1), z3.RealVal(0))
    raise Unsupported(f"cannot coerce {v!r} to real")


# ------------------------------------------------------------------ sequences

class Seq:
    """abstract lazy sequence: .length (z3 Int) and .get(k)"""
    length = None

    def get(self, k):
        raise NotImplementedError


class SymSeq(Seq):
    def __init__(self, shape, arrays, length, name="seq"):
        self.shape, self.arrays, self.length, self.name = shape, list(arrays), length, name

    @staticmethod
    def fresh(shape, name, length=None):
        arrays = [z3.Array(f"{name}!{i}", z3.IntSort(), sort_of(s)) for i, s in enumerate(leaves_of(shape))]
        if length is None:
            length = z3.Int(f"len!{name}")
        return SymSeq(shape, arrays, length, name)

    def get(self, k):
        leaves = [z3.Select(a, k) for a in self.arrays]
        v, _ = unflatten(self.shape, leaves)
        return v

    def append(self, value):
        leaves = flatten(self.shape, value)
        self.arrays = [z3.Store(a, self.length, l) for a, l in zip(self.arrays, leaves)]
        self.length = self.length + 1

    def snapshot(self):
        return SymSeq(self.shape, self.arrays, self.length, self.name)


class ConcSeq(Seq):
    def __init__(self, items):
        self.items = list(items)
        self.length = z3.IntVal(len(self.items))

    def get(self, k):
        if isinstance(k, int):
            return self.items[k]
        k = z3.simplify(k)
        if z3.is_int_value(k):
            return self.items[k.as_long()]
        # symbolic index into a concrete list of scalar values
        if not self.items:
            return z3.Int("empty!dummy")
        out = self.items[-1]
        for i in range(len(self.items) - 2, -1, -1):
            out = ite_value(k == i, self.items[i], out)
        return out


class RangeSeq(Seq):
    def __init__(self, start, stop):
        self.start = start
        n = stop - start
        self.length = z3.If(n > 0, n, 0) if z3.is_expr(n) else z3.IntVal(max(n, 0))

    def get(self, k):
        return self.start + k


class EnumSeq(Seq):
    def __init__(self, inner, start=0):
        self.inner, self.start, self.length = inner, start, inner.length

    def get(self, k):
        return (self.start + k, self.inner.get(k))


class ZipSeq(Seq):
    def __init__(self, inners):
        self.inners = inners
        n = inners[0].length
        for s in inners[1:]:
            n = z3.If(s.length < n, s.length, n)
        self.length = z3.simplify(n)

    def get(self, k):
        return tuple(s.get(k) for s in self.inners)


class RevSeq(Seq):
    def __init__(self, inner):
        self.inner, self.length = inner, inner.length

    def get(self, k):
        return self.inner.get(self.length - 1 - k)


def ite_value(c, a, b):
    """structural if-then-else on values"""
    if isinstance(c, bool):
        return a if c else b
    if isinstance(a, tuple) and isinstance(b, tuple) and len(a) == len(b):
        return tuple(ite_value(c, x, y) for x, y in zip(a, b))
    if a is b:
        return a
    if isinstance(a, NdVec) and isinstance(b, NdVec) and len(a.items) == len(b.items):
        return NdVec([ite_value(c, x, y) for x, y in zip(a.items, b.items)], a.kind)
    za, zb = a, b
    if isinstance(za, str):
        za = str_const(za)
    if isinstance(zb, str):
        zb = str_const(zb)
    if isinstance(za, (int, bool, float, Fraction)) or isinstance(zb, (int, bool, float, Fraction)) \
            or (z3.is_expr(za) and z3.is_expr(zb)):
        if z3.is_expr(za) and not z3.is_expr(zb):
            zb = coerce(zb, "int" if za.sort() == z3.IntSort() else ("real" if za.sort() == z3.RealSort() else "bool"))
        elif z3.is_expr(zb) and not z3.is_expr(za):
            za = coerce(za, "int" if zb.sort() == z3.IntSort() else ("real" if zb.sort() == z3.RealSort() else "bool"))
        elif not z3.is_expr(za):
            if isinstance(za, bool) and isinstance(zb, bool):
                za, zb = z3.BoolVal(za), z3.BoolVal(zb)
            elif isinstance(za, int) and isinstance(zb, int):
                za, zb = z3.IntVal(za), z3.IntVal(zb)
            else:
                za, zb = to_real(za), to_real(zb)
        if za.sort() != zb.sort():
            za, zb = to_real(za), to_real(zb)
        return z3.If(c, za, zb)
    raise Unsupported(f"cannot merge {a!r} and {b!r} under a symbolic condition")

"""Driver for E2 contracts: symbolic execution of the real code in the twin import,
discharge of the contract clauses, witness search, native replay, conformance.

A contract is a subclass of E2Contract.  Its `inputs`, `run` and `post` are written
against a `World` (the array module `W.np`, the accessor `W.get("quara.x:y")`, the spec
library `W.S`), so the very same contract code is executed
  * in the symbolic world  (twin import of the unmodified source, exact scalars)  -> VCs
  * in the native world    (real numpy, real quara, floats)                      -> replay / conformance
"""
import math
import random
import zlib
import time
import traceback
from dataclasses import dataclass, field
from fractions import Fraction

import numpy as _np
import z3

from ..core import native as N
from ..core import result as R
from ..core import solver as S
from ..core.errors import Undecided, Unsupported, EngineFault
from ..core.paths import DeadPath, PathBudget
from ..core.result import ObResult
from . import paths as P
from . import scalar as SC
from . import symnp as NP
from . import symrandom
from .scalar import Sym, SymBool, T
from .twin import Twin


# ------------------------------------------------------------------ worlds

class World:
    def __init__(self, symbolic, twin=None, spec_factory=None):
        self.symbolic = symbolic
        self.twin = twin
        if symbolic:
            self.np = twin.np
            self.scipy = twin.scipy
        else:
            N.setup_native()
            import numpy
            import scipy
            import scipy.sparse
            import scipy.linalg
            self.np = numpy
            self.scipy = scipy
        self.S = spec_factory(self) if spec_factory else None

    def get(self, target):
        if self.symbolic:
            return self.twin.get(target)
        return N.resolve(target)

    def mod(self, name):
        if self.symbolic:
            return self.twin.load(name)
        return N.native_import(name)


class Mk:
    """input maker: symbolic -> named real symbols; native -> floats from an environment"""

    def __init__(self, world, env=None):
        self.W = world
        self.env = env            # name -> float   (native world)
        self.names = []           # order of creation
        self.requires = []        # symbolic world: SymBool list;   native world: python bools

    def real(self, name):
        import re
        if re.fullmatch(r"r\d+", name):
            raise EngineFault(f"input name {name!r} collides with the names of the constant-root symbols (r2 = sqrt 2, ...)")
        self.names.append(name)
        if self.W.symbolic:
            return Sym.var(name)
        return float(self.env[name])

    def array(self, name, shape, dtype=float):
        if isinstance(shape, int):
            shape = (shape,)
        n = 1
        for s in shape:
            n *= s
        if self.W.symbolic:
            out = NP.zeros((n,), NP.float64)
            for k in range(n):
                out.a[k] = self.real(f"{name}_{k}")
            return out.reshape(shape)
        vals = [self.real(f"{name}_{k}") for k in range(n)]
        return _np.array(vals, dtype=_np.float64).reshape(shape)

    def carray(self, name, shape):
        re = self.array(name + "r", shape)
        im = self.array(name + "i", shape)
        return re + 1j * im

    def hermitian(self, name, d):
        """d x d Hermitian matrix from d^2 real symbols"""
        np = self.W.np
        m = np.zeros((d, d), dtype=np.complex128)
        for i in range(d):
            m[i, i] = self.real(f"{name}_{i}_{i}")
            for j in range(i + 1, d):
                re, im = self.real(f"{name}_{i}_{j}r"), self.real(f"{name}_{i}_{j}i")
                m[i, j] = re + 1j * im
                m[j, i] = re - 1j * im
        return m

    def require(self, cond):
        self.requires.append(cond)


@dataclass
class Clause:
    label: str
    kind: str            # 'eq' | 'true'
    a: object
    b: object = None
    text: str = ""
    tol: float = 1e-8


def eq(label, a, b, text=""):
    return Clause(label, "eq", a, b, text)


def true(label, cond, text=""):
    return Clause(label, "true", cond, None, text)


class Raised:
    def __init__(self, exc):
        self.exc = exc
        self.name = type(exc).__name__

    def __repr__(self):
        return f"Raised({self.name}: {str(self.exc)[:120]})"


class E2Contract:
    name = ""
    prop = ""
    targets = ()                 # functions under contract (module:qualname) for the evidence
    scope = "all-inputs@config"
    stubs = {}                   # modular callee replacements in the twin
    max_paths = 64
    n_conformance = 3
    inlined = ()

    def configs(self, tier):
        return [None]

    def inputs(self, W, cfg, mk):
        raise NotImplementedError

    def run(self, W, cfg, inp):
        raise NotImplementedError

    def post(self, W, cfg, inp, out):
        raise NotImplementedError

    def canary(self, W, cfg, inp, out):
        return []

    def sample(self, cfg, names, rng):
        return {n: rng.uniform(-1.5, 1.5) for n in names}

    frame = True                 # compare every array input before / after (C13 built in)
    bounded = None               # a string: the contract only enumerates a bounded part of a discrete domain -> results are
                                 # reported as bounded stand-ins (never counted as proved); violations are still violations
    may_raise = False            # True: post() judges Raised outcomes itself; False: any exception violates `returns-normally`


# ------------------------------------------------------------------ structural helpers

def flat_items(x, prefix=""):
    """flatten nested result structures into [(path, scalar)]"""
    out = []
    if isinstance(x, NP.SymArray):
        for k, v in enumerate(x.a.reshape(-1).tolist()):
            out.append((f"{prefix}[{k}]", v))
    elif isinstance(x, NP.sparse_matrix):
        out += flat_items(x.m, prefix)
    elif isinstance(x, _np.ndarray):
        for k, v in enumerate(_np.asarray(x).reshape(-1).tolist()):
            out.append((f"{prefix}[{k}]", v))
    elif isinstance(x, (list, tuple)):
        for k, v in enumerate(x):
            out += flat_items(v, f"{prefix}.{k}")
    elif isinstance(x, dict):
        for k in sorted(x, key=str):
            out += flat_items(x[k], f"{prefix}.{k}")
    elif hasattr(x, "toarray") and not isinstance(x, (Sym,)):
        out += flat_items(_np.asarray(x.toarray()), prefix)
    else:
        out.append((prefix, x))
    return out


def shape_of(x):
    if isinstance(x, (NP.SymArray, _np.ndarray)):
        return tuple(x.shape)
    if isinstance(x, NP.sparse_matrix):
        return tuple(x.shape)
    if isinstance(x, (list, tuple)):
        return ("seq", tuple(shape_of(v) for v in x))
    return ()


def to_sym(v):
    if isinstance(v, Sym):
        return v
    if isinstance(v, (bool, _np.bool_)):
        return Sym.const(int(v))
    return Sym.const(v)


def evalf_struct(x, env):
    """numeric value (complex) of a symbolic structure under env (symbol id -> float)"""
    if isinstance(x, (NP.SymArray, NP.sparse_matrix)):
        a = x.a if isinstance(x, NP.SymArray) else x.m.a
        out = _np.empty(a.shape, dtype=complex)
        fo, fi = out.reshape(-1), a.reshape(-1)
        for k in range(fi.shape[0]):
            fo[k] = evalf_scalar(fi[k], env)
        return out
    if isinstance(x, (list, tuple)):
        return [evalf_struct(v, env) for v in x]
    if isinstance(x, dict):
        return {k: evalf_struct(v, env) for k, v in x.items()}
    return evalf_scalar(x, env)


def evalf_scalar(v, env):
    if isinstance(v, Sym):
        return v.evalf(env)
    if isinstance(v, SymBool):
        return SC.eval_bool(v, env)
    if isinstance(v, (bool, _np.bool_)):
        return bool(v)
    if isinstance(v, (int, float, complex, Fraction)):
        return complex(v)
    if isinstance(v, Raised):
        return v
    return v


def close(a, b, tol=1e-8):
    if isinstance(a, Raised) or isinstance(b, Raised):
        return isinstance(a, Raised) and isinstance(b, Raised) and a.name == b.name
    if isinstance(a, (bool, _np.bool_)) or isinstance(b, (bool, _np.bool_)):
        return bool(a) == bool(b)
    if isinstance(a, str) or isinstance(b, str) or a is None or b is None:
        return a == b
    try:
        a, b = complex(a), complex(b)
    except TypeError:
        return a == b
    if math.isnan(a.real) or math.isnan(b.real):
        return math.isnan(a.real) and math.isnan(b.real)
    return abs(a - b) <= tol * max(1.0, abs(a), abs(b))


def struct_close(a, b, tol=1e-8):
    fa, fb = flat_items(a), flat_items(b)
    if len(fa) != len(fb):
        return False, f"structure differs: {len(fa)} vs {len(fb)} leaves"
    for (pa, va), (pb, vb) in zip(fa, fb):
        if not close(va, vb, tol):
            return False, f"{pa}: {va!r} vs {vb!r}"
    return True, ""


# ------------------------------------------------------------------ one (contract, config) run

class PathRecord:
    def __init__(self):
        self.decisions = []
        self.out = None
        self.clauses = []


def _env_ids(names_to_val):
    env = {}
    for n, v in names_to_val.items():
        if n in T.by_name:
            env[T.by_name[n]] = float(v)
    return env


def verify_config(contract, cfg, tier="quick", seed=0, timeout_s=10.0, spec_factory=None):
    """returns list[ObResult] for one configuration"""
    t_start = time.time()
    cname = f"{contract.prop}/{contract.name}"
    cfg_tag = f"[{cfg_str(cfg)}]" if cfg is not None else ""
    common = dict(prop=contract.prop, engine="E2-symtwin", scope=contract.scope,
                  function=", ".join(contract.targets))
    symrandom.reset()
    twin = Twin(stubs=contract.stubs)
    W = World(True, twin, spec_factory)
    # a first pass to learn the requires (inputs only)
    mk0 = Mk(W)
    contract.inputs(W, cfg, mk0)
    sp = P.SymPaths([r for r in mk0.requires if r is not True], max_paths=contract.max_paths)
    P.set_current(sp)
    records = []
    per_label = {}      # label -> list of dict(status, detail, seconds, backend, witness_env)
    names = list(mk0.names)
    try:
        while sp.has_next():
            sp.start_path()
            symrandom.reset()
            mk = Mk(W)
            rec = PathRecord()
            try:
                inp = contract.inputs(W, cfg, mk)
                snap = snapshot(inp) if contract.frame else None
                try:
                    out = contract.run(W, cfg, inp)
                except (Unsupported, Undecided, DeadPath):
                    raise
                except PathBudget:
                    raise
                except Exception as e:  # the real code raised: an outcome, judged by the contract
                    if isinstance(e, (AssertionError,)) and "qverif" in "".join(traceback.format_tb(e.__traceback__)):
                        raise
                    out = Raised(e)
                    rec.tb = "".join(traceback.format_exception(type(e), e, e.__traceback__))[-1500:]
                clauses = _post(contract, W, cfg, inp, out)
                if contract.frame:
                    clauses += frame_clauses(inp, snap)
            except DeadPath:
                continue
            rec.decisions = list(sp.decisions_log)
            rec.out = out
            rec.clauses = clauses
            rec.side = list(sp.side_conditions)
            rec.library = list(sp.library)
            records.append(rec)
            for cl in clauses:
                r = discharge(cl, sp, timeout_s)
                r["path"] = len(records) - 1
                per_label.setdefault(cl.label, []).append((cl, r))
    except Undecided as e:
        # the (changed) code left the verifier's model: no proof either way.  Search for a failing input natively instead: a witness is a
        # violation replayed on the real code; no witness leaves every clause undecided (never a violation, never a pass)
        P.set_current(None)
        return native_search_fallback(contract, cfg, mk0, names, seed, tier, f"{type(e).__name__}: {e}", common, cname, cfg_tag, spec_factory)
    finally:
        P.set_current(None)

    results = []
    if not records:
        return [ObResult(name=f"{cname}{cfg_tag}/vacuous", status=R.FAULT, detail="no feasible path", **common)]

    # ---- conformance: symbolic result vs native execution at random points of the requires region
    rng = random.Random(seed * 1000003 + zlib.crc32((cname + cfg_tag).encode()) % 100000)      # (str hash is salted per process: not reproducible)
    conf_ok, conf_detail = 0, ""
    Wn = World(False, None, spec_factory)
    n_conf = contract.n_conformance * (5 if tier == "thorough" else 1)      # thorough: five times as many engine-conformance points
    tries = 0
    while conf_ok < n_conf and tries < n_conf * 30:
        tries += 1
        vals = contract.sample(cfg, names, rng)
        env = _env_ids(vals)
        try:
            if not all(SC.eval_bool(r, dict(env)) for r in mk0.requires if r is not True):
                continue
        except (KeyError, ZeroDivisionError, OverflowError):
            continue
        rec = pick_path(records, env)
        if rec is None:
            continue
        try:
            nat = native_run(contract, Wn, cfg, vals)
        except Exception as e:  # noqa
            nat = Raised(e)
        try:
            symv = evalf_struct(rec.out, dict(env)) if not isinstance(rec.out, Raised) else rec.out
        except (KeyError, ZeroDivisionError, OverflowError) as e:
            continue
        ok, why = struct_close(symv, nat, 1e-7)
        if not ok:
            conf_detail = f"symbolic model and native execution disagree at {vals}: {why}"
            break
        conf_ok += 1
    if conf_detail:
        return [ObResult(name=f"{cname}{cfg_tag}/conformance", status=R.FAULT, detail=conf_detail, **common)]

    # ---- aggregate clauses over paths
    first = True
    for label, lst in sorted(per_label.items()):
        secs = sum(r["seconds"] for _, r in lst)
        backends = sorted({r["backend"] for _, r in lst})
        cl0 = lst[0][0]
        res = ObResult(name=f"{cname}/{label}{cfg_tag}", status=R.DISCHARGED, seconds=secs,
                       backend="+".join(backends), clause=cl0.text or label,
                       extra=dict(paths=len(lst), config=cfg_str(cfg)), **common)
        bad = [(cl, r) for cl, r in lst if r["status"] == "refuted"]
        unk = [(cl, r) for cl, r in lst if r["status"] == "unknown"]
        if bad:
            res = handle_refutation(contract, cfg, Wn, res, label, bad, records, mk0, names, rng)
        elif unk:
            # try to find a concrete failing input anyway
            res2 = handle_refutation(contract, cfg, Wn, res, label, unk, records, mk0, names, rng, only_confirmed=True)
            if res2 is not None:
                res = res2
            else:
                res.status = R.UNDECIDED
                res.detail = "solver undecided: " + unk[0][1].get("detail", "")
        if first:
            res.extra["conformance_points"] = conf_ok
            res.extra["paths_total"] = len(records)
            res.extra["library_assumptions"] = sorted({lab for rec in records for _, lab in rec.library})
            first = False
        results.append(res)

    if contract.bounded:
        for r in results:
            if r.status == R.DISCHARGED:
                r.status = R.BOUNDED_OK
                r.scope = "bounded: " + contract.bounded
    # ---- canary
    can = canary_check(contract, cfg, W, Wn, twin, mk0, names, rng, spec_factory, timeout_s)
    if can is not None:
        can.name = f"{cname}/canary{cfg_tag}"
        for k, v in common.items():
            setattr(can, k, v)
        results.append(can)
    return results


def native_search_fallback(contract, cfg, mk0, names, seed, tier, reason, common, cname, cfg_tag, spec_factory):
    rng = random.Random(seed * 1000003 + zlib.crc32((cname + cfg_tag + "/fallback").encode()) % 100000)
    Wn = World(False, None, spec_factory)
    want = 60 if tier == "quick" else 300
    tried, draws = 0, 0
    first_fail, seen = {}, []
    while tried < want and draws < want * 30:
        draws += 1
        vals = contract.sample(cfg, names, rng)
        try:
            if not all(SC.eval_bool(r, _env_ids(vals)) for r in mk0.requires if r is not True):
                continue
        except (KeyError, ZeroDivisionError, OverflowError):
            continue
        tried += 1
        try:
            out, chk = native_clauses(contract, Wn, cfg, vals)
        except Exception:  # noqa
            continue
        for label, (ok, detail) in chk.items():
            if label not in seen:
                seen.append(label)
            if not ok and label not in first_fail:
                first_fail[label] = (vals, detail, out)
    results = []
    for label in seen:
        res = ObResult(name=f"{cname}/{label}{cfg_tag}", status=R.UNDECIDED, clause=label, extra=dict(config=cfg_str(cfg), native_inputs_tried=tried), **common)
        if label in first_fail:
            vals, detail, out = first_fail[label]
            res.status = R.REFUTED
            res.witness = dict(inputs={k: vals[k] for k in list(vals)[:64]}, n_inputs=len(vals))
            res.replay = dict(confirmed=True, how="the code left the verifier's model (" + reason[:200] + "); native execution of the real function on float64 inputs, "
                              "clause evaluated natively (rel. tol 1e-8)", inputs=vals, observed=detail, outcome=repr(out)[:600])
            res.detail = f"clause `{label}` fails on the real code: {detail}"
        else:
            res.detail = f"outside the verifier's model ({reason[:200]}); native search over {tried} inputs found no failing input"
        results.append(res)
    if not results:
        results.append(ObResult(name=f"{cname}{cfg_tag}/undecided", status=R.UNDECIDED, detail=f"outside the verifier's model ({reason[:300]}); no native input could be run", **common))
    return results


def _post(contract, W, cfg, inp, out):
    if isinstance(out, Raised) and not contract.may_raise:
        return [Clause("returns-normally", "true", False, None,
                       f"the call returns normally on every input satisfying requires (raised {out.name}: {str(out.exc)[:160]})")]
    try:
        cls = list(contract.post(W, cfg, inp, out))
    except (Unsupported, Undecided, DeadPath, PathBudget):
        raise
    except Exception as e:  # noqa  -- the contract's own reference computation failed (e.g. a callee under another contract raised)
        if "qverif" in traceback.format_exc().split("contract.post")[-1] and "repo" not in traceback.format_exc().split("contract.post")[-1]:
            raise
        raise Undecided(f"postcondition could not be evaluated: {type(e).__name__}: {str(e)[:200]}")
    if not contract.may_raise:
        cls.append(Clause("returns-normally", "true", True, None, "the call returns normally on every input satisfying requires"))
    return cls


def cfg_str(cfg):
    if cfg is None:
        return ""
    if isinstance(cfg, dict):
        return ",".join(f"{k}={v}" for k, v in cfg.items())
    return str(cfg)


def snapshot(inp):
    snap = {}
    for k, v in (inp.items() if isinstance(inp, dict) else []):
        for path, arr in arrays_in(v, k):
            snap[path] = (arr, [x for x in arr.a.reshape(-1).tolist()], arr.a.shape)
    snap["__flags__"] = dict(flags_in(inp))
    return snap


_PLAIN = (bool, int, float, str, type(None))


def flags_in(inp, prefix=None, depth=0, seen=None):
    """(path, holder, attribute, value) for every plain-valued attribute (flags, modes, thresholds) of the quara objects among the inputs:
    a call must not change its operands' configuration either"""
    if seen is None:
        seen = set()
    items = inp.items() if isinstance(inp, dict) and prefix is None else [(prefix, inp)]
    for k, v in items:
        if id(v) in seen or depth > 3:
            continue
        seen.add(id(v))
        if isinstance(v, (list, tuple)):
            for i, x in enumerate(v):
                yield from flags_in(x, f"{k}.{i}", depth + 1, seen)
        elif isinstance(v, dict):
            for kk, x in v.items():
                yield from flags_in(x, f"{k}.{kk}", depth + 1, seen)
        elif hasattr(v, "__dict__") and type(v).__module__.startswith("quara.objects") and \
                type(v).__name__ not in ("CompositeSystem", "ElementalSystem", "MatrixBasis", "SparseMatrixBasis"):
            for a, x in vars(v).items():
                if isinstance(x, _PLAIN):
                    yield f"{k}.{a}", (v, a, x)
                elif isinstance(x, (list, tuple)) and all(isinstance(y, _PLAIN) for y in x):
                    # plain lists (outcome shapes, local outcome counts): compared by value, so snapshot a copy
                    yield f"{k}.{a}", (v, a, type(x)(x))


def arrays_in(v, prefix, depth=0, seen=None):
    """yield (path, SymArray) reachable from an input value (arrays, lists, objects' attributes)"""
    if seen is None:
        seen = set()
    if id(v) in seen or depth > 4:
        return
    seen.add(id(v))
    if isinstance(v, NP.SymArray):
        yield prefix, v
    elif isinstance(v, NP.sparse_matrix):
        yield prefix, v.m
    elif isinstance(v, (list, tuple)):
        for i, x in enumerate(v):
            yield from arrays_in(x, f"{prefix}.{i}", depth + 1, seen)
    elif isinstance(v, dict):
        for k, x in v.items():
            yield from arrays_in(x, f"{prefix}.{k}", depth + 1, seen)
    elif hasattr(v, "__dict__") and type(v).__module__.startswith("quara") and \
            type(v).__name__ not in ("CompositeSystem", "ElementalSystem", "MatrixBasis", "SparseMatrixBasis"):
        for k, x in vars(v).items():
            if k in ("_composite_system",):
                continue
            yield from arrays_in(x, f"{prefix}.{k}", depth + 1, seen)


def frame_clauses(inp, snap):
    out = []
    for path, (holder, attr, before) in snap.get("__flags__", {}).items():
        after = getattr(holder, attr, None)
        ok = type(after) is type(before) and after == before
        if not ok:
            out.append(Clause(f"frame/{path}", "true", False, None, f"attribute {path} of the operand is not modified (was {before!r}, is {after!r})"))
    out.append(Clause("frame/operand-configuration", "true", True, None, "the call leaves the flags / modes / thresholds of its operands as they were"))
    for path, item in snap.items():
        if path == "__flags__":
            continue
        arr, before, shp = item
        after = arr.a.reshape(-1).tolist() if arr.a.shape == shp else None
        if after is None:
            out.append(Clause(f"frame/{path}", "true", False, None, f"argument {path} keeps its shape"))
            continue
        same = all(to_sym(x).same(to_sym(y)) if not isinstance(x, (bool, SymBool)) else x is y or x == y
                   for x, y in zip(before, after))
        if same:
            out.append(Clause(f"frame/{path}", "true", True, None, f"argument {path} is not modified"))
        else:
            a = NP.zeros((len(before),), NP.complex128)
            b = NP.zeros((len(before),), NP.complex128)
            for k, (x, y) in enumerate(zip(before, after)):
                a.a[k], b.a[k] = to_sym(x), to_sym(y)
            out.append(Clause(f"frame/{path}", "eq", b, a, f"argument {path} is not modified"))
    return out


# ------------------------------------------------------------------ discharging one clause on one path

def discharge(cl, sp, timeout_s):
    t0 = time.time()
    if cl.kind == "true":
        c = cl.a
        if isinstance(c, (_np.bool_,)):
            c = bool(c)
        if c is True:
            return dict(status="proved", backend="normaliser", seconds=time.time() - t0, detail="")
        if c is False:
            # false under this path: is the path itself feasible? (it is: the path manager checked)
            return dict(status="refuted", backend="normaliser", seconds=time.time() - t0, detail="clause is false on this path: " + str(cl.text)[:300],
                        model=None)
        return _solve(sp, [c], t0, timeout_s)
    # eq
    sa, sb = shape_of(cl.a), shape_of(cl.b)
    fa, fb = flat_items(cl.a), flat_items(cl.b)
    if isinstance(cl.a, Raised) or isinstance(cl.b, Raised):
        ok = isinstance(cl.a, Raised) and isinstance(cl.b, Raised) and cl.a.name == cl.b.name
        return dict(status="proved" if ok else "refuted", backend="normaliser", seconds=time.time() - t0,
                    detail="" if ok else f"outcome {cl.a!r} vs expected {cl.b!r}", model=None)
    if len(fa) != len(fb) or (sa != sb and not (_squeeze(sa) == _squeeze(sb))):
        return dict(status="refuted", backend="normaliser", seconds=time.time() - t0,
                    detail=f"shape mismatch {sa} vs {sb}", model=None)
    diffs = []
    for (pa, va), (_, vb) in zip(fa, fb):
        if isinstance(va, (bool, SymBool)) or isinstance(vb, (bool, SymBool)):
            if va is vb or (isinstance(va, bool) and isinstance(vb, bool) and va == vb):
                continue
            diffs.append((pa, SC.bor(SC.band(va, vb), SC.band(SC.bnot(va), SC.bnot(vb)))))
            continue
        if va is None or vb is None or isinstance(va, str) or isinstance(vb, str):
            if va != vb:
                return dict(status="refuted", backend="normaliser", seconds=time.time() - t0,
                            detail=f"{pa}: {va!r} != {vb!r}", model=None)
            continue
        d = to_sym(va) - to_sym(vb)
        if not d.is_zero():
            diffs.append((pa, d))
    if not diffs:
        return dict(status="proved", backend="normaliser", seconds=time.time() - t0, detail="")
    # non-identical normal forms: the solver decides under requires / path condition / definitions
    if len(diffs) > 400:
        return dict(status="unknown", backend="z3", seconds=time.time() - t0, detail=f"{len(diffs)} differing entries")
    conj = []
    for pa, d in diffs:
        if isinstance(d, (SymBool, bool)):
            conj.append(d)
        else:
            conj.append(SC.compare("==", d))
    r = _solve(sp, conj, t0, timeout_s)
    r["diff"] = f"{diffs[0][0]}: {diffs[0][1]!r}"[:300]
    r["ndiff"] = len(diffs)
    return r


def _squeeze(s):
    if isinstance(s, tuple) and s and s[0] == "seq":
        subs = [_squeeze(x) for x in s[1]]
        if subs and all(x == subs[0] for x in subs) and not (subs[0] and subs[0][0] == "seq"):
            return tuple(x for x in (len(subs),) + subs[0] if x != 1)
        return ("seq", tuple(subs))
    return tuple(x for x in s if x != 1)


def _hyps_sb(sp):
    """the hypotheses of the current path as symbolic booleans (so they can be re-translated)"""
    out = [r for r in sp.requires if r is not True]
    for b, d in sp.decisions_log:
        out.append(b if d else SC.bnot(b))
    for b, _ in sp.library:
        out.append(b)
    for den in sp.side_conditions:
        if not den.has_i():
            out.append(SC.bnot(SC.compare("==", den)))
    return out


def _solve(sp, goals, t0, timeout_s):
    """goals: list of SymBool (conjunction).  1) term-abstracted proof attempt (sound for proving only)
    2) exact query (z3, then cvc5 / z3-4.8)."""
    goals = [g for g in goals if g is not True]
    if any(g is False for g in goals):
        return dict(status="refuted", backend="normaliser", seconds=time.time() - t0, detail="clause is false on this path",
                    model_env=None)
    if not goals:
        return dict(status="proved", backend="normaliser", seconds=time.time() - t0, detail="")
    hyps_sb = _hyps_sb(sp)
    try:
        tr = P.Z3Tr(abstract=True)
        hy = [tr.bool(h) for h in hyps_sb]
        gl = z3.And([tr.bool(g) for g in goals])
        if tr.abs_vars:
            ra = S.prove(hy + list(tr.side), gl, timeout_s=min(timeout_s, 5.0), fallback=False)
            if ra["status"] == "unsat":
                return dict(status="proved", backend=ra["backend"] + "(term-abstracted)", seconds=time.time() - t0, detail="")
    except Unsupported:
        pass
    sp._sync_side()
    goal = z3.And([sp.tr.bool(g) for g in goals])
    hyps = sp.hyps()
    r = S.prove(hyps, goal, timeout_s=timeout_s)
    if r["status"] == "unsat":
        return dict(status="proved", backend=r["backend"], seconds=time.time() - t0, detail="")
    if r["status"] == "sat":
        env = None
        if r["model"] is not None:
            env = {}
            for sid, v in sp.tr.vars.items():
                try:
                    env[sid] = float(S.model_value(r["model"], v))
                except Exception:
                    pass
        return dict(status="refuted", backend=r["backend"], seconds=time.time() - t0, detail="solver counter-model",
                    model_env=env)
    return dict(status="unknown", backend=r["backend"], seconds=time.time() - t0, detail=r.get("reason", "unknown"))


# ------------------------------------------------------------------ native side

def native_run(contract, Wn, cfg, vals):
    mk = Mk(Wn, env=vals)
    inp = contract.inputs(Wn, cfg, mk)
    import contextlib
    import io
    try:
        with contextlib.redirect_stdout(io.StringIO()):
            out = contract.run(Wn, cfg, inp)
    except Exception as e:  # noqa
        return Raised(e)
    return out


def native_clauses(contract, Wn, cfg, vals):
    """evaluate the contract natively; returns (out, {label: (holds, detail)})"""
    mk = Mk(Wn, env=vals)
    inp = contract.inputs(Wn, cfg, mk)
    before = {p: a.copy() for p, a in native_arrays(inp)}
    flags_before = dict(flags_in(inp)) if contract.frame else {}
    import contextlib
    import io
    try:
        with contextlib.redirect_stdout(io.StringIO()):        # the library's console warnings are not part of any contract
            out = contract.run(Wn, cfg, inp)
    except Exception as e:  # noqa
        out = Raised(e)
    res = {}
    for cl in _post(contract, Wn, cfg, inp, out):
        res[cl.label] = native_holds(cl)
    if contract.frame:
        for p, a in native_arrays(inp):
            ok = a.shape == before[p].shape and bool(_np.array_equal(a, before[p]))
            res[f"frame/{p}"] = (ok, "" if ok else f"argument {p} was modified: before {before[p].tolist()!r} after {a.tolist()!r}"[:400])
        res["frame/operand-configuration"] = (True, "")
        for p, (holder, attr, b) in flags_before.items():
            a = getattr(holder, attr, None)
            if not (type(a) is type(b) and a == b):
                res[f"frame/{p}"] = (False, f"attribute {p} was {b!r}, is {a!r}")
    return out, res


def native_arrays(inp, prefix=None, depth=0, seen=None):
    if seen is None:
        seen = set()
    items = inp.items() if isinstance(inp, dict) and prefix is None else [(prefix, inp)]
    for k, v in items:
        if id(v) in seen or depth > 4:
            continue
        seen.add(id(v))
        if isinstance(v, _np.ndarray):
            yield k, v
        elif isinstance(v, (list, tuple)):
            for i, x in enumerate(v):
                yield from native_arrays(x, f"{k}.{i}", depth + 1, seen)
        elif isinstance(v, dict) and prefix is not None:
            for kk, x in v.items():
                yield from native_arrays(x, f"{k}.{kk}", depth + 1, seen)
        elif hasattr(v, "__dict__") and type(v).__module__.startswith("quara") and \
                type(v).__name__ not in ("CompositeSystem", "ElementalSystem", "MatrixBasis", "SparseMatrixBasis"):
            for kk, x in vars(v).items():
                if kk in ("_composite_system",):
                    continue
                yield from native_arrays(x, f"{k}.{kk}", depth + 1, seen)


def native_holds(cl):
    if cl.kind == "true":
        try:
            ok = bool(cl.a)
        except Exception as e:  # noqa
            return (False, f"clause evaluation raised {e!r}")
        return (ok, "" if ok else "condition is false")
    if isinstance(cl.a, Raised) or isinstance(cl.b, Raised):
        ok = isinstance(cl.a, Raised) and isinstance(cl.b, Raised) and cl.a.name == cl.b.name
        return (ok, "" if ok else f"{cl.a!r} vs {cl.b!r}")
    sa, sb = shape_of(cl.a), shape_of(cl.b)
    fa, fb = flat_items(cl.a), flat_items(cl.b)
    if len(fa) != len(fb) or (sa != sb and _squeeze(sa) != _squeeze(sb)):
        return (False, f"shape mismatch {sa} vs {sb}")
    for (pa, va), (_, vb) in zip(fa, fb):
        if not close(va, vb, cl.tol):
            return (False, f"{pa}: got {va!r}, expected {vb!r}")
    return (True, "")


def pick_path(records, env):
    for rec in records:
        try:
            if all(SC.eval_bool(b, dict(env)) == d for b, d in rec.decisions):
                return rec
        except (KeyError, ZeroDivisionError, OverflowError):
            continue
    return None


# ------------------------------------------------------------------ refutation handling

def candidate_envs(contract, cfg, lst, mk0, names, rng, n_random=150):
    """environments (name -> float) that may violate the clause: solver models first, then random points"""
    by_id = {T.by_name[n]: n for n in names if n in T.by_name}
    for cl, r in lst:
        env = r.get("model_env")
        if env:
            vals = {by_id[s]: v for s, v in env.items() if s in by_id}
            for n in names:
                vals.setdefault(n, 0.0)
            yield vals
    for _ in range(n_random):
        vals = contract.sample(cfg, names, rng)
        try:
            if all(SC.eval_bool(r, _env_ids(vals)) for r in mk0.requires if r is not True):
                yield vals
        except (KeyError, ZeroDivisionError, OverflowError):
            continue


def handle_refutation(contract, cfg, Wn, res, label, lst, records, mk0, names, rng, only_confirmed=False):
    tried = 0
    for vals in candidate_envs(contract, cfg, lst, mk0, names, rng):
        tried += 1
        try:
            out, chk = native_clauses(contract, Wn, cfg, vals)
        except Exception as e:  # noqa
            continue
        ok, detail = chk.get(label, (True, ""))
        if not ok:
            res.status = R.REFUTED
            res.witness = dict(inputs={k: vals[k] for k in list(vals)[:64]}, n_inputs=len(vals))
            res.replay = dict(confirmed=True, how="native execution of the real function on float64 inputs; clause evaluated natively (rel. tol 1e-8)",
                              inputs=vals, observed=detail, outcome=repr(out)[:600])
            res.detail = f"clause `{label}` fails on the real code: {detail}"
            return res
    if only_confirmed:
        return None
    cl, r = lst[0]
    # the symbolic VC is refuted but no float input reproduces it natively
    if r.get("backend") == "normaliser" and not r.get("model_env"):
        res.status = R.FAULT
        res.detail = (f"clause `{label}` differs symbolically ({r.get('detail', '')} {r.get('diff', '')}) but {tried} native "
                      f"replays all satisfy it: model / code mismatch")
        return res
    res.status = R.REFUTED
    res.replay = dict(confirmed=False, tried=tried, solver=r.get("detail", ""), diff=r.get("diff", ""))
    res.detail = f"VC refuted by {r.get('backend')} ({r.get('diff', '')}); no float input reproduced it natively"
    return res


def canary_check(contract, cfg, W, Wn, twin, mk0, names, rng, spec_factory, timeout_s):
    """the contract's deliberately false clause must be refuted and confirmed natively"""
    if type(contract).canary is E2Contract.canary:
        return None
    sp = P.SymPaths([r for r in mk0.requires if r is not True], max_paths=contract.max_paths)
    P.set_current(sp)
    found = False
    detail = "canary was not refuted"
    try:
      while sp.has_next() and not found and not detail.startswith("canary clause"):
        try:
            sp.start_path()
            symrandom.reset()
            mk = Mk(W)
            inp = contract.inputs(W, cfg, mk)
            try:
                out = contract.run(W, cfg, inp)
            except (Unsupported, Undecided, DeadPath, PathBudget):
                raise
            except Exception as e:  # noqa
                out = Raised(e)
            if isinstance(out, Raised) and not contract.may_raise:
                detail = "canary not applicable: the call raised (reported as returns-normally)"
                found = True
                break
            cls = list(contract.canary(W, cfg, inp, out))
        except DeadPath:
            continue
        for cl in cls:
            r = discharge(cl, sp, timeout_s)
            if r["status"] == "proved":
                continue
            # confirm natively
            for vals in candidate_envs(contract, cfg, [(cl, r)], mk0, names, rng, n_random=10):
                mkn = Mk(Wn, env=vals)
                inpn = contract.inputs(Wn, cfg, mkn)
                try:
                    outn = contract.run(Wn, cfg, inpn)
                except Exception as e:  # noqa
                    outn = Raised(e)
                for cn in contract.canary(Wn, cfg, inpn, outn):
                    if cn.label == cl.label and not native_holds(cn)[0]:
                        found = True
                        detail = f"canary {cl.label} refuted at {dict(list(vals.items())[:6])}"
                        break
                if found:
                    break
            if found:
                break
      if not found and not sp.has_next() and detail == "canary was not refuted":
        detail = "canary clause VERIFIED on every path or never confirmed natively: the check may be vacuous"
    except DeadPath:
        pass
    finally:
        P.set_current(None)
    return ObResult(name="", status=R.CANARY_OK if found else R.FAULT, detail=detail,
                    clause="(deliberately false variant of the main ensures)")

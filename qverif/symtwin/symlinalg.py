"""numpy.linalg / scipy.linalg as seen by the twin import.

Exact over the constant field for concrete matrices (Gaussian elimination over
Q(sqrt2, sqrt3, ..., i)); on symbolic matrices the spectral functions return
opaque symbols together with their ASSUMED library contract (never proved):

  eigh(M), M Hermitian:  w real, ascending;  V^H V = I;  M V = V diag(w)
"""
import numpy as _np

from ..core.errors import Unsupported
from . import scalar as SC
from . import symnp as NP
from .scalar import Sym, T
from .symnp import SymArray, _A, _C, _F


def _is_concrete(m):
    for v in m.a.reshape(-1).tolist():
        if not (isinstance(v, Sym) and v.is_const_field()):
            return False
    return True


def _gauss(m, want_inverse=False):
    """exact elimination over the constant field. returns (rank, inverse or None)"""
    a = [list(r) for r in m.a.tolist()]
    n, k = len(a), len(a[0]) if a else 0
    inv = None
    if want_inverse:
        if n != k:
            raise ValueError("Last 2 dimensions of the array must be square")
        inv = [[Sym.const(1 if i == j else 0) for j in range(n)] for i in range(n)]
    rank = 0
    row = 0
    for col in range(k):
        piv = None
        for r in range(row, n):
            if not a[r][col].is_zero():
                piv = r
                break
        if piv is None:
            continue
        a[row], a[piv] = a[piv], a[row]
        if inv is not None:
            inv[row], inv[piv] = inv[piv], inv[row]
        pinv_ = a[row][col].inverse()
        a[row] = [x * pinv_ for x in a[row]]
        if inv is not None:
            inv[row] = [x * pinv_ for x in inv[row]]
        for r in range(n):
            if r != row and not a[r][col].is_zero():
                f = a[r][col]
                a[r] = [x - f * y for x, y in zip(a[r], a[row])]
                if inv is not None:
                    inv[r] = [x - f * y for x, y in zip(inv[r], inv[row])]
        row += 1
        rank += 1
        if row == n:
            break
    return rank, inv


def _sparse_rank(m):
    """exact rank over the constant field with sparse rows (dict column -> value)"""
    rows = []
    for r in m.a.tolist():
        d = {j: v for j, v in enumerate(r) if not v.is_zero()}
        if d:
            rows.append(d)
    rank = 0
    pivots = {}          # pivot column -> normalised row
    for d in rows:
        # reduce by existing pivots
        while d:
            j = min(d)
            p = pivots.get(j)
            if p is None:
                break
            f = d[j]
            for c, v in p.items():
                nv = d.get(c, None)
                nv = (-f * v) if nv is None else (nv - f * v)
                if nv.is_zero():
                    d.pop(c, None)
                else:
                    d[c] = nv
        if d:
            j = min(d)
            inv = d[j].inverse()
            pivots[j] = {c: v * inv for c, v in d.items()}
            rank += 1
    return rank


def matrix_rank(m, tol=None, hermitian=False):
    m = _A(m)
    if m.ndim == 1:
        m = m.reshape(1, -1)
    if not _is_concrete(m):
        raise Unsupported("matrix_rank of a symbolic matrix")
    if tol is not None:
        raise Unsupported("matrix_rank with an explicit tolerance (the model computes the exact rank)")
    return _sparse_rank(m)


def inv(m):
    m = _A(m)
    if m.ndim != 2 or m.shape[0] != m.shape[1]:
        raise ValueError("Last 2 dimensions of the array must be square")
    if _is_concrete(m):
        rank, iv = _gauss(m, True)
        if rank < m.shape[0]:
            raise LinAlgError("Singular matrix")
        out = NP.zeros(m.shape, m.dt if m.dt == _C else _F)
        for i, r in enumerate(iv):
            for j, v in enumerate(r):
                out.a[i, j] = v
        return out
    n = m.shape[0]
    if n <= 3:
        return _adjugate_inverse(m)
    return _opaque_inverse(m)


def _det(rows):
    n = len(rows)
    if n == 1:
        return rows[0][0]
    if n == 2:
        return rows[0][0] * rows[1][1] - rows[0][1] * rows[1][0]
    tot = Sym.const(0)
    for j in range(n):
        if rows[0][j].is_zero():
            continue
        minor = [r[:j] + r[j + 1:] for r in rows[1:]]
        term = rows[0][j] * _det(minor)
        tot = tot + term if j % 2 == 0 else tot - term
    return tot


def _adjugate_inverse(m):
    rows = [list(r) for r in m.a.tolist()]
    n = len(rows)
    d = _det(rows)
    out = NP.zeros((n, n), m.dt if m.dt == _C else _F)
    if n == 1:
        out.a[0, 0] = Sym.const(1) / d
        return out
    for i in range(n):
        for j in range(n):
            minor = [r[:i] + r[i + 1:] for k, r in enumerate(rows) if k != j]
            c = _det(minor)
            if (i + j) % 2:
                c = -c
            out.a[i, j] = c / d
    return out


_opaque_counter = [0]


def _mat_key(m):
    return (m.shape, tuple(v.key() for v in m.a.reshape(-1).tolist()))


def _native_of(m, env):
    out = _np.empty(m.shape, dtype=complex)
    fo, fi = out.reshape(-1), m.a.reshape(-1)
    for k in range(fi.shape[0]):
        fo[k] = fi[k].evalf(env)
    return out


def _opaque_inverse(m):
    """X with the assumed contract M X = X M = I (registered with the current path manager)"""
    key = _mat_key(m)
    n = m.shape[0]
    out = NP.zeros((n, n), m.dt if m.dt == _C else _F)
    def val(env, i, j):
        ck = ("inv", key)
        if ck not in env:
            env[ck] = _np.linalg.inv(_native_of(m, env))
        return env[ck][i, j].real
    for i in range(n):
        for j in range(n):
            sid = T.defined("opaque", ("inv", key, i, j), (lambda env, i=i, j=j: val(env, i, j), ()), name=None)
            out.a[i, j] = Sym.of_id(sid)
    from .paths import current
    cur = current(optional=True)
    if cur is not None:
        prod = m @ out
        for i in range(n):
            for j in range(n):
                cur.assume_library(prod.a[i, j] == (1 if i == j else 0), "inv: M X = I")
    return out


def pinv(m, rcond=None, hermitian=False):
    m = _A(m)
    if _is_concrete(m):
        mh = NP.conjugate(m).T
        if m.shape[0] >= m.shape[1]:
            g = mh @ m
            if _gauss(g)[0] == g.shape[0]:
                return inv(g) @ mh
        else:
            g = m @ mh
            if _gauss(g)[0] == g.shape[0]:
                return mh @ inv(g)
        raise Unsupported("pinv of a rank-deficient matrix")
    raise Unsupported("pinv of a symbolic matrix")


def det(m):
    m = _A(m)
    return _det([list(r) for r in m.a.tolist()])


def norm(x, ord=None):
    x = _A(x)
    if ord not in (None, 2, "fro"):
        raise Unsupported(f"norm ord={ord}")
    if ord == 2 and x.ndim == 2:
        raise Unsupported("spectral norm")
    tot = Sym.const(0)
    for v in x.a.reshape(-1).tolist():
        tot = tot + v * v.conjugate()
    return SC.sqrt(tot)


class LinAlgError(ValueError):
    pass


# ------------------------------------------------------------------ spectral functions (assumed contracts)

def _eig_symbols(m, tag, hermitian=True):
    key = _mat_key(m)
    n = m.shape[0]
    def decomp(env):
        ck = (tag, key)
        if ck not in env:
            M = _native_of(m, env)
            env[ck] = _np.linalg.eigh(M) if hermitian else _np.linalg.eig(M)
        return env[ck]
    w = NP.zeros((n,), _F)
    for k in range(n):
        sid = T.defined("opaque", (tag, "w", key, k), (lambda env, k=k: decomp(env)[0][k].real, ()))
        w.a[k] = Sym.of_id(sid)
    return w, decomp, key


def _numeric(m):
    out = _np.empty(m.shape, dtype=complex)
    fo, fi = out.reshape(-1), m.a.reshape(-1)
    for k in range(fi.shape[0]):
        fo[k] = fi[k].evalf({})
    return out


def _from_numeric(x, dt):
    out = NP.zeros(x.shape, dt)
    fo, fi = out.a.reshape(-1), x.reshape(-1)
    for k in range(fi.shape[0]):
        v = complex(fi[k])
        fo[k] = Sym.const(v if dt == _C else v.real)
    return out


def eigvalsh(m, UPLO="L"):
    m = _A(m)
    if _is_concrete(m):
        # concrete input: the library is evaluated numerically (double precision), documented as such
        return _from_numeric(_np.linalg.eigvalsh(_numeric(m)), _F)
    w, _, _ = _eig_symbols(m, "eigh")
    _assume_eigh(m, w, None)
    return w


def eigh(m, UPLO="L"):
    m = _A(m)
    if _is_concrete(m):
        w, V = _np.linalg.eigh(_numeric(m))
        return _from_numeric(w, _F), _from_numeric(V, _C if m.dt == _C else _F)
    n = m.shape[0]
    w, decomp, key = _eig_symbols(m, "eigh")
    V = NP.zeros((n, n), _C if m.dt == _C else _F)
    I = Sym.const(1j)
    for i in range(n):
        for j in range(n):
            re = Sym.of_id(T.defined("opaque", ("eigh", "Vre", key, i, j),
                                     (lambda env, i=i, j=j: decomp(env)[1][i, j].real, ())))
            if m.dt == _C:
                im = Sym.of_id(T.defined("opaque", ("eigh", "Vim", key, i, j),
                                         (lambda env, i=i, j=j: decomp(env)[1][i, j].imag, ())))
                V.a[i, j] = re + I * im
            else:
                V.a[i, j] = re
    _assume_eigh(m, w, V)
    return w, V


def _assume_eigh(m, w, V):
    from .paths import current
    cur = current(optional=True)
    if cur is None:
        return
    n = m.shape[0]
    for k in range(n - 1):
        cur.assume_library(w.a[k] <= w.a[k + 1], "eigh: eigenvalues ascending")
    if V is not None:
        cur.register_eigh(m, w, V)


def eigvals(m):
    m = _A(m)
    raise Unsupported("eigvals of a general matrix")


def eig(m):
    """general eigendecomposition, modelled for (exactly) Hermitian input only: opaque real eigenvalues (NO order assumed) and opaque
    eigenvectors, functions of the matrix; natively evaluated by numpy.linalg.eig.  Nothing about (w, V) is assumed."""
    m = _A(m)
    n = m.shape[0]
    for i in range(n):
        for j in range(n):
            a, b = NP._S(m.a[i, j]), NP._S(m.a[j, i]).conjugate()
            if not a.same(b):
                raise Unsupported("eig of a matrix that is not (syntactically) Hermitian")
    if _is_concrete(m):
        w, V = _np.linalg.eig(_numeric(m))
        return _from_numeric(w.real, _F), _from_numeric(V, _C)
    w, decomp, key = _eig_symbols(m, "eig", hermitian=False)
    V = NP.zeros((n, n), _C)
    I = Sym.const(1j)
    for i in range(n):
        for j in range(n):
            re = Sym.of_id(T.defined("opaque", ("eig", "Vre", key, i, j), (lambda env, i=i, j=j: decomp(env)[1][i, j].real, ())))
            im = Sym.of_id(T.defined("opaque", ("eig", "Vim", key, i, j), (lambda env, i=i, j=j: decomp(env)[1][i, j].imag, ())))
            V.a[i, j] = re + I * im
    return w, V


def svd(m, *a, **k):
    raise Unsupported("svd")


def solve(a, b):
    return inv(a) @ _A(b)


def lstsq(*a, **k):
    raise Unsupported("lstsq")


# scipy.linalg extras
def sqrtm(m):
    """opaque principal square root X of a Hermitian matrix; ASSUMED contract: X Hermitian, X @ X = M"""
    m = _A(m)
    key = _mat_key(m)
    n = m.shape[0]

    def val(env, i, j, part):
        ck = ("sqrtm", key)
        if ck not in env:
            import scipy.linalg
            env[ck] = scipy.linalg.sqrtm(_native_of(m, env))
        v = env[ck][i, j]
        return v.real if part == 0 else v.imag
    out = NP.zeros((n, n), _C)
    I = Sym.const(1j)
    for i in range(n):
        for j in range(n):
            re = Sym.of_id(T.defined("opaque", ("sqrtm", "re", key, i, j), (lambda env, i=i, j=j: val(env, i, j, 0), ())))
            im = Sym.of_id(T.defined("opaque", ("sqrtm", "im", key, i, j), (lambda env, i=i, j=j: val(env, i, j, 1), ())))
            out.a[i, j] = re + I * im
    return out


def expm(m):
    m = _A(m)
    key = _mat_key(m)
    n = m.shape[0]
    def val(env, i, j):
        ck = ("expm", key)
        if ck not in env:
            import scipy.linalg
            env[ck] = scipy.linalg.expm(_native_of(m, env))
        return env[ck][i, j].real
    out = NP.zeros((n, n), m.dt)
    for i in range(n):
        for j in range(n):
            out.a[i, j] = Sym.of_id(T.defined("opaque", ("expm", key, i, j), (lambda env, i=i, j=j: val(env, i, j), ())))
    return out


def block_diag(*arrs):
    return NP._block_diag(*arrs)


def kron(a, b):
    return NP.kron(a, b)

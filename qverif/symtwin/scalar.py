"""Exact symbolic scalars for E2 (symtwin).

A scalar is num/den, both sparse polynomials with Fraction coefficients over
  * input symbols (real),
  * constant roots r_p (p prime, r_p^2 -> p) and the imaginary unit i (i^2 -> -1),
  * defined symbols (ite / sqrt / abs / log / opaque function results), each real, with a
    recorded definition that is handed to the solver as a constraint.
Elements of the constant field Q(sqrt 2, sqrt 3, ..., i) have a canonical form, so a
polynomial identity is decided by normalisation (complete for polynomials over R).
ASSUMPTION: IEEE doubles are treated as exact reals; a float literal denotes the rational
of its shortest repr.
"""
import math
from fractions import Fraction

from ..core.errors import Unsupported

# ------------------------------------------------------------------ symbol table

I_ID = 0


class SymInfo:
    __slots__ = ("id", "name", "kind", "data")

    def __init__(self, id_, name, kind, data=None):
        self.id, self.name, self.kind, self.data = id_, name, kind, data


class Table:
    def __init__(self):
        self.reset()

    def reset(self):
        self.syms = [SymInfo(0, "i", "i")]
        self.by_name = {"i": 0}
        self.roots = {}          # prime -> id
        self.defs = {}           # key -> id   (hash-consing of defined symbols)
        self.reduce2 = {0: Fraction(-1)}   # id -> value of square (constant roots and i)

    def var(self, name, kind="var", data=None):
        if name in self.by_name:
            return self.by_name[name]
        i = len(self.syms)
        self.syms.append(SymInfo(i, name, kind, data))
        self.by_name[name] = i
        return i

    def root(self, p):
        if p not in self.roots:
            i = self.var(f"r{p}", "root", p)
            self.roots[p] = i
            self.reduce2[i] = Fraction(p)
        return self.roots[p]

    def defined(self, kind, key, data, name=None):
        k = (kind, key)
        if k in self.defs:
            return self.defs[k]
        i = len(self.syms)
        nm = name or f"{kind}{i}"
        self.syms.append(SymInfo(i, nm, "def:" + kind, data))
        self.by_name[nm] = i
        self.defs[k] = i
        return i


T = Table()

ONE_MONO = ()


def _mono_mul(a, b):
    """multiply monomials (tuples of (id, exp) sorted by id); returns (mono, coefficient factor)"""
    if not a:
        return b, 1
    if not b:
        return a, 1
    out = []
    i = j = 0
    la, lb = len(a), len(b)
    f = 1
    red = T.reduce2
    while i < la and j < lb:
        x, y = a[i], b[j]
        if x[0] < y[0]:
            out.append(x)
            i += 1
        elif x[0] > y[0]:
            out.append(y)
            j += 1
        else:
            e = x[1] + y[1]
            s = x[0]
            if s in red:
                if e >= 2:
                    f = f * red[s] ** (e // 2)
                    e = e % 2
                if e:
                    out.append((s, e))
            else:
                out.append((s, e))
            i += 1
            j += 1
    if i < la:
        out.extend(a[i:])
    if j < lb:
        out.extend(b[j:])
    return tuple(out), f


def _padd(a, b):
    if len(a) < len(b):
        a, b = b, a
    out = dict(a)
    for m, c in b.items():
        v = out.get(m)
        if v is None:
            out[m] = c
        else:
            v = v + c
            if v == 0:
                del out[m]
            else:
                out[m] = v
    return out


def _pneg(a):
    return {m: -c for m, c in a.items()}


def _pscale(a, k):
    if k == 0:
        return {}
    if k == 1:
        return a
    return {m: c * k for m, c in a.items()}


def _pmul(a, b):
    if not a or not b:
        return {}
    if len(a) == 1:
        (ma, ca), = a.items()
        if not ma:
            return _pscale(b, ca)
    if len(b) == 1:
        (mb, cb), = b.items()
        if not mb:
            return _pscale(a, cb)
    out = {}
    for ma, ca in a.items():
        for mb, cb in b.items():
            m, f = _mono_mul(ma, mb)
            c = ca * cb
            if f != 1:
                c = c * f
            v = out.get(m)
            if v is None:
                out[m] = c
            else:
                v = v + c
                if v == 0:
                    del out[m]
                else:
                    out[m] = v
    return out


def _is_const_field(p):
    """all symbols are constant roots / i"""
    red = T.reduce2
    for m in p:
        for s, _ in m:
            if s not in red:
                return False
    return True


def _conj_sym(p, sid):
    """field automorphism sym -> -sym"""
    out = {}
    for m, c in p.items():
        odd = False
        for s, e in m:
            if s == sid and e % 2:
                odd = True
        out[m] = -c if odd else c
    return out


def _const_inverse(p):
    """inverse of a non-zero element of the constant field, as a polynomial"""
    num = {ONE_MONO: Fraction(1)}
    den = p
    for _ in range(40):
        syms = set()
        for m in den:
            for s, _e in m:
                syms.add(s)
        if not syms:
            c = den.get(ONE_MONO)
            if not c:
                raise ZeroDivisionError("division by zero in the constant field")
            return _pscale(num, 1 / c)
        s = max(syms)
        cj = _conj_sym(den, s)
        num = _pmul(num, cj)
        den = _pmul(den, cj)
    raise Unsupported("constant-field inverse did not terminate")


def _float_to_fraction(x):
    """a float is read as the simplest rational (denominator <= 10^6) that rounds to it
    (so Python-level `2 / 3` is 2/3), otherwise as the rational of its shortest repr (1e-13 is 1/10^13)"""
    c = Fraction(x).limit_denominator(1000000)
    if float(c) == x:
        return c
    return Fraction(repr(x))


def _frac(x):
    if isinstance(x, Fraction):
        return x
    if isinstance(x, bool):
        return Fraction(int(x))
    if isinstance(x, int):
        return Fraction(x)
    if isinstance(x, float):
        if x != x or x in (float("inf"), float("-inf")):
            raise Unsupported(f"non-finite float {x}")
        return _float_to_fraction(x)
    try:
        import numpy as np
        if isinstance(x, np.integer):
            return Fraction(int(x))
        if isinstance(x, np.floating):
            return _float_to_fraction(float(x))
        if isinstance(x, np.bool_):
            return Fraction(int(x))
    except ImportError:
        pass
    raise TypeError(f"not a rational: {x!r}")


class Sym:
    """num/den; den is None for 1.  Immutable."""
    __slots__ = ("n", "d", "_h")
    __array_priority__ = 1000

    def __init__(self, n, d=None):
        self.n = n
        self.d = d
        self._h = None

    # ---- constructors
    @staticmethod
    def const(x):
        if isinstance(x, Sym):
            return x
        if isinstance(x, complex):
            re, im = _frac(x.real), _frac(x.imag)
            n = {}
            if re:
                n[ONE_MONO] = re
            if im:
                n[((I_ID, 1),)] = im
            return Sym(n)
        try:
            import numpy as np
            if isinstance(x, np.complexfloating):
                return Sym.const(complex(x))
        except ImportError:
            pass
        f = _frac(x)
        return Sym({ONE_MONO: f} if f else {})

    @staticmethod
    def var(name):
        return Sym({((T.var(name), 1),): Fraction(1)})

    @staticmethod
    def of_id(i):
        return Sym({((i, 1),): Fraction(1)})

    # ---- predicates
    def is_zero(self):
        return not self.n

    def is_const(self):
        """rational constant"""
        return self.d is None and (not self.n or (len(self.n) == 1 and ONE_MONO in self.n))

    def const_value(self):
        return self.n.get(ONE_MONO, Fraction(0))

    def is_const_field(self):
        return self.d is None and _is_const_field(self.n)

    def is_poly(self):
        return self.d is None

    def symbols(self):
        out = set()
        for p in (self.n, self.d or {}):
            for m in p:
                for s, _ in m:
                    out.add(s)
        return out

    def has_i(self):
        for p in (self.n, self.d or {}):
            for m in p:
                if m and m[0][0] == I_ID:
                    return True
        return False

    # ---- arithmetic
    def __add__(self, o):
        if not isinstance(o, Sym):
            try:
                o = Sym.const(o)
            except TypeError:
                return NotImplemented
        if self.d is None and o.d is None:
            return Sym(_padd(self.n, o.n))
        d1 = self.d or {ONE_MONO: Fraction(1)}
        d2 = o.d or {ONE_MONO: Fraction(1)}
        if d1 == d2:
            return _mk(_padd(self.n, o.n), d1)
        # one denominator divides the other: use it as the common denominator
        if len(d2) >= len(d1) and len(d1) > 1:
            q = _pdiv_exact(d2, d1)
            if q is not None:
                return _mk(_padd(_pmul(self.n, q), o.n), d2)
        if len(d1) >= len(d2) and len(d2) > 1:
            q = _pdiv_exact(d1, d2)
            if q is not None:
                return _mk(_padd(self.n, _pmul(o.n, q)), d1)
        return _mk(_padd(_pmul(self.n, d2), _pmul(o.n, d1)), _pmul(d1, d2))

    __radd__ = __add__

    def __neg__(self):
        return Sym(_pneg(self.n), self.d)

    def __pos__(self):
        return self

    def __sub__(self, o):
        if not isinstance(o, Sym):
            try:
                o = Sym.const(o)
            except TypeError:
                return NotImplemented
        return self + (-o)

    def __rsub__(self, o):
        return (-self) + o

    def __mul__(self, o):
        if not isinstance(o, Sym):
            if isinstance(o, (list, tuple)):
                from . import symnp
                return symnp.array(o) * self
            try:
                o = Sym.const(o)
            except TypeError:
                return NotImplemented
        if self.d is None and o.d is None:
            return Sym(_pmul(self.n, o.n))
        n1, n2 = self.n, o.n
        d1 = self.d or {ONE_MONO: Fraction(1)}
        d2 = o.d or {ONE_MONO: Fraction(1)}
        # cross-cancellation (no general gcd): n1 / d2 and n2 / d1 when the division is exact
        if len(d2) > 1 and len(n1) >= len(d2):
            q = _pdiv_exact(n1, d2)
            if q is not None:
                n1, d2 = q, {ONE_MONO: Fraction(1)}
        if len(d1) > 1 and len(n2) >= len(d1):
            q = _pdiv_exact(n2, d1)
            if q is not None:
                n2, d1 = q, {ONE_MONO: Fraction(1)}
        return _mk(_pmul(n1, n2), _pmul(d1, d2))

    __rmul__ = __mul__

    def inverse(self):
        if not self.n:
            raise ZeroDivisionError("symbolic division by exact zero")
        if self.d is None and _is_const_field(self.n):
            return Sym(_const_inverse(self.n))
        return _mk(self.d or {ONE_MONO: Fraction(1)}, self.n)

    def __truediv__(self, o):
        if not isinstance(o, Sym):
            try:
                o = Sym.const(o)
            except TypeError:
                return NotImplemented
        return self * o.inverse()

    def __rtruediv__(self, o):
        if isinstance(o, (list, tuple)):
            from . import symnp          # numpy scalars accept `list / scalar`
            return symnp.array(o) / self
        return Sym.const(o) * self.inverse()

    def __pow__(self, e):
        if isinstance(e, Sym):
            if e.is_const():
                e = e.const_value()
            else:
                raise Unsupported("symbolic exponent")
        e = _frac(e)
        if e.denominator == 1:
            k = int(e)
            if k < 0:
                return self.inverse() ** (-k)
            out = Sym.const(1)
            base = self
            while k:
                if k & 1:
                    out = out * base
                base = base * base
                k >>= 1
            return out
        if e == Fraction(1, 2):
            return sqrt(self)
        if e == Fraction(-1, 2):
            return sqrt(self).inverse()
        if e == Fraction(3, 2):
            return self * sqrt(self)
        raise Unsupported(f"power {e}")

    def __rpow__(self, b):
        raise Unsupported("symbolic exponent")

    def __abs__(self):
        return sabs(self)

    # ---- complex structure
    def conjugate(self):
        if not self.has_i():
            return self
        return Sym(_conj_sym(self.n, I_ID), _conj_sym(self.d, I_ID) if self.d else None)

    def _split(self):
        """(re, im) polynomials of the numerator after making the denominator real"""
        x = self
        if x.d is not None and any(m and m[0][0] == I_ID for m in x.d):
            cj = _conj_sym(x.d, I_ID)
            x = Sym(_pmul(x.n, cj), _pmul(x.d, cj))
        re, im = {}, {}
        for m, c in x.n.items():
            if m and m[0][0] == I_ID:
                im[m[1:]] = c
            else:
                re[m] = c
        return re, im, x.d

    @property
    def real(self):
        if not self.has_i():
            return self
        re, _, d = self._split()
        return _mk(re, d) if d else Sym(re)

    @property
    def imag(self):
        if not self.has_i():
            return Sym({})
        _, im, d = self._split()
        return _mk(im, d) if d else Sym(im)

    # ---- numpy-scalar API surface
    def astype(self, dt):
        import numpy as np
        k = np.dtype(dt).kind if not isinstance(dt, type) or dt not in (int, float, complex) else {int: "i", float: "f", complex: "c"}[dt]
        if k in "fi" and self.has_i():
            return self.real
        return self

    def item(self):
        return self

    def conj(self):
        return self.conjugate()

    def tolist(self):
        return self

    def copy(self):
        return self

    @property
    def dtype(self):
        import numpy as np
        return np.dtype("complex128") if self.has_i() else np.dtype("float64")

    shape = ()
    ndim = 0
    size = 1

    @property
    def T(self):
        return self

    def flatten(self):
        from . import symnp
        return symnp.array([self])

    def reshape(self, *shape):
        from . import symnp
        return symnp.array([self]).reshape(*shape)

    # ---- comparisons -> SymBool (or python bool when decidable)
    def __eq__(self, o):
        if not isinstance(o, Sym):
            try:
                o = Sym.const(o)
            except TypeError:
                return NotImplemented
        return compare("==", self - o)

    def __ne__(self, o):
        r = self.__eq__(o)
        if r is NotImplemented:
            return r
        return bnot(r)

    def __lt__(self, o):
        return compare("<", self - o)

    def __le__(self, o):
        return compare("<=", self - o)

    def __gt__(self, o):
        return compare("<", Sym.const(o) - self if not isinstance(o, Sym) else o - self)

    def __ge__(self, o):
        return compare("<=", Sym.const(o) - self if not isinstance(o, Sym) else o - self)

    def __hash__(self):
        if self._h is None:
            self._h = hash((frozenset(self.n.items()), frozenset(self.d.items()) if self.d else None))
        return self._h

    def key(self):
        return (frozenset(self.n.items()), frozenset(self.d.items()) if self.d else None)

    def same(self, o):
        """syntactic identity of normal forms (exact for polynomials)"""
        o = Sym.const(o) if not isinstance(o, Sym) else o
        if self.d is None and o.d is None:
            return self.n == o.n
        return (self - o).is_zero()

    # ---- conversions
    def __float__(self):
        v = self.evalf({})
        if abs(v.imag) > 0:
            raise TypeError("complex symbolic scalar to float")
        return v.real

    def __complex__(self):
        return self.evalf({})

    def __int__(self):
        if self.is_const() and self.const_value().denominator == 1:
            return int(self.const_value())
        raise Unsupported("int() of a symbolic scalar")

    __index__ = __int__

    def __bool__(self):
        r = compare("==", self)
        return not bool(r)

    def __repr__(self):
        return "Sym(" + self.show() + ")"

    def show(self, limit=12):
        def poly(p):
            if not p:
                return "0"
            parts = []
            for k, (m, c) in enumerate(sorted(p.items(), key=lambda t: t[0])):
                if k >= limit:
                    parts.append(f"...(+{len(p) - limit} terms)")
                    break
                ms = "*".join((T.syms[s].name + (f"^{e}" if e != 1 else "")) for s, e in m)
                if not ms:
                    parts.append(str(c))
                elif c == 1:
                    parts.append(ms)
                else:
                    parts.append(f"{c}*{ms}")
            return " + ".join(parts)
        if self.d is None:
            return poly(self.n)
        return f"({poly(self.n)})/({poly(self.d)})"

    # ---- numeric evaluation
    def evalf(self, env):
        """complex value under env: symbol id -> float; roots / i / defined symbols are computed"""
        def peval(p):
            tot = 0j
            for m, c in p.items():
                v = complex(c.numerator / c.denominator) if abs(c.numerator) < 10 ** 300 else complex(float(c))
                for s, e in m:
                    v *= sym_value(s, env) ** e
                tot += v
            return tot
        n = peval(self.n)
        if self.d is None:
            r = n
        else:
            dd = peval(self.d)
            r = n / dd if dd != 0 else complex("nan")
        if r != r or abs(r) == float("inf"):
            return self._evalf_decimal(env)
        return r

    def _evalf_decimal(self, env):
        """high-precision fallback (80 digits) when double evaluation overflows / cancels to nan"""
        from decimal import Decimal, getcontext
        getcontext().prec = 80

        def val(s):
            v = sym_value(s, env)
            if isinstance(v, complex):
                if v.imag != 0:
                    raise OverflowError("complex value in decimal evaluation")
                v = v.real
            info = T.syms[s]
            if info.kind == "root":
                return Decimal(info.data).sqrt()
            return Decimal(repr(float(v)))

        def peval(p):
            re, im = Decimal(0), Decimal(0)
            for m, c in p.items():
                v = Decimal(c.numerator) / Decimal(c.denominator)
                ipow = 0
                for s, e in m:
                    if s == I_ID:
                        ipow += e
                    else:
                        v *= val(s) ** e
                ipow %= 4
                if ipow == 0:
                    re += v
                elif ipow == 1:
                    im += v
                elif ipow == 2:
                    re -= v
                else:
                    im -= v
            return re, im
        nr, ni = peval(self.n)
        if self.d is None:
            return complex(float(nr), float(ni))
        dr, di = peval(self.d)
        den = dr * dr + di * di
        if den == 0:
            return complex("nan")
        return complex(float((nr * dr + ni * di) / den), float((ni * dr - nr * di) / den))

    def subs_eval_exact(self, env):
        """exact value under env: symbol id -> Sym (constant field); defined symbols not supported"""
        def peval(p):
            tot = Sym({})
            for m, c in p.items():
                v = Sym.const(c)
                for s, e in m:
                    if s in T.reduce2:
                        v = v * (Sym.of_id(s) ** e)
                    elif s in env:
                        v = v * (env[s] ** e)
                    else:
                        raise KeyError(s)
                tot = tot + v
            return tot
        n = peval(self.n)
        if self.d is None:
            return n
        return n / peval(self.d)


def _mono_key(m):
    """graded-lex key of a monomial"""
    return (sum(e for _, e in m), tuple((-s, e) for s, e in m))


def _mono_div(a, b):
    """a / b for monomials, or None when b does not divide a"""
    da = dict(a)
    for s, e in b:
        k = da.get(s, 0) - e
        if k < 0:
            return None
        if k == 0:
            da.pop(s, None)
        else:
            da[s] = k
    return tuple(sorted(da.items()))


def _split_field(p):
    """{monomial over non-constant symbols: coefficient in the constant field (a root-only polynomial)}"""
    red = T.reduce2
    out = {}
    for m, c in p.items():
        xm = tuple((s, e) for s, e in m if s not in red)
        km = tuple((s, e) for s, e in m if s in red)
        out.setdefault(xm, {})[km] = c
    return out


def _pdiv_exact(n, d, max_steps=4000):
    """exact quotient n / d in K[x] with K = Q(sqrt p.., i), or None if d does not divide n"""
    import heapq
    if len(n) > 6000 or len(n) * len(d) > 400000:
        return None
    N, D = _split_field(n), _split_field(d)
    lead_d = max(D, key=_mono_key)
    dvars = {s for m in D for s, _ in m}
    nvars = {s for m in N for s, _ in m}
    if not dvars <= nvars:
        return None
    if max(sum(e for _, e in m) for m in N) < sum(e for _, e in lead_d):
        return None
    try:
        inv_cd = _const_inverse(D[lead_d])
    except ZeroDivisionError:
        return None
    rem = N
    heap = [(_neg_key(m), m) for m in rem]
    heapq.heapify(heap)
    q = {}
    steps = 0
    d_items = list(D.items())
    while heap:
        nk, lm = heap[0]
        if lm not in rem:
            heapq.heappop(heap)
            continue
        steps += 1
        if steps > max_steps:
            return None
        qm = _mono_div(lm, lead_d)
        if qm is None:
            return None
        qc = _pmul(rem[lm], inv_cd)
        q[qm] = _padd(q.get(qm, {}), qc)
        for md, c in d_items:
            mm, _f = _mono_mul(qm, md)          # no reductions: both are free of constant roots
            old = rem.get(mm)
            v = _padd(old if old is not None else {}, _pneg(_pmul(qc, c)))
            if not v:
                rem.pop(mm, None)
            else:
                if old is None:
                    heapq.heappush(heap, (_neg_key(mm), mm))
                rem[mm] = v
    out = {}
    for xm, kc in q.items():
        for km, c in kc.items():
            if c != 0:
                m = tuple(sorted(xm + km))
                out[m] = c
    return out


class _neg_key:
    """heap key with the order of _mono_key reversed (largest monomial first)"""
    __slots__ = ("k",)

    def __init__(self, m):
        self.k = _mono_key(m)

    def __lt__(self, o):
        return self.k > o.k

    def __eq__(self, o):
        return self.k == o.k


def _mk(n, d):
    if not n:
        return Sym({})
    if d is None:
        return Sym(n)
    if len(d) == 1:
        (m, c), = d.items()
        if not m:
            return Sym(_pscale(n, 1 / c))
    if _is_const_field(d):
        return Sym(_pmul(n, _const_inverse(d)))
    if n == d:
        return Sym({ONE_MONO: Fraction(1)})
    if len(n) >= len(d):
        q = _pdiv_exact(n, d)
        if q is not None:
            return Sym(q)
    return Sym(n, d)


def sym_value(s, env):
    if s in env:
        return env[s]
    info = T.syms[s]
    if info.kind == "i":
        return 1j
    if info.kind == "root":
        return math.sqrt(info.data)
    if info.kind.startswith("def:"):
        v = eval_def(info, env)
        env[s] = v
        return v
    raise KeyError(f"no value for symbol {info.name}")


def eval_def(info, env):
    kind = info.kind[4:]
    d = info.data
    if kind == "ite":
        c, a, b = d
        return (a.evalf(env) if eval_bool(c, env) else b.evalf(env)).real
    if kind == "sqrt":
        v = d.evalf(env)
        return math.sqrt(max(v.real, 0.0))
    if kind == "log":
        v = d.evalf(env)
        return math.log(v.real) if v.real > 0 else float("-inf")
    if kind == "exp":
        return math.exp(d.evalf(env).real)
    if kind == "cos":
        return math.cos(d.evalf(env).real)
    if kind == "sin":
        return math.sin(d.evalf(env).real)
    if kind == "const":
        return d
    if kind == "opaque":
        fn, args = d
        return fn(env, *args)
    raise KeyError(f"cannot evaluate defined symbol {info.name} ({kind})")


# ------------------------------------------------------------------ functions on scalars

_TRIAL_LIMIT = 200000


def _factor_squarefree(n):
    """n = s^2 * f with f squarefree; returns (s, [primes of f]), or None when a cofactor beyond the trial-division limit is left
    that is not a perfect square (constants read from floats: the caller falls back to a defined square-root symbol)"""
    import math
    s, primes = 1, []
    p = 2
    while p * p <= n and p <= _TRIAL_LIMIT:
        cnt = 0
        while n % p == 0:
            n //= p
            cnt += 1
        s *= p ** (cnt // 2)
        if cnt % 2:
            primes.append(p)
        p += 1
    if n > 1:
        if p * p > n:
            primes.append(n)          # n is prime
        else:
            r = math.isqrt(n)
            if r * r == n:
                s *= r
            else:
                return None
    return s, primes


def sqrt_rational(q):
    q = _frac(q)
    if q < 0:
        return sqrt_rational(-q) * Sym({((I_ID, 1),): Fraction(1)})
    if q == 0:
        return Sym({})
    n = q.numerator * q.denominator      # sqrt(a/b) = sqrt(ab)/b
    fs = _factor_squarefree(n)
    if fs is None:
        # the squarefree part is not found by trial division: such constants only arise from floating-point library results
        # (numeric eigendecompositions of concrete matrices); their square root is taken to 50 significant digits (a rational)
        import decimal
        with decimal.localcontext() as ctx:
            ctx.prec = 60
            r = (decimal.Decimal(q.numerator) / decimal.Decimal(q.denominator)).sqrt()
        return Sym.const(Fraction(r).limit_denominator(10 ** 50))
    s, primes = fs
    out = Sym.const(Fraction(s, q.denominator))
    for p in primes:
        out = out * Sym.of_id(T.root(p))
    return out


def sqrt(x):
    x = Sym.const(x) if not isinstance(x, Sym) else x
    if x.is_const():
        return sqrt_rational(x.const_value())
    if x.is_const_field():
        # e.g. sqrt(2)*3: only perfect squares in the field that we can recognise
        raise Unsupported(f"sqrt of constant-field element {x.show()}")
    if x.has_i():
        raise Unsupported("sqrt of a complex symbolic scalar")
    i = T.defined("sqrt", x.key(), x)
    return Sym.of_id(i)


def opaque_fn(kind, x):
    x = Sym.const(x) if not isinstance(x, Sym) else x
    i = T.defined(kind, x.key(), x)
    return Sym.of_id(i)


def log(x):
    x = Sym.const(x) if not isinstance(x, Sym) else x
    if x.is_const() and x.const_value() == 1:
        return Sym({})
    return opaque_fn("log", x)


def named_const(name, value):
    i = T.defined("const", name, value, name=name)
    return Sym.of_id(i)


def sabs(x):
    x = Sym.const(x) if not isinstance(x, Sym) else x
    if x.has_i():
        re, im = x.real, x.imag
        return sqrt(re * re + im * im)
    c = compare("<", x)          # x < 0
    if c is True:
        return -x
    if c is False:
        return x
    return ite(c, -x, x)


def ite(c, a, b):
    a = Sym.const(a) if not isinstance(a, Sym) else a
    b = Sym.const(b) if not isinstance(b, Sym) else b
    if c is True:
        return a
    if c is False:
        return b
    if a.same(b):
        return a
    from .paths import current
    cur = current(optional=True)
    if cur is not None:
        dec = cur.entailed(c)           # decided by requires / path condition: no if-then-else needed
        if dec is True:
            return a
        if dec is False:
            return b
    if a.has_i() or b.has_i():
        I = Sym({((I_ID, 1),): Fraction(1)})
        return ite(c, a.real, b.real) + I * ite(c, a.imag, b.imag)
    i = T.defined("ite", (c.key(), a.key(), b.key()), (c, a, b))
    return Sym.of_id(i)


# ------------------------------------------------------------------ symbolic booleans

class SymBool:
    """formula tree: ('atom', op, Sym) | ('and', [..]) | ('or', [..]) | ('not', x) | ('opaque', name)"""
    __slots__ = ("tag", "a", "b")

    def __init__(self, tag, a, b=None):
        self.tag, self.a, self.b = tag, a, b

    def key(self):
        if self.tag == "atom":
            return ("atom", self.a, self.b.key())
        if self.tag in ("and", "or"):
            return (self.tag, tuple(x.key() for x in self.a))
        if self.tag == "not":
            return ("not", self.a.key())
        return (self.tag, self.a)

    def __bool__(self):
        from .paths import current
        return current().decide(self)

    def __and__(self, o):
        return band(self, o)

    __rand__ = __and__

    def __or__(self, o):
        return bor(self, o)

    __ror__ = __or__

    def __invert__(self):
        return bnot(self)

    def __eq__(self, o):
        if isinstance(o, (bool, SymBool)):
            return bor(band(self, o), band(bnot(self), bnot(o)))
        return NotImplemented

    def __hash__(self):
        return hash(self.key())

    def __repr__(self):
        if self.tag == "atom":
            return f"({self.b.show(6)} {self.a} 0)"
        if self.tag == "not":
            return f"not {self.a!r}"
        if self.tag in ("and", "or"):
            return "(" + f" {self.tag} ".join(repr(x) for x in self.a) + ")"
        return f"<{self.tag} {self.a}>"


def _const_field_sign(x):
    """sign of a real constant-field element (exact zero test by normal form, sign numerically)"""
    if not x.n:
        return 0
    if x.has_i():
        return None
    from decimal import Decimal, getcontext
    getcontext().prec = 80
    tot = Decimal(0)
    mag = Decimal(0)
    for m, c in x.n.items():
        v = Decimal(c.numerator) / Decimal(c.denominator)
        for s, e in m:
            v *= Decimal(T.syms[s].data).sqrt() ** e
        tot += v
        mag += abs(v)
    if abs(tot) < mag * Decimal(10) ** -60:
        # numerically zero but normal form non-zero: cannot happen for a canonical basis; be safe
        raise Unsupported("sign of constant-field element undecided")
    return 1 if tot > 0 else -1


def compare(op, x):
    """x op 0 with op in '==', '<', '<='; returns bool when decidable"""
    if x.d is not None:
        # sign(n/d) = sign(n*d) where d != 0 (side condition recorded by the path manager)
        from .paths import current
        cur = current(optional=True)
        if cur is not None:
            cur.side_condition(Sym(x.d))
        if op == "==":
            x = Sym(x.n)
        else:
            sgn = cur.sign_of(Sym(x.d)) if cur is not None else 0
            if sgn > 0:
                x = Sym(x.n)                       # denominator provably positive on this path
            elif sgn < 0:
                x = Sym(_pneg(x.n))
            else:
                x = Sym(_pmul(x.n, x.d))
    if x.is_const_field():
        if op == "==":
            return not x.n
        if x.has_i():
            if x.imag.is_zero():
                x = x.real
            else:
                # numpy orders complex numbers lexicographically (real part first, then imaginary part)
                sr, si = _const_field_sign(x.real), _const_field_sign(x.imag)
                if sr != 0:
                    return sr < 0
                return si < 0 if op == "<" else si <= 0
        s = _const_field_sign(x)
        return s < 0 if op == "<" else s <= 0
    if op != "==" and x.has_i():
        if x.imag.is_zero():
            x = x.real
        else:
            raise Unsupported("ordering comparison of complex symbolic scalars")
    return SymBool("atom", op, x)


def band(a, b):
    if a is True:
        return b
    if b is True:
        return a
    if a is False or b is False:
        return False
    if isinstance(a, _np_bool()):
        return band(bool(a), b)
    if isinstance(b, _np_bool()):
        return band(a, bool(b))
    xs = (a.a if a.tag == "and" else [a]) + (b.a if b.tag == "and" else [b])
    return SymBool("and", list(xs))


def bor(a, b):
    if a is False:
        return b
    if b is False:
        return a
    if a is True or b is True:
        return True
    if isinstance(a, _np_bool()):
        return bor(bool(a), b)
    if isinstance(b, _np_bool()):
        return bor(a, bool(b))
    xs = (a.a if a.tag == "or" else [a]) + (b.a if b.tag == "or" else [b])
    return SymBool("or", list(xs))


def bnot(a):
    if a is True:
        return False
    if a is False:
        return True
    if isinstance(a, _np_bool()):
        return not bool(a)
    if a.tag == "not":
        return a.a
    return SymBool("not", a)


def _np_bool():
    import numpy as np
    return (np.bool_,)


def eval_bool(c, env):
    if isinstance(c, bool):
        return c
    if c.tag == "atom":
        v = c.b.evalf(env)
        if c.a == "==":
            return abs(v) == 0
        if c.a == "<":
            return v.real < 0
        return v.real <= 0
    if c.tag == "and":
        return all(eval_bool(x, env) for x in c.a)
    if c.tag == "or":
        return any(eval_bool(x, env) for x in c.a)
    if c.tag == "not":
        return not eval_bool(c.a, env)
    raise KeyError(c.tag)


# ------------------------------------------------------------------ symbolic differentiation (C12)

def _pdiff(p, sid):
    """partial derivative of a polynomial with respect to the symbol sid, treating every other symbol as constant"""
    out = {}
    for m, c in p.items():
        for k, (s, e) in enumerate(m):
            if s == sid:
                nm = m[:k] + (((s, e - 1),) if e > 1 else ()) + m[k + 1:]
                out[nm] = out.get(nm, 0) + c * e
                break
    return {m: c for m, c in out.items() if c != 0}


def diff(x, sid, _memo=None):
    """d x / d sym(sid) for a scalar built from polynomials, quotients and defined symbols log / sqrt / exp
    (chain rule through the definitions).  if-then-else symbols are differentiated branch-wise (valid away
    from the switching surface: the contract keeps inputs away from the clipping thresholds)."""
    x = Sym.const(x) if not isinstance(x, Sym) else x
    if _memo is None:
        _memo = {}

    def dpoly(p):
        tot = Sym(_pdiff(p, sid))
        for s in {s for m in p for s, _ in m}:
            info = T.syms[s]
            if not info.kind.startswith("def:") or s == sid:
                continue
            ds = dsym(s)
            if ds.is_zero():
                continue
            tot = tot + Sym(_pdiff(p, s)) * ds
        return tot

    def dsym(s):
        if s in _memo:
            return _memo[s]
        info = T.syms[s]
        kind = info.kind[4:]
        d = info.data
        if kind == "log":
            r = diff(d, sid, _memo) / d
        elif kind == "sqrt":
            r = diff(d, sid, _memo) / (2 * Sym.of_id(s))
        elif kind == "exp":
            r = diff(d, sid, _memo) * Sym.of_id(s)
        elif kind == "ite":
            c, a, b = d
            da, db = diff(a, sid, _memo), diff(b, sid, _memo)
            r = da if da.same(db) else ite(c, da, db)
        elif kind in ("const",):
            r = Sym({})
        elif kind == "opaque":
            r = Sym({})          # independent of the inputs by construction (draws / library results are not differentiated)
        else:
            raise Unsupported(f"derivative of defined symbol kind {kind}")
        _memo[s] = r
        return r
    if x.d is None:
        return dpoly(x.n)
    n, d = Sym(x.n), Sym(x.d)
    return (dpoly(x.n) * d - n * dpoly(x.d)) / (d * d)

"""`numpy` as seen by the twin import: arrays of exact symbolic scalars.

TRUSTED MODEL.  A SymArray wraps a genuine numpy object-dtype array, so every
structural operation (reshape, transpose, slicing, views and their aliasing,
fancy indexing, insert/delete/hstack/..., dot/kron/trace/sum) is numpy's own
code acting on exact scalars; only dtype bookkeeping, comparisons/where (->
symbolic booleans / ite), elementwise functions and linear-algebra library
calls are modelled here.  Anything not modelled raises Unsupported => the
obligation is undecided, never a violation.
"""
import builtins
import copy as _copy
import itertools
from fractions import Fraction

import numpy as _np

from ..core.errors import Unsupported
from . import scalar as SC
from .scalar import Sym, SymBool

# ------------------------------------------------------------------ dtypes

float64 = _np.float64
complex128 = _np.complex128
int64 = _np.int64
int32 = _np.int32
bool_ = _np.bool_
float128 = getattr(_np, "float128", _np.float64)
float_ = _np.float64
complex_ = _np.complex128
integer = _np.integer
floating = _np.floating
number = _np.number
dtype = _np.dtype
newaxis = None
inf = float("inf")
nan = float("nan")
s_ = _np.s_
ix_ = _np.ix_
pi = SC.named_const("pi", 3.141592653589793)
e = SC.named_const("e", 2.718281828459045)

_F = _np.dtype("float64")
_C = _np.dtype("complex128")
_I = _np.dtype("int64")
_B = _np.dtype("bool")
_O = _np.dtype("object")


def _norm_dt(dt):
    if dt is None:
        return None
    if dt is int:
        return _I
    if dt is float:
        return _F
    if dt is complex:
        return _C
    if dt is bool:
        return _B
    d = _np.dtype(dt)
    if d.kind == "f":
        return _F
    if d.kind == "c":
        return _C
    if d.kind in "iu":
        return _I
    if d.kind == "b":
        return _B
    if d.kind == "O":
        return _O
    raise Unsupported(f"dtype {dt}")


def _elem(x):
    """normalise one element to Sym / bool / SymBool"""
    if isinstance(x, (Sym, SymBool)):
        return x
    if isinstance(x, (bool, _np.bool_)):
        return bool(x)
    if isinstance(x, (int, _np.integer)):
        return int(x)
    if isinstance(x, (float, complex, Fraction, _np.number)):
        return Sym.const(x)
    if isinstance(x, SymArray) and x.a.ndim == 0:
        return x.a.item()
    return x


def _S(v):
    return v if isinstance(v, Sym) else Sym.const(v)


def _dt_of_scalar(x):
    if isinstance(x, (bool, _np.bool_, SymBool)):
        return _B
    if isinstance(x, Sym):
        return _C if x.has_i() else _F
    if isinstance(x, (int, _np.integer)):
        return _I
    if isinstance(x, (float, Fraction, _np.floating)):
        return _F
    if isinstance(x, (complex, _np.complexfloating)):
        return _C
    return _O


_vec_elem = _np.frompyfunc(_elem, 1, 1)


def _to_obj(x):
    """any array-like -> (object ndarray of normalised elements, declared dtype)"""
    if isinstance(x, SymArray):
        return x.a, x.dt
    if isinstance(x, sparse_matrix):
        return x.m.a, x.m.dt
    if isinstance(x, _np.ndarray):
        if x.dtype == object:
            out = _np.empty(x.shape, dtype=object)
            flat_in = x.reshape(-1)
            flat = out.reshape(-1)
            dts = set()
            for k in range(flat_in.shape[0]):
                v = flat_in[k]
                if isinstance(v, SymArray):
                    raise Unsupported("ragged object array")
                flat[k] = _elem(v)
                dts.add(_dt_of_scalar(flat[k]))
            return out, _join_dts(dts)
        dt = _norm_dt(x.dtype)
        out = _np.empty(x.shape, dtype=object)
        flat = out.reshape(-1)
        for k, v in enumerate(x.reshape(-1).tolist()):
            flat[k] = _elem(v)
        return out, dt
    if isinstance(x, (list, tuple)):
        if len(x) == 0:
            return _np.empty((0,), dtype=object), _F
        parts = [_to_obj(v) for v in x]
        shapes = {p[0].shape for p in parts}
        if len(shapes) != 1:
            raise Unsupported(f"ragged nested sequence with shapes {shapes}")
        out = _np.empty((len(parts),) + parts[0][0].shape, dtype=object)
        for k, p in enumerate(parts):
            out[k] = p[0] if p[0].ndim else p[0].item()
        return out, _join_dts({p[1] for p in parts})
    if isinstance(x, range):
        return _to_obj(list(x))
    v = _elem(x)
    out = _np.empty((), dtype=object)
    out[()] = v
    return out, _dt_of_scalar(v)


def _join_dts(dts):
    dts = {d for d in dts if d is not None}
    if not dts:
        return _F
    if _O in dts:
        return _O
    return _np.result_type(*dts) if len(dts) > 1 else next(iter(dts))


def _cast_elems(a, dt):
    """apply numpy's casting semantics on the values (complex -> float drops the imaginary part).
    Representation invariant: float/complex arrays hold Sym; int arrays hold python ints where concrete."""
    flat = a.reshape(-1)
    if dt == _F or dt == _I:
        for k in range(flat.shape[0]):
            v = flat[k]
            if isinstance(v, Sym):
                if v.has_i():
                    v = flat[k] = v.real
                if dt == _I and v.is_const() and v.const_value().denominator == 1:
                    flat[k] = int(v.const_value())
            elif isinstance(v, bool):
                flat[k] = Sym.const(int(v)) if dt == _F else int(v)
            elif isinstance(v, SymBool):
                flat[k] = SC.ite(v, 1, 0)
            elif isinstance(v, int):
                if dt == _F:
                    flat[k] = Sym.const(v)
            elif isinstance(v, (float, Fraction)):
                flat[k] = Sym.const(v) if dt == _F else int(v)
    elif dt == _C:
        for k in range(flat.shape[0]):
            v = flat[k]
            if isinstance(v, (bool, int, float, complex, Fraction)):
                flat[k] = Sym.const(int(v) if isinstance(v, bool) else v)
    return a


# ------------------------------------------------------------------ the array class

class SymArray:
    __slots__ = ("a", "dt", "__weakref__")
    __array_priority__ = 2000
    __array_ufunc__ = None      # real numpy defers to our reflected operators

    def __init__(self, a, dt):
        self.a = a
        self.dt = dt

    # ---- basic attributes
    @property
    def shape(self):
        return self.a.shape

    @shape.setter
    def shape(self, s):
        self.a.shape = s

    @property
    def ndim(self):
        return self.a.ndim

    @property
    def size(self):
        return self.a.size

    @property
    def dtype(self):
        return self.dt

    @property
    def T(self):
        return SymArray(self.a.T, self.dt)

    @property
    def flags(self):
        return self.a.flags

    @property
    def flat(self):
        return iter(self.a.flat)

    @property
    def base(self):
        return self.a.base

    def setflags(self, write=None, align=None, uic=None):
        self.a.setflags(write=write)

    def __len__(self):
        return len(self.a)

    def __iter__(self):
        if self.a.ndim == 0:
            raise TypeError("iteration over a 0-d array")
        for k in range(self.a.shape[0]):
            yield _wrap(self.a[k], self.dt)

    def __repr__(self):
        return f"SymArray(shape={self.a.shape}, dtype={self.dt})"

    def __str__(self):
        return f"SymArray{self.a.tolist()!r}"

    def __copy__(self):
        return SymArray(self.a.copy(), self.dt)

    def __deepcopy__(self, memo):
        b = self.a.copy()          # elements are immutable
        return SymArray(b, self.dt)

    def __reduce__(self):
        raise Unsupported("pickling a symbolic array")

    def __bool__(self):
        if self.a.size != 1:
            raise ValueError("The truth value of an array with more than one element is ambiguous.")
        return bool(self.a.reshape(-1)[0])

    def __float__(self):
        if self.a.size != 1:
            raise TypeError("only size-1 arrays can be converted")
        return float(self.a.reshape(-1)[0])

    def __int__(self):
        return int(self.a.reshape(-1)[0])

    def __index__(self):
        return int(self.a.reshape(-1)[0])

    def __complex__(self):
        return complex(self.a.reshape(-1)[0])

    def __hash__(self):
        raise TypeError("unhashable type: 'ndarray'")

    # ---- indexing
    @staticmethod
    def _ix(key):
        if isinstance(key, SymArray):
            return _concrete_index(key)
        if isinstance(key, tuple):
            return tuple(SymArray._ix(k) for k in key)
        if isinstance(key, list):
            return [SymArray._ix(k) for k in key]
        if isinstance(key, Sym):
            return int(key)
        return key

    def __getitem__(self, key):
        r = self.a[self._ix(key)]
        return _wrap(r, self.dt)

    def __setitem__(self, key, value):
        if isinstance(key, SymArray) and key.dt == _B and key.a.shape == self.a.shape:
            # boolean-mask assignment; symbolic mask entries become if-then-else (no path fork)
            va, _ = _to_obj(value)
            if va.ndim == 0:
                va = va.copy()
                if self.dt in (_F, _I, _C):
                    _cast_elems(va, self.dt)
                v = va.item()
                fm, fs = key.a.reshape(-1), self.a.reshape(-1) if self.a.flags.c_contiguous else None
                if fs is None:
                    raise Unsupported("mask assignment on a non-contiguous array")
                for k in range(fm.shape[0]):
                    m = fm[k]
                    if m is True:
                        fs[k] = v
                    elif m is not False:
                        fs[k] = SC.ite(m, v, fs[k])
                return
        key = self._ix(key)
        if isinstance(key, _np.ndarray) and key.dtype == object:
            raise Unsupported("assignment through a symbolic mask")
        va, vdt = _to_obj(value)
        va = va.copy()
        if self.dt in (_F, _I, _C):
            _cast_elems(va, self.dt)
        self.a[key] = va if va.ndim else va.item()

    # ---- arithmetic
    def _bin(self, other, op, reflected=False, div=False, cmp=False):
        if isinstance(other, sparse_matrix):
            return NotImplemented
        try:
            oa, odt = _to_obj(other)
        except Unsupported:
            return NotImplemented
        x, y = (oa, self.a) if reflected else (self.a, oa)
        if div:
            x, y = _sym_elems(x), _sym_elems(y)
        r = op(x, y)
        if cmp:
            return _wrap(r, _B)
        dt = _result_dt(self.dt, odt, oa.ndim == 0 and not isinstance(other, SymArray), div)
        return _wrap(r, dt)

    def __add__(self, o):
        return self._bin(o, _np.add)

    def __radd__(self, o):
        return self._bin(o, _np.add, True)

    def __sub__(self, o):
        return self._bin(o, _np.subtract)

    def __rsub__(self, o):
        return self._bin(o, _np.subtract, True)

    def __mul__(self, o):
        return self._bin(o, _np.multiply)

    def __rmul__(self, o):
        return self._bin(o, _np.multiply, True)

    def __truediv__(self, o):
        return self._bin(o, _np.true_divide, div=True)

    def __rtruediv__(self, o):
        return self._bin(o, _np.true_divide, True, div=True)

    def __pow__(self, o):
        return self._bin(o, _np.power)

    def __matmul__(self, o):
        if isinstance(o, sparse_matrix):
            return _wrap(_np.matmul(self.a, o.m.a), _result_dt(self.dt, o.m.dt))
        return self._bin(o, _matmul)

    def __rmatmul__(self, o):
        return self._bin(o, _matmul, True)

    def __neg__(self):
        return _wrap(-self.a, self.dt)

    def __pos__(self):
        return self

    def __abs__(self):
        return absolute(self)

    def __iadd__(self, o):
        oa, _ = _to_obj(o)
        self.a[...] = self.a + oa
        return self

    def __isub__(self, o):
        oa, _ = _to_obj(o)
        self.a[...] = self.a - oa
        return self

    def __imul__(self, o):
        oa, _ = _to_obj(o)
        self.a[...] = self.a * oa
        return self

    def __itruediv__(self, o):
        oa, _ = _to_obj(o)
        self.a[...] = self.a / oa
        return self

    def __eq__(self, o):
        return self._bin(o, _c_eq, cmp=True)

    def __ne__(self, o):
        return self._bin(o, _c_ne, cmp=True)

    def __lt__(self, o):
        return self._bin(o, _c_lt, cmp=True)

    def __le__(self, o):
        return self._bin(o, _c_le, cmp=True)

    def __gt__(self, o):
        return self._bin(o, _c_gt, cmp=True)

    def __ge__(self, o):
        return self._bin(o, _c_ge, cmp=True)

    def __and__(self, o):
        return self._bin(o, _vand, cmp=True)

    def __or__(self, o):
        return self._bin(o, _vor, cmp=True)

    def __invert__(self):
        return _wrap(_vnot(self.a), _B)

    # ---- methods
    def reshape(self, *shape, order="C"):
        if len(shape) == 1 and isinstance(shape[0], (tuple, list)):
            shape = tuple(shape[0])
        shape = tuple(int(s) for s in shape)
        return SymArray(self.a.reshape(shape, order=order), self.dt)

    def flatten(self, order="C"):
        return SymArray(self.a.flatten(order), self.dt)

    def ravel(self, order="C"):
        return SymArray(self.a.ravel(order), self.dt)

    def copy(self, order="C"):
        return SymArray(self.a.copy(), self.dt)

    def astype(self, dt, copy=True):
        dt = _norm_dt(dt)
        b = self.a.copy()
        _cast_elems(b, dt)
        return SymArray(b, dt)

    def conjugate(self):
        return conjugate(self)

    conj = conjugate

    def transpose(self, *axes):
        return SymArray(self.a.transpose(*axes), self.dt)

    def swapaxes(self, a, b):
        return SymArray(self.a.swapaxes(a, b), self.dt)

    def squeeze(self, axis=None):
        return SymArray(self.a.squeeze(axis), self.dt)

    def dot(self, o):
        return dot(self, o)

    def sum(self, axis=None, keepdims=False):
        return sum(self, axis=axis, keepdims=keepdims)

    def trace(self, offset=0):
        return trace(self, offset)

    def diagonal(self, offset=0):
        return SymArray(self.a.diagonal(offset), self.dt)

    def tolist(self):
        return self.a.tolist()

    def item(self, *args):
        return self.a.item(*args)

    def max(self, axis=None):
        return amax(self, axis)

    def min(self, axis=None):
        return amin(self, axis)

    def all(self, axis=None):
        return all(self, axis)

    def any(self, axis=None):
        return any(self, axis)

    def mean(self, axis=None):
        return mean(self, axis)

    def fill(self, v):
        self.a.fill(_elem(v))

    def nonzero(self):
        return where(self != 0)

    def toarray(self):
        return self

    @property
    def real(self):
        if self.dt != _C:
            return self
        out = _np.empty(self.a.shape, dtype=object)
        fo, fi = out.reshape(-1), self.a.reshape(-1)
        for k in range(fi.shape[0]):
            fo[k] = _S(fi[k]).real
        return SymArray(out, _F)

    @property
    def imag(self):
        out = _np.empty(self.a.shape, dtype=object)
        fo, fi = out.reshape(-1), self.a.reshape(-1)
        for k in range(fi.shape[0]):
            fo[k] = _S(fi[k]).imag if self.dt == _C else Sym.const(0)
        return SymArray(out, _F)


ndarray = SymArray


def _wrap(r, dt):
    if isinstance(r, _np.ndarray):
        if dt in (_F, _C, _I):
            _cast_keep(r, dt)
        return SymArray(r, dt)
    if dt in (_F, _C) and isinstance(r, (int, float, Fraction)) and not isinstance(r, bool):
        return Sym.const(r)
    return r        # scalar element (Sym / int / bool / SymBool)


def _cast_keep(a, dt):
    """re-establish the representation invariant after an operation (no value change)"""
    flat = a.reshape(-1) if a.flags.c_contiguous else None
    if flat is None:
        flat = a.ravel()     # copy for non-contiguous: write back below
        back = True
    else:
        back = False
    for k in range(flat.shape[0]):
        v = flat[k]
        if isinstance(v, Sym):
            if dt == _I and v.is_const() and v.const_value().denominator == 1:
                flat[k] = int(v.const_value())
        elif isinstance(v, bool):
            flat[k] = Sym.const(int(v)) if dt != _I else int(v)
        elif isinstance(v, (int, float, Fraction, complex)) and dt != _I:
            flat[k] = Sym.const(v)
    if back:
        a[...] = flat.reshape(a.shape)


def _result_dt(d1, d2, scalar_other=False, div=False):
    if d1 == _O or d2 == _O:
        return _O
    if scalar_other:
        # python-scalar-like operand: weak promotion by kind
        order = {"b": 0, "i": 1, "f": 2, "c": 3}
        r = d1 if order[d1.kind] >= order[d2.kind] else d2
    else:
        r = _np.result_type(d1, d2)
    r = _norm_dt(r)
    if div and r.kind in "bi":
        r = _F
    return r


_sym_elems = _np.frompyfunc(_S, 1, 1)


_INT_TABLE = None


def _ints_to_syms(r):
    """object array of (shared, immutable) Sym constants for an int array with entries in (-1000, 1000)"""
    global _INT_TABLE
    if _INT_TABLE is None:
        _INT_TABLE = _np.empty(2001, dtype=object)
        for v in range(-1000, 1001):
            _INT_TABLE[v + 1000] = Sym.const(v)
    if r.size and (r.min() <= -1000 or r.max() >= 1000):
        out = _np.empty(r.shape, dtype=object)
        fo = out.reshape(-1)
        for k, v in enumerate(r.reshape(-1).tolist()):
            fo[k] = Sym.const(v)
        return out
    return _INT_TABLE[r + 1000]


def _as_small_int_array(a):
    """int64 copy of an object array whose entries are all small integer constants, else None (fast path for 0/1 matrices)"""
    if a.size < 4096:
        return None
    out = _np.empty(a.shape, dtype=_np.int64)
    fo, fi = out.reshape(-1), a.reshape(-1)
    for k in range(fi.shape[0]):
        v = fi[k]
        if isinstance(v, Sym):
            if not v.n:
                fo[k] = 0
                continue
            if len(v.n) == 1 and v.d is None:
                c = v.n.get(())
                if c is not None and c.denominator == 1 and -1000 < c.numerator < 1000:
                    fo[k] = c.numerator
                    continue
            return None
        if isinstance(v, int) and not isinstance(v, bool) and -1000 < v < 1000:
            fo[k] = v
            continue
        return None
    return out


def _matmul(x, y):
    if x.ndim == 0 or y.ndim == 0:
        raise ValueError("matmul: Input operand does not have enough dimensions")
    if x.ndim == 2 and y.ndim == 2 and x.size >= 4096 and y.size >= 4096:
        xi = _as_small_int_array(x)
        if xi is not None:
            yi = _as_small_int_array(y)
            if yi is not None:
                return _ints_to_syms(xi @ yi)    # exact: integer arithmetic
    # sparse integer matrix (permutations, 0/1 tables) times a symbolic operand: work over the non-zeros only
    if x.ndim == 2 and x.size >= 4096 and y.ndim in (1, 2):
        xi = _as_small_int_array(x)
        if xi is not None and _np.count_nonzero(xi) * 8 <= xi.size:
            return _int_left_matmul(xi, y)
    if y.ndim == 2 and y.size >= 4096 and x.ndim in (1, 2):
        yi = _as_small_int_array(y)
        if yi is not None and _np.count_nonzero(yi) * 8 <= yi.size:
            r = _int_left_matmul(yi.T, x.T if x.ndim == 2 else x)
            return r.T if x.ndim == 2 else r
    return _np.matmul(x, y)


def _int_left_matmul(xi, y):
    """xi (int64, sparse) @ y (object array, 1-D or 2-D) using only the non-zero entries of xi"""
    n = xi.shape[0]
    out = _np.empty((n,) + tuple(y.shape[1:]), dtype=object)
    zero = Sym.const(0)
    rows, cols = _np.nonzero(xi)
    start = _np.searchsorted(rows, _np.arange(n + 1))
    for i in range(n):
        acc = None
        for t in range(start[i], start[i + 1]):
            j = cols[t]
            c = int(xi[i, j])
            term = y[j] if c == 1 else y[j] * c
            acc = term if acc is None else acc + term
        if acc is None:
            if y.ndim == 1:
                out[i] = zero
            else:
                row = _np.empty(y.shape[1:], dtype=object)
                row.fill(zero)
                out[i] = row
        else:
            out[i] = acc
    return out


def _pyand(a, b):
    return SC.band(a, b)


def _pyor(a, b):
    return SC.bor(a, b)


import operator as _op
_c_eq = _np.frompyfunc(_op.eq, 2, 1)
_c_ne = _np.frompyfunc(_op.ne, 2, 1)
_c_lt = _np.frompyfunc(_op.lt, 2, 1)
_c_le = _np.frompyfunc(_op.le, 2, 1)
_c_gt = _np.frompyfunc(_op.gt, 2, 1)
_c_ge = _np.frompyfunc(_op.ge, 2, 1)
_vand = _np.frompyfunc(_pyand, 2, 1)
_vor = _np.frompyfunc(_pyor, 2, 1)
_vnot = _np.frompyfunc(SC.bnot, 1, 1)


def _concrete_index(key):
    """index arrays must be concrete ints / bools"""
    flat = key.a.reshape(-1)
    if key.dt == _B:
        out = _np.empty(key.a.shape, dtype=bool)
        fo = out.reshape(-1)
        for k in range(flat.shape[0]):
            v = flat[k]
            fo[k] = bool(v)        # symbolic => forks
        return out
    out = _np.empty(key.a.shape, dtype=_np.int64)
    fo = out.reshape(-1)
    for k in range(flat.shape[0]):
        fo[k] = int(flat[k])
    return out


def _A(x):
    """array-like -> SymArray"""
    if isinstance(x, SymArray):
        return x
    if isinstance(x, sparse_matrix):
        return x.m
    a, dt = _to_obj(x)
    return SymArray(a, dt)


# ------------------------------------------------------------------ creation

def array(obj, dtype=None, copy=True, ndmin=0):
    a, dt0 = _to_obj(obj)
    if isinstance(obj, (SymArray, sparse_matrix)) or copy:
        a = a.copy()
    dt = _norm_dt(dtype) or dt0
    _cast_elems(a, dt)
    while a.ndim < ndmin:
        a = a[None]
    return SymArray(a, dt)


def asarray(obj, dtype=None):
    if isinstance(obj, SymArray) and (dtype is None or _norm_dt(dtype) == obj.dt):
        return obj
    return array(obj, dtype=dtype)


def copy(x):
    return _A(x).copy()


def _full(shape, v, dt):
    if isinstance(shape, (int, _np.integer, Sym)):
        shape = (int(shape),)
    shape = tuple(int(s) for s in shape)
    a = _np.empty(shape, dtype=object)
    a.fill(v)
    return SymArray(a, dt)


def zeros(shape, dtype=float64):
    dt = _norm_dt(dtype)
    return _full(shape, 0 if dt == _I else (False if dt == _B else Sym.const(0)), dt)


def ones(shape, dtype=float64):
    dt = _norm_dt(dtype)
    return _full(shape, 1 if dt == _I else (True if dt == _B else Sym.const(1)), dt)


def empty(shape, dtype=float64):
    return zeros(shape, dtype)


def full(shape, fill_value, dtype=None):
    v = _elem(fill_value)
    return _full(shape, v, _norm_dt(dtype) or _dt_of_scalar(v))


def zeros_like(x, dtype=None):
    x = _A(x)
    return zeros(x.shape, dtype or x.dt)


def ones_like(x, dtype=None):
    x = _A(x)
    return ones(x.shape, dtype or x.dt)


def eye(n, m=None, k=0, dtype=float64):
    n = int(n)
    m = n if m is None else int(m)
    out = zeros((n, m), dtype)
    for i in range(n):
        j = i + k
        if 0 <= j < m:
            out.a[i, j] = 1 if out.dt == _I else Sym.const(1)
    return out


def identity(n, dtype=float64):
    return eye(n, dtype=dtype)


def arange(*args, dtype=None):
    vals = list(range(*[int(a) for a in args]))
    return array(vals, dtype=dtype or int)


def diag(v, k=0):
    v = _A(v)
    if v.ndim == 1:
        n = v.shape[0] + builtins.abs(k)
        out = zeros((n, n), v.dt)
        for i in range(v.shape[0]):
            out.a[(i, i + k) if k >= 0 else (i - k, i)] = v.a[i]
        return out
    return SymArray(_np.diag(v.a, k).copy(), v.dt)


# ------------------------------------------------------------------ shape manipulation (numpy's own code on object arrays)

def reshape(x, shape, order="C"):
    return _A(x).reshape(shape, order=order)


def transpose(x, axes=None):
    x = _A(x)
    return SymArray(_np.transpose(x.a, axes), x.dt)


def ravel(x):
    return _A(x).ravel()


def _seq(xs):
    arrs = [_A(x) for x in xs]
    return [x.a for x in arrs], _join_dts({x.dt for x in arrs})


def hstack(xs):
    a, dt = _seq(xs)
    return SymArray(_np.hstack(a), dt)


def vstack(xs):
    a, dt = _seq(xs)
    return SymArray(_np.vstack(a), dt)


def stack(xs, axis=0):
    a, dt = _seq(xs)
    return SymArray(_np.stack(a, axis=axis), dt)


def concatenate(xs, axis=0):
    a, dt = _seq(xs)
    return SymArray(_np.concatenate(a, axis=axis), dt)


def block(arrays):
    def conv(x):
        if isinstance(x, list):
            return [conv(y) for y in x]
        return _A(x).a
    dts = set()

    def collect(x):
        if isinstance(x, list):
            for y in x:
                collect(y)
        else:
            dts.add(_A(x).dt)
    collect(arrays)
    return SymArray(_np.block(conv(arrays)), _join_dts(dts))


def split(x, n, axis=0):
    x = _A(x)
    if isinstance(n, SymArray):
        n = [int(v) for v in n.a.tolist()]
    return [SymArray(p, x.dt) for p in _np.split(x.a, n, axis=axis)]


def repeat(a, repeats, axis=None):
    a = _A(a)
    if isinstance(repeats, SymArray):
        repeats = _concrete_index(repeats)
    return SymArray(_np.repeat(a.a, repeats, axis=axis), a.dt)


def tile(x, reps):
    x = _A(x)
    return SymArray(_np.tile(x.a, reps), x.dt)


def insert(arr, obj, values, axis=None):
    arr = _A(arr)
    va, vdt = _to_obj(values)
    if isinstance(obj, SymArray):
        obj = _concrete_index(obj)
    return SymArray(_np.insert(arr.a, obj, va, axis=axis), _result_dt(arr.dt, vdt, va.ndim == 0))


def delete(arr, obj, axis=None):
    arr = _A(arr)
    if isinstance(obj, tuple):
        obj = tuple(_concrete_index(o) if isinstance(o, SymArray) else o for o in obj)
        if len(obj) == 1:
            obj = obj[0]
    elif isinstance(obj, SymArray):
        obj = _concrete_index(obj)
    return SymArray(_np.delete(arr.a, obj, axis=axis), arr.dt)


def append(arr, values, axis=None):
    arr = _A(arr)
    va, vdt = _to_obj(values)
    return SymArray(_np.append(arr.a, va, axis=axis), _result_dt(arr.dt, vdt))


def squeeze(x, axis=None):
    return _A(x).squeeze(axis)


def expand_dims(x, axis):
    x = _A(x)
    return SymArray(_np.expand_dims(x.a, axis), x.dt)


def flip(x, axis=None):
    x = _A(x)
    return SymArray(_np.flip(x.a, axis), x.dt)


def roll(x, shift, axis=None):
    x = _A(x)
    return SymArray(_np.roll(x.a, shift, axis), x.dt)


# ------------------------------------------------------------------ algebra

def dot(a, b):
    if isinstance(a, sparse_matrix):
        return a.dot(b)
    a, b = _A(a), _A(b)
    r = _np.dot(a.a, b.a)
    return _wrap(r, _result_dt(a.dt, b.dt))


def matmul(a, b, out=None):
    r = _A(a) @ b
    if out is not None:
        if not isinstance(out, SymArray):
            raise TypeError("return arrays must be of ArrayType")
        out[...] = r           # numpy semantics: the result is written into (and returned as) the caller's buffer
        return out
    return r


def vdot(a, b):
    a, b = _A(a), _A(b)
    fa, fb = a.a.reshape(-1), b.a.reshape(-1)
    if fa.shape != fb.shape:
        raise ValueError("vdot: shapes not aligned")
    tot = Sym.const(0)
    for k in range(fa.shape[0]):
        x, y = _S(fa[k]), _S(fb[k])
        if x.is_zero() or y.is_zero():
            continue
        tot = tot + x.conjugate() * y
    return tot


def inner(a, b):
    a, b = _A(a), _A(b)
    return _wrap(_np.inner(a.a, b.a), _result_dt(a.dt, b.dt))


def outer(a, b):
    a, b = _A(a), _A(b)
    return SymArray(_np.outer(a.a, b.a), _result_dt(a.dt, b.dt))


def kron(a, b):
    a, b = _A(a), _A(b)
    if a.a.size * b.a.size >= 4096:
        ai, bi = _as_small_int_array(a.a) if a.a.size >= 4096 else _small_ints(a.a), None
        if ai is not None:
            bi = _as_small_int_array(b.a) if b.a.size >= 4096 else _small_ints(b.a)
        if ai is not None and bi is not None:
            return SymArray(_ints_to_syms(_np.kron(ai, bi)), _result_dt(a.dt, b.dt))
    return SymArray(_np.kron(a.a, b.a), _result_dt(a.dt, b.dt))


def _small_ints(a):
    out = _np.empty(a.shape, dtype=_np.int64)
    fo, fi = out.reshape(-1), a.reshape(-1)
    for k in range(fi.shape[0]):
        v = fi[k]
        if isinstance(v, Sym) and v.d is None and (not v.n or (len(v.n) == 1 and () in v.n and v.n[()].denominator == 1)):
            fo[k] = int(v.n.get((), 0))
        elif isinstance(v, int) and not isinstance(v, bool):
            fo[k] = v
        else:
            return None
    return out


def trace(x, offset=0):
    x = _A(x)
    d = x.a.diagonal(offset)
    tot = Sym.const(0)
    for v in d.tolist():
        tot = tot + v
    return _S(tot) if x.dt != _I else tot


def diagonal(x, offset=0):
    return _A(x).diagonal(offset)


def sum(x, axis=None, keepdims=False, dtype=None):
    if not isinstance(x, (SymArray, sparse_matrix)) and isinstance(x, (list, tuple)) and len(x) == 0:
        return Sym.const(0)
    x = _A(x)
    if x.a.size == 0 and axis is None:
        return Sym.const(0)
    if dtype is not None and _norm_dt(dtype) == _F and x.dt not in (_F, _I, _B):
        # numpy casts the operands to the requested dtype first: complex -> float drops the imaginary parts (ComplexWarning)
        x = x.astype(_F)
    r = _np.sum(x.a, axis=axis, keepdims=keepdims)
    if isinstance(r, _np.ndarray):
        return SymArray(r, x.dt if x.dt != _B else _I)
    return _elem(r) if not isinstance(r, bool) else Sym.const(int(r))


def prod(x, axis=None):
    if isinstance(x, (list, tuple)) and builtins.all(isinstance(v, (int, _np.integer)) for v in x):
        out = 1
        for v in x:
            out *= int(v)
        return out
    x = _A(x)
    r = _np.prod(x.a, axis=axis)
    return _wrap(r, x.dt)


def mean(x, axis=None, dtype=None):
    x = _A(x)
    if axis is None:
        return sum(x) / x.a.size
    return sum(x, axis=axis) / x.a.shape[axis]


def std(x, axis=None, ddof=0, dtype=None):
    x = _A(x)
    if axis is not None:
        raise Unsupported("std along an axis")
    n = x.a.size
    m = mean(x)
    tot = Sym.const(0)
    for v in x.a.reshape(-1).tolist():
        d = v - m
        tot = tot + d * d.conjugate()
    return SC.sqrt(tot / (n - ddof))


def var(x, axis=None, ddof=0):
    s = std(x, axis, ddof)
    return s * s


def cumsum(x, axis=None):
    x = _A(x)
    return SymArray(_np.cumsum(x.a, axis=axis), x.dt)


def einsum(spec, *ops):
    arrs = [_A(o) for o in ops]
    return _wrap(_np.einsum(spec, *[a.a for a in arrs]), _join_dts({a.dt for a in arrs}))


# ------------------------------------------------------------------ elementwise functions

def _map(f, x, dt=None):
    if isinstance(x, (SymArray, list, tuple, sparse_matrix, _np.ndarray)):
        x = _A(x)
        out = _np.empty(x.a.shape, dtype=object)
        fo, fi = out.reshape(-1), x.a.reshape(-1)
        for k in range(fi.shape[0]):
            fo[k] = f(_S(fi[k]) if not isinstance(fi[k], (bool, SymBool)) else fi[k])
        return SymArray(out, dt or x.dt)
    return f(_S(_elem(x)))


def sqrt(x):
    return _map(SC.sqrt, x, None if not isinstance(x, SymArray) or x.dt != _I else _F)


def absolute(x):
    return _map(SC.sabs, x, _F if isinstance(x, SymArray) or True else None) if isinstance(x, (SymArray, list, tuple, sparse_matrix)) else SC.sabs(_elem(x))


abs = absolute


def conjugate(x):
    if isinstance(x, sparse_matrix):
        return x.conjugate()
    return _map(lambda v: v.conjugate(), x)


conj = conjugate


def real(x):
    if isinstance(x, (SymArray, sparse_matrix)):
        return _A(x).real
    if isinstance(x, (list, tuple)):
        return _A(x).real
    return _elem(x).real


def imag(x):
    if isinstance(x, (SymArray, sparse_matrix, list, tuple)):
        return _A(x).imag
    return _elem(x).imag


def log(x):
    return _map(SC.log, x)


def exp(x):
    def f(v):
        if v.is_zero():
            return Sym.const(1)
        return SC.opaque_fn("exp", v)
    return _map(f, x)


def cos(x):
    def f(v):
        if v.is_zero():
            return Sym.const(1)
        return SC.opaque_fn("cos", v)
    return _map(f, x)


def sin(x):
    def f(v):
        if v.is_zero():
            return Sym.const(0)
        return SC.opaque_fn("sin", v)
    return _map(f, x)


def square(x):
    return _map(lambda v: v * v, x)


def power(x, p):
    return _A(x) ** p if isinstance(x, (SymArray, list, tuple)) else _elem(x) ** p


def ceil(x):
    v = _elem(x)
    if isinstance(v, Sym) and v.is_const():
        import math
        return Sym.const(math.ceil(v.const_value()))
    raise Unsupported("ceil of a symbolic scalar")


def floor(x):
    v = _elem(x)
    if isinstance(v, Sym) and v.is_const():
        import math
        return Sym.const(math.floor(v.const_value()))
    raise Unsupported("floor of a symbolic scalar")


def maximum(a, b):
    a, b = _A(a), _A(b)
    f = _np.frompyfunc(lambda x, y: SC.ite(x < y, y, x), 2, 1)
    return _wrap(f(a.a, b.a), _result_dt(a.dt, b.dt))


def minimum(a, b):
    a, b = _A(a), _A(b)
    f = _np.frompyfunc(lambda x, y: SC.ite(y < x, y, x), 2, 1)
    return _wrap(f(a.a, b.a), _result_dt(a.dt, b.dt))


def amax(x, axis=None):
    x = _A(x)
    if axis is not None:
        raise Unsupported("max along an axis")
    vals = x.a.reshape(-1).tolist()
    out = vals[0]
    for v in vals[1:]:
        out = SC.ite(out < v, v, out)
    return out


max = amax


def amin(x, axis=None):
    x = _A(x)
    if axis is not None:
        raise Unsupported("min along an axis")
    vals = x.a.reshape(-1).tolist()
    out = vals[0]
    for v in vals[1:]:
        out = SC.ite(v < out, v, out)
    return out


min = amin


def argmax(x, axis=None):
    x = _A(x)
    vals = x.a.reshape(-1).tolist()
    best = 0
    for k in range(1, len(vals)):
        if bool(vals[best] < vals[k]):        # forks
            best = k
    return best


def angle(x):
    raise Unsupported("np.angle")


def clip(x, lo, hi):
    return minimum(maximum(x, lo), hi)


# ------------------------------------------------------------------ logic

def isclose(a, b, rtol=1e-05, atol=1e-08, equal_nan=False):
    """numpy's definition: |a - b| <= atol + rtol * |b|"""
    scalar = not isinstance(a, (SymArray, list, tuple, sparse_matrix)) and not isinstance(b, (SymArray, list, tuple, sparse_matrix))
    a, b = _A(a), _A(b)
    rt, at = _elem(rtol), _elem(atol)

    def f(x, y):
        return SC.sabs(x - y) <= at + rt * SC.sabs(y)
    r = _np.frompyfunc(f, 2, 1)(a.a, b.a)
    if scalar or not isinstance(r, _np.ndarray):
        return r.item() if isinstance(r, _np.ndarray) else r
    return SymArray(r, _B)


def allclose(a, b, rtol=1e-05, atol=1e-08, equal_nan=False):
    return all(isclose(a, b, rtol, atol))


def all(x, axis=None):
    if isinstance(x, (bool, SymBool)):
        return x
    x = _A(x)
    if axis is not None:
        raise Unsupported("all along an axis")
    out = True
    for v in x.a.reshape(-1).tolist():
        if isinstance(v, Sym):
            v = v != 0
        out = SC.band(out, v)
        if out is False:
            return False
    return out


def any(x, axis=None):
    if isinstance(x, (bool, SymBool)):
        return x
    x = _A(x)
    if axis is not None:
        raise Unsupported("any along an axis")
    out = False
    for v in x.a.reshape(-1).tolist():
        if isinstance(v, Sym):
            v = v != 0
        out = SC.bor(out, v)
        if out is True:
            return True
    return out


def logical_and(a, b):
    return _A(a) & b


def logical_or(a, b):
    return _A(a) | b


def logical_not(a):
    return ~_A(a)


def where(cond, x=None, y=None):
    if x is None:
        c = _A(cond)
        idx = _concrete_index(c if c.dt == _B else (c != 0))       # symbolic entries fork
        return tuple(SymArray(_to_obj(i)[0], _I) for i in _np.where(idx))
    if isinstance(cond, (bool, SymBool)):
        ca = _np.empty((), dtype=object)
        ca[()] = cond
    else:
        ca = _A(cond).a
    xa, xdt = _to_obj(x)
    ya, ydt = _to_obj(y)
    f = _np.frompyfunc(lambda c, p, q: SC.ite(c, p, q) if not isinstance(c, Sym) else SC.ite(c != 0, p, q), 3, 1)
    r = f(ca, xa, ya)
    dt = _result_dt(xdt, ydt, xa.ndim == 0 or ya.ndim == 0)
    if xa.ndim and ya.ndim:
        dt = _norm_dt(_np.result_type(xdt, ydt))
    elif xa.ndim:
        dt = xdt if not (ydt == _C and xdt != _C) else _C
    elif ya.ndim:
        dt = ydt if not (xdt == _C and ydt != _C) else _C
    return _wrap(r, dt)


def count_nonzero(x):
    x = _A(x)
    n = 0
    for v in x.a.reshape(-1).tolist():
        if bool(v != 0 if isinstance(v, Sym) else v):
            n += 1
    return n


def nonzero(x):
    return where(_A(x) != 0)


def isnan(x):
    return _map(lambda v: False, x, _B)


def isreal(x):
    return _map(lambda v: v.imag == 0, x, _B)


def iscomplexobj(x):
    return isinstance(x, SymArray) and x.dt == _C


def array_equal(a, b):
    a, b = _A(a), _A(b)
    if a.shape != b.shape:
        return False
    return all(a == b)


def isscalar(x):
    return isinstance(x, (int, float, complex, Sym, Fraction))


def ndim(x):
    return _A(x).ndim


def shape(x):
    return _A(x).shape


def size(x):
    return _A(x).size


def frompyfunc(func, nin, nout):
    f = _np.frompyfunc(func, nin, nout)

    def call(*args):
        arrs = [_A(a).a for a in args]
        r = f(*arrs)
        return SymArray(r, _O) if isinstance(r, _np.ndarray) else r
    return call


class errstate:
    def __init__(self, **kw):
        pass

    def __enter__(self):
        return self

    def __exit__(self, *a):
        return False


def seterr(**kw):
    return {}


def testing_assert_allclose(*a, **k):
    raise Unsupported("np.testing")


# ------------------------------------------------------------------ sparse (dense-backed, same API surface)

class sparse_matrix:
    """scipy.sparse csr/csc matrix stand-in: a dense 2-D SymArray behind the same interface"""
    __array_priority__ = 3000
    format = "csr"

    def __init__(self, arg=None, shape=None, dtype=None):
        if isinstance(arg, sparse_matrix):
            self.m = arg.m.copy()
        elif isinstance(arg, tuple) and len(arg) == 2 and builtins.all(isinstance(v, (int, _np.integer)) for v in arg):
            self.m = zeros(arg, dtype or float64)
        else:
            m = array(arg, dtype=dtype)
            if m.ndim == 1:
                m = m.reshape(1, -1)
            if m.ndim != 2:
                raise ValueError("sparse matrices are 2-D")
            self.m = m

    @property
    def shape(self):
        return self.m.shape

    @property
    def dtype(self):
        return self.m.dt

    @property
    def T(self):
        return self._new(self.m.T.copy())

    @property
    def nnz(self):
        return count_nonzero(self.m)

    def _new(self, m):
        out = type(self).__new__(type(self))
        out.m = m
        return out

    def toarray(self):
        return self.m.copy()

    todense = toarray

    def tocsr(self):
        return csr_matrix(self)

    def tocsc(self):
        return csc_matrix(self)

    def copy(self):
        return self._new(self.m.copy())

    def __deepcopy__(self, memo):
        return self._new(self.m.copy())

    def conjugate(self):
        return self._new(conjugate(self.m))

    conj = conjugate

    def transpose(self):
        return self.T

    def reshape(self, *shape, **kw):
        if len(shape) == 1 and isinstance(shape[0], (tuple, list)):
            shape = tuple(shape[0])
        return self._new(self.m.reshape(shape).copy())

    def dot(self, o):
        return self @ o

    def multiply(self, o):
        return self._new(self.m * _A(o))

    def __matmul__(self, o):
        if isinstance(o, sparse_matrix):
            return self._new(self.m @ o.m)
        o = _A(o)
        return self.m @ o

    def __rmatmul__(self, o):
        return _A(o) @ self.m

    def __mul__(self, o):
        if isinstance(o, sparse_matrix):
            return self._new(self.m @ o.m)
        if isinstance(o, SymArray):
            return self.m @ o
        return self._new(self.m * o)

    def __rmul__(self, o):
        if isinstance(o, SymArray):
            return o @ self.m
        return self._new(self.m * o)

    def __truediv__(self, o):
        return self._new(self.m / o)

    def __add__(self, o):
        if isinstance(o, sparse_matrix):
            return self._new(self.m + o.m)
        return self.m + o

    __radd__ = __add__

    def __sub__(self, o):
        if isinstance(o, sparse_matrix):
            return self._new(self.m - o.m)
        return self.m - o

    def __rsub__(self, o):
        return o - self.m

    def __neg__(self):
        return self._new(-self.m)

    def __getitem__(self, key):
        r = self.m[key]
        if isinstance(r, SymArray):
            if r.ndim == 1:
                r = r.reshape(1, -1) if not (isinstance(key, tuple) and isinstance(key[1], (int, _np.integer)) and not isinstance(key[0], (int, _np.integer))) else r.reshape(-1, 1)
            return self._new(r.copy())
        return r

    def __setitem__(self, key, v):
        self.m[key] = v

    def __ne__(self, o):
        return self._new(self.m != o)

    def __eq__(self, o):
        return self._new(self.m == o)

    __hash__ = None

    def sum(self, axis=None):
        return sum(self.m, axis=axis)

    def trace(self):
        return trace(self.m)

    def diagonal(self):
        return self.m.diagonal()

    def nonzero(self):
        return where(self.m != 0)

    def astype(self, dt):
        return self._new(self.m.astype(dt))

    def __repr__(self):
        return f"<{type(self).__name__} {self.shape}>"


class csr_matrix(sparse_matrix):
    format = "csr"


class csc_matrix(sparse_matrix):
    format = "csc"


def _sp_kron(a, b, format=None):
    a, b = _A(a), _A(b)
    cls = csc_matrix if format == "csc" else csr_matrix
    return cls(kron(a, b))


def _sp_vstack(blocks, format=None, dtype=None):
    return csr_matrix(vstack([_A(b) for b in blocks]))


def _sp_hstack(blocks, format=None, dtype=None):
    return csr_matrix(hstack([_A(b) for b in blocks]))


def _sp_eye(n, m=None, k=0, dtype=float64, format=None):
    return csr_matrix(eye(n, m, k, dtype))


def _sp_block_diag(mats, format=None):
    return csr_matrix(_block_diag(*[_A(m) for m in mats]))


def _sp_issparse(x):
    return isinstance(x, sparse_matrix)


def _block_diag(*arrs):
    arrs = [_A(a) for a in arrs]
    arrs = [a.reshape(1, -1) if a.ndim == 1 else a for a in arrs]
    n = builtins.sum(a.shape[0] for a in arrs)
    m = builtins.sum(a.shape[1] for a in arrs)
    out = zeros((n, m), _join_dts({a.dt for a in arrs}))
    r = c = 0
    for a in arrs:
        out.a[r:r + a.shape[0], c:c + a.shape[1]] = a.a
        r += a.shape[0]
        c += a.shape[1]
    return out

"""Ghost random streams for the twin import (numpy.random, scipy.stats.multinomial).

A stream is (stream-id, position).  `np.random` (module level) is the global stream 'G';
Generator(MT19937(s)) is a fresh stream whose identity is the value s, starting at 0
(two generators made from the same integer are the same stream -- MT19937's semantics).
Every draw returns opaque symbols tagged (stream-id, position, k) and advances the position.
The distributions themselves are TRUSTED (numpy / scipy generators are not verified).
"""
import types

from ..core.errors import Unsupported
from . import scalar as SC
from . import symnp as NP
from .scalar import Sym, T

DRAW_LOG = []          # (stream id, position, what, size)


def reset():
    global GLOBAL
    DRAW_LOG.clear()
    GLOBAL = GhostStream(("G",))


def _draw_symbol(sid, pos, k, what):
    def fn(env):
        import hashlib
        h = hashlib.sha256(repr((sid, pos, k, what)).encode()).digest()
        return int.from_bytes(h[:6], "big") / float(1 << 48)
    i = T.defined("opaque", ("rnd", sid, pos, k, what), (fn, ()), name=f"rnd_{'_'.join(map(str, sid))}_{pos}_{k}")
    return Sym.of_id(i)


def draw_tags(x):
    """set of (stream id, position) the scalar / array depends on"""
    out = set()
    if isinstance(x, NP.SymArray):
        for v in x.a.reshape(-1).tolist():
            out |= draw_tags(v)
        return out
    if isinstance(x, (list, tuple)):
        for v in x:
            out |= draw_tags(v)
        return out
    if isinstance(x, Sym):
        seen = set()
        stack = list(x.symbols())
        while stack:
            s = stack.pop()
            if s in seen:
                continue
            seen.add(s)
            info = T.syms[s]
            if info.kind == "def:opaque":
                key = [k for k, v in T.defs.items() if v == s]
                if key and key[0][1][0] == "rnd":
                    out.add((key[0][1][1], key[0][1][2]))
            elif info.kind.startswith("def:"):
                d = info.data
                parts = d if isinstance(d, tuple) else (d,)
                for p in parts:
                    if isinstance(p, Sym):
                        stack.extend(p.symbols())
        return out
    return out


class GhostStream:
    def __init__(self, sid):
        self.sid = tuple(sid)
        self.pos = 0

    def _draw(self, what, size):
        pos = self.pos
        self.pos += 1
        DRAW_LOG.append((self.sid, pos, what, size))
        if size is None:
            v = _draw_symbol(self.sid, pos, 0, what)
            self._bounds([v], what)
            return v
        if isinstance(size, (tuple, list)):
            shape = tuple(int(s) for s in size)
        else:
            shape = (int(size),)
        n = 1
        for s in shape:
            n *= s
        out = NP.zeros((n,), NP.float64)
        for k in range(n):
            out.a[k] = _draw_symbol(self.sid, pos, k, what)
        self._bounds(out.a.tolist(), what)
        return out.reshape(shape)

    @staticmethod
    def _bounds(vals, what):
        if what != "random":
            return
        from .paths import current
        cur = current(optional=True)
        if cur is not None:
            for v in vals:
                cur.assume_library(v >= 0, "Generator.random: 0 <= r")
                cur.assume_library(v < 1, "Generator.random: r < 1")

    # numpy Generator / RandomState API used by quara
    def random(self, size=None):
        return self._draw("random", size)

    random_sample = random

    def rand(self, *shape):
        return self._draw("random", shape if shape else None)

    def normal(self, loc=0.0, scale=1.0, size=None):
        return self._draw("normal", size) * scale + loc

    def randn(self, *shape):
        return self._draw("normal", shape if shape else None)

    def standard_normal(self, size=None):
        return self._draw("normal", size)

    def uniform(self, low=0.0, high=1.0, size=None):
        return self._draw("random", size) * (high - low) + low

    def integers(self, *a, **k):
        raise Unsupported("Generator.integers")

    def multinomial(self, n, pvals, size=None):
        return multinomial_rvs(n, pvals, random_state=self)

    def seed(self, s=None):
        self.sid = ("G", "seed", s)
        self.pos = 0


GLOBAL = GhostStream(("G",))


class MT19937:
    def __init__(self, seed=None):
        self.seed_value = seed


def Generator(bitgen):
    if isinstance(bitgen, MT19937):
        if bitgen.seed_value is None:
            raise Unsupported("unseeded MT19937")
        if isinstance(bitgen.seed_value, SeedSequence):
            return GhostStream(("ss",) + bitgen.seed_value.path)
        return GhostStream(("seed", int(bitgen.seed_value)))
    raise Unsupported("Generator of an unknown bit generator")


class SeedSequence:
    def __init__(self, entropy=None, path=None):
        self.entropy = entropy
        self.path = path if path is not None else (("root", entropy),)
        self.n_spawned = 0

    def spawn(self, n):
        out = []
        for _ in range(n):
            out.append(SeedSequence(self.entropy, self.path + (self.n_spawned,)))
            self.n_spawned += 1
        return out


def default_rng(seed=None):
    if isinstance(seed, GhostStream):
        return seed
    if isinstance(seed, SeedSequence):
        return GhostStream(("ss",) + seed.path)
    if seed is None:
        raise Unsupported("default_rng() without a seed")
    return GhostStream(("seed", int(seed)))


def make_random_module():
    m = types.ModuleType("numpy.random")

    def _g(name):
        def f(*a, **k):
            return getattr(GLOBAL, name)(*a, **k)
        return f
    for nm in ("random", "rand", "randn", "normal", "uniform", "seed", "random_sample", "multinomial", "standard_normal"):
        setattr(m, nm, _g(nm))
    m.Generator = Generator
    m.MT19937 = MT19937
    m.SeedSequence = SeedSequence
    m.default_rng = default_rng
    m.RandomState = lambda seed=None: GhostStream(("seed", int(seed)))
    m._ghost_global = lambda: GLOBAL
    return m


def multinomial_rvs(n, p, size=None, random_state=None):
    stream = random_state
    if stream is None:
        stream = GLOBAL
    if isinstance(stream, types.ModuleType):
        stream = GLOBAL
    if isinstance(stream, int):
        stream = GhostStream(("seed", stream))
    if not isinstance(stream, GhostStream):
        raise Unsupported(f"random_state {stream!r}")
    p = NP._A(p)
    m = p.shape[0]
    pos = stream.pos
    stream.pos += 1
    # the draw is logged with its arguments: which sample size, which probability vector
    DRAW_LOG.append((stream.sid, pos, "multinomial", m, n, [x for x in p.a.reshape(-1).tolist()]))
    out = NP.zeros((m,), NP.int64)
    for k in range(m):
        out.a[k] = _draw_symbol(stream.sid, pos, k, "multinomial")
    from .paths import current
    cur = current(optional=True)
    if cur is not None:
        tot = Sym.const(0)
        for k in range(m):
            cur.assume_library(out.a[k] >= 0, "multinomial.rvs: counts >= 0")
            tot = tot + out.a[k]
        cur.assume_library(tot == n, "multinomial.rvs: counts sum to n")
    return out


def make_stats_module():
    m = types.ModuleType("scipy.stats")
    mult = types.SimpleNamespace(rvs=multinomial_rvs)
    m.multinomial = mult

    class _UG:
        """scipy.stats.unitary_group: a Haar-random unitary is one ghost draw of dim*dim complex entries from the given stream
        (nothing about the matrix is assumed, not even unitarity)"""

        def rvs(self, dim, size=1, random_state=None):
            stream = random_state
            if stream is None or isinstance(stream, types.ModuleType):
                stream = GLOBAL
            if isinstance(stream, int):
                stream = GhostStream(("seed", stream))
            if not isinstance(stream, GhostStream):
                raise Unsupported(f"random_state {stream!r}")
            pos = stream.pos
            stream.pos += 1
            DRAW_LOG.append((stream.sid, pos, "unitary", dim))
            out = NP.zeros((dim, dim), NP.complex128)
            I = Sym.const(1j)
            for i in range(dim):
                for j in range(dim):
                    out.a[i, j] = _draw_symbol(stream.sid, pos, 2 * (i * dim + j), "unitary") + I * _draw_symbol(stream.sid, pos, 2 * (i * dim + j) + 1, "unitary")
            return out
    m.unitary_group = _UG()
    return m

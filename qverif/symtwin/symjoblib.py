"""joblib for the twin import: tasks run in-process, in an order the contract chooses (a model of arbitrary scheduling).

Parallel(n_jobs)(tasks) returns the results in task order whatever the execution order, like joblib.  Worker processes are NOT
modelled: tasks share the interpreter (a task that mutated shared state would be visible here, and hidden by real workers)."""
import types

ORDER = ["forward"]          # "forward" | "reverse" | "rotate"
LOG = []                     # (n_jobs, number of tasks, order executed)


def _order(n):
    idx = list(range(n))
    if ORDER[0] == "reverse":
        return idx[::-1]
    if ORDER[0] == "rotate":
        return idx[1:] + idx[:1]
    return idx


class Parallel:
    def __init__(self, n_jobs=1, verbose=0, **kw):
        self.n_jobs = n_jobs

    def __call__(self, tasks):
        tasks = list(tasks)
        order = _order(len(tasks))
        res = [None] * len(tasks)
        for i in order:
            f, a, k = tasks[i]
            res[i] = f(*a, **k)
        LOG.append((self.n_jobs, len(tasks), tuple(order)))
        return res


def delayed(f):
    def wrap(*a, **k):
        return (f, a, k)
    return wrap


def make_module():
    m = types.ModuleType("joblib")
    m.Parallel = Parallel
    m.delayed = delayed
    return m

"""The twin import: /repo's *unmodified* source files executed with `numpy` / `scipy.*`
(and one-argument `type`) bound to the symbolic model.

What the extraction drops: nothing.  Each module's text is read from the working tree,
compiled with compile(source, path, "exec") and executed in a module namespace whose
__builtins__ is a copy of the real one with `__import__` and `type` replaced.
"""
import builtins
import os
import sys
import types

from ..core.errors import Unsupported
from . import scalar as SC
from . import symnp, symlinalg, symrandom, symjoblib

REPO = os.environ.get("QVERIF_REPO", "/repo")


def _mk_module(name, attrs):
    m = types.ModuleType(name)
    m.__dict__.update(attrs)

    def _missing(attr, _name=name):
        # a library function the symbolic model does not provide is a limit of the MODEL (undecided),
        # never an AttributeError of the program under verification
        if attr.startswith("__"):
            raise AttributeError(attr)
        raise Unsupported(f"{_name}.{attr} is not modelled")
    m.__dict__["__getattr__"] = _missing
    return m


def _public(mod):
    return {k: v for k, v in vars(mod).items() if not k.startswith("__")}


class Twin:
    def __init__(self, repo=None, stubs=None):
        self.repo = repo or REPO
        self.modules = {}
        self.stubs = stubs or {}          # "quara.mod:qualname" -> replacement callable (modular verification)
        self.loaded_files = []
        # numpy facade
        np = _mk_module("numpy", _public(symnp))
        np.linalg = _mk_module("numpy.linalg", _public(symlinalg))
        np.random = symrandom.make_random_module()
        np.testing = _mk_module("numpy.testing", {})
        self.np = np
        sparse = _mk_module("scipy.sparse", dict(
            csr_matrix=symnp.csr_matrix, csc_matrix=symnp.csc_matrix, kron=symnp._sp_kron, vstack=symnp._sp_vstack,
            hstack=symnp._sp_hstack, eye=symnp._sp_eye, identity=symnp._sp_eye, block_diag=symnp._sp_block_diag,
            issparse=symnp._sp_issparse, spmatrix=symnp.sparse_matrix))
        linalg = _mk_module("scipy.linalg", _public(symlinalg))
        stats = symrandom.make_stats_module()
        sp = _mk_module("scipy", dict(sparse=sparse, linalg=linalg, stats=stats))
        self.scipy = sp
        self.special = {"numpy": np, "numpy.linalg": np.linalg, "numpy.random": np.random, "scipy": sp,
                        "scipy.sparse": sparse, "scipy.linalg": linalg, "scipy.stats": stats}
        self.special["joblib"] = symjoblib.make_module()
        self.builtins = dict(vars(builtins))
        self.builtins["__import__"] = self._import
        self.builtins["type"] = _TwinType
        self.builtins["float"] = _TwinFloat
        self.builtins["sum"] = _twin_sum
        self.builtins["abs"] = _twin_abs
        self.builtins["max"] = _twin_max
        self.builtins["min"] = _twin_min
        self.builtins["print"] = lambda *a, **k: None     # the library's console warnings are not part of any contract

    # ---- import machinery
    def _import(self, name, globals=None, locals=None, fromlist=(), level=0):
        if level > 0:
            pkg = (globals or {}).get("__package__") or ""
            parts = pkg.split(".")
            if level > 1:
                parts = parts[: -(level - 1)]
            base = ".".join(parts)
            name = base + ("." + name if name else "")
        root = name.split(".")[0]
        if root in ("numpy", "scipy"):
            if name not in self.special:
                raise Unsupported(f"import of {name} is not modelled")
            if fromlist:
                mod = self.special[name]
                for f in fromlist:
                    if f != "*" and not hasattr(mod, f):
                        sub = name + "." + f
                        if sub in self.special:
                            setattr(mod, f, self.special[sub])
                        else:
                            raise Unsupported(f"{name}.{f} is not modelled")
                return mod
            return self.special[root]
        if name == "joblib":
            return self.special["joblib"]
        if root == "quara":
            mod = self.load(name)
            if fromlist:
                for f in fromlist:
                    if f != "*" and not hasattr(mod, f):
                        try:
                            setattr(mod, f, self.load(name + "." + f))
                        except ImportError:
                            raise ImportError(f"cannot import name {f!r} from {name!r}")
                return mod
            return self.load("quara")
        return builtins.__import__(name, globals, locals, fromlist, level)

    def _path_of(self, name):
        base = os.path.join(self.repo, *name.split("."))
        if os.path.isdir(base):
            return os.path.join(base, "__init__.py"), True
        return base + ".py", False

    def load(self, name):
        if name in self.modules:
            return self.modules[name]
        # parents first
        if "." in name:
            parent = self.load(name.rsplit(".", 1)[0])
        else:
            parent = None
        path, is_pkg = self._path_of(name)
        if not os.path.exists(path):
            if is_pkg:
                src = ""
            else:
                raise ImportError(f"No module named {name!r} under {self.repo}")
        else:
            with open(path) as f:
                src = f.read()
        mod = types.ModuleType(name)
        mod.__file__ = path
        mod.__package__ = name if is_pkg else name.rsplit(".", 1)[0]
        if is_pkg:
            mod.__path__ = [os.path.dirname(path)]
        mod.__dict__["__builtins__"] = self.builtins
        self.modules[name] = mod
        if parent is not None:
            setattr(parent, name.rsplit(".", 1)[1], mod)
        import warnings
        with warnings.catch_warnings():
            warnings.simplefilter("ignore", SyntaxWarning)
            code = compile(src, path, "exec")
        self.loaded_files.append(path)
        # dataclasses (and pickle / typing helpers) look the defining module up in sys.modules at class-creation time:
        # expose the twin module under its name for the duration of its own execution only
        prev = sys.modules.get(name, None)
        sys.modules[name] = mod
        try:
            exec(code, mod.__dict__)
        except BaseException:
            del self.modules[name]
            raise
        finally:
            if prev is None:
                sys.modules.pop(name, None)
            else:
                sys.modules[name] = prev
        self._apply_stubs(name, mod)
        return mod

    def _apply_stubs(self, name, mod):
        for target, repl in self.stubs.items():
            m, _, qual = target.partition(":")
            if m != name:
                continue
            obj = mod
            parts = qual.split(".")
            for p in parts[:-1]:
                obj = getattr(obj, p)
            setattr(obj, parts[-1], repl)

    def get(self, target):
        m, _, qual = target.partition(":")
        obj = self.load(m)
        for p in qual.split("."):
            obj = getattr(obj, p)
        return obj


# ------------------------------------------------------------------ builtins seen by twin modules

class _TwinTypeMeta(type):
    def __instancecheck__(cls, inst):
        return isinstance(inst, type)

    def __subclasscheck__(cls, sub):
        return issubclass(sub, type)


class _TwinType(metaclass=_TwinTypeMeta):
    """`type` inside twin modules: type(sym_scalar) is np.float64 / np.complex128; everything else is builtins.type"""

    def __new__(cls, *args, **kw):
        if len(args) == 1 and not kw:
            x = args[0]
            if isinstance(x, SC.Sym):
                if x.has_i():
                    return symnp.complex128
                return symnp.float64
            if isinstance(x, SC.SymBool):
                return bool
            if type(x) is float:
                return _TwinFloat          # so that `type(x) is float` holds inside twin modules, where the name float is bound to _TwinFloat
            return type(x)
        return type(*args, **kw)


class _TwinFloatMeta(type):
    def __instancecheck__(cls, inst):
        return isinstance(inst, float) or (isinstance(inst, SC.Sym) and not inst.has_i())

    def __eq__(cls, other):
        return other is float or other is cls

    def __hash__(cls):
        return hash(float)


class _TwinFloat(metaclass=_TwinFloatMeta):
    def __new__(cls, x=0.0):
        if isinstance(x, SC.Sym):
            if x.has_i():
                raise TypeError("can't convert complex to float")
            return x
        if isinstance(x, symnp.SymArray):
            v = x.a.reshape(-1)[0]
            return v
        return float(x)


def _twin_sum(it, start=0):
    tot = start
    for v in it:
        tot = tot + v
    return tot


def _twin_abs(x):
    if isinstance(x, (SC.Sym, symnp.SymArray)):
        return symnp.absolute(x)
    return abs(x)


def _twin_max(*args, **kw):
    if len(args) == 1:
        args = list(args[0])
    if any(isinstance(a, SC.Sym) for a in args) and not kw:
        out = args[0]
        for v in args[1:]:
            out = SC.ite(SC.Sym.const(out) < v, v, out)
        return out
    return max(*args, **kw)


def _twin_min(*args, **kw):
    if len(args) == 1:
        args = list(args[0])
    if any(isinstance(a, SC.Sym) for a in args) and not kw:
        out = args[0]
        for v in args[1:]:
            out = SC.ite(SC.Sym.const(v) < out, v, out)
        return out
    return min(*args, **kw)

"""Path management and z3 translation for E2."""
import z3

from ..core.errors import Undecided, Unsupported
from ..core.paths import PathManager, DeadPath  # noqa
from . import scalar as SC
from .scalar import Sym, SymBool, T

_current = None


def current(optional=False):
    if _current is None and not optional:
        raise Unsupported("a symbolic boolean was used in a branch outside a verification run")
    return _current


def set_current(p):
    global _current
    _current = p


class Z3Tr:
    """Sym / SymBool -> z3 (reals).  Collects definitional constraints of the symbols used."""

    def __init__(self, abstract=False):
        self.vars = {}
        self.defs_done = set()
        self.side = []          # definitional constraints (always true)
        self.abstract = abstract
        self.abs_vars = {}      # normalised polynomial key -> fresh real (term abstraction, sound for PROVING only)

    def var(self, sid):
        v = self.vars.get(sid)
        if v is None:
            info = T.syms[sid]
            v = z3.Real(info.name)
            self.vars[sid] = v
            self._define(sid, info, v)
        return v

    def _define(self, sid, info, v):
        if info.kind == "root":
            self.side.append(z3.And(v * v == info.data, v > 0))
        elif info.kind == "i":
            raise Unsupported("imaginary unit inside a real-valued solver term")
        elif info.kind.startswith("def:"):
            kind = info.kind[4:]
            d = info.data
            if kind == "ite":
                c, a, b = d
                self.side.append(v == z3.If(self.bool(c), self.sym(a), self.sym(b)))
            elif kind == "sqrt":
                p = self.sym(d)
                self.side.append(z3.And(v * v == p, v >= 0))
            elif kind == "const":
                self.side.append(v == z3.RealVal(repr(d)) if isinstance(d, (int, float)) else v == v)
            else:
                pass    # opaque: free real (hash-consed: equal arguments => same symbol)

    def poly(self, p):
        if not p:
            return z3.RealVal(0)
        if self.abstract:
            return self._poly_abstract(p)
        return self._poly_exact(p)

    def _is_def(self, sid):
        return T.syms[sid].kind.startswith("def:")

    def _poly_abstract(self, p):
        """p = (terms that are a constant times ONE defined ite/sqrt symbol) + rest;  the non-constant `rest`
        becomes q * t_key with a fresh real t_key (key = rest normalised by its leading coefficient).
        Every model of the original formula extends to a model of the abstraction (t := value of rest),
        so validity of the abstracted VC implies validity of the original: sound for PROVING only."""
        lin, rest = [], {}
        for mono, c in p.items():
            if len(mono) == 1 and mono[0][1] == 1 and T.syms[mono[0][0]].kind in ("def:ite", "def:sqrt"):
                lin.append(z3.RealVal(str(c)) * self.var(mono[0][0]))
            else:
                rest[mono] = c
        terms = list(lin)
        if rest:
            if len(rest) == 1 and () in rest:
                terms.append(z3.RealVal(str(rest[()])))
            else:
                const = rest.pop((), None)
                lead_m = min(rest)
                lead_c = rest[lead_m]
                key = frozenset((m, c / lead_c) for m, c in rest.items())
                t = self.abs_vars.get(key)
                if t is None:
                    if len(rest) == 1 and len(lead_m) == 1 and lead_m[0][1] == 1:
                        t = self.var(lead_m[0][0])       # a single symbol: keep it
                    else:
                        t = z3.Real(f"abs!{len(self.abs_vars)}")
                    self.abs_vars[key] = t
                terms.append(z3.RealVal(str(lead_c)) * t)
                if const is not None:
                    terms.append(z3.RealVal(str(const)))
        return terms[0] if len(terms) == 1 else z3.Sum(terms)

    def _poly_exact(self, p):
        terms = []
        for m, c in p.items():
            t = None
            for s, e in m:
                v = self.var(s)
                for _ in range(e):
                    t = v if t is None else t * v
            cv = z3.RealVal(str(c))
            if t is None:
                terms.append(cv)
            elif c == 1:
                terms.append(t)
            else:
                terms.append(cv * t)
        return terms[0] if len(terms) == 1 else z3.Sum(terms)

    def sym(self, x):
        if x.has_i():
            raise Unsupported("complex scalar in a real-valued solver term")
        n = self.poly(x.n)
        if x.d is None:
            return n
        return n / self.poly(x.d)

    def bool(self, b):
        if b is True or b is False:
            return z3.BoolVal(b)
        if b.tag == "atom":
            x = b.b
            if b.a == "==":
                if x.has_i():
                    return z3.And(self.poly(x.real.n) == 0, self.poly(x.imag.n) == 0)
                return self.poly(x.n) == 0
            t = self.poly(x.n)
            return t < 0 if b.a == "<" else t <= 0
        if b.tag == "and":
            return z3.And([self.bool(x) for x in b.a])
        if b.tag == "or":
            return z3.Or([self.bool(x) for x in b.a])
        if b.tag == "not":
            return z3.Not(self.bool(b.a))
        if b.tag == "opaque":
            return z3.Bool(b.a)
        raise Unsupported(b.tag)


class SymPaths:
    """wraps core.PathManager for symbolic booleans"""

    def __init__(self, requires=(), max_paths=256):
        self.tr = Z3Tr()
        self.requires = list(requires)            # SymBool / bool
        base = [self.tr.bool(r) for r in self.requires]
        self.pm = PathManager(base, max_paths=max_paths)
        self.side_conditions = []                 # denominators assumed non-zero
        self._n_side = 0
        self.decisions_log = []
        self.library = []                         # (SymBool, label): ASSUMED library contracts used on this path
        self.eigh_calls = []

    def has_next(self):
        return self.pm.has_next()

    def start_path(self):
        self.pm.start_path()
        self._n_side = 0
        self.side_conditions = []
        self.decisions_log = []
        self.library = []
        self.eigh_calls = []
        self._sign_cache = {}
        self._sync_side()

    def _sync_side(self):
        while self._n_side < len(self.tr.side):
            self.pm.solver.add(self.tr.side[self._n_side])
            self._n_side += 1

    def decide(self, b):
        if isinstance(b, bool):
            return b
        z = self.tr.bool(b)
        self._sync_side()
        d = self.pm.branch(z)
        self.decisions_log.append((b, d))
        return d

    def assume(self, b):
        if b is True:
            return
        z = self.tr.bool(b)
        self._sync_side()
        self.pm.assume(z)

    def assume_library(self, b, label):
        if b is True:
            return
        self.library.append((b, label))
        self.assume(b)

    def register_eigh(self, m, w, V):
        self.eigh_calls.append((m, w, V))

    def sign_of(self, x):
        """+1 / -1 when the hypotheses of the current path entail x > 0 / x < 0, else 0 (cheap, cached per path)"""
        if x.has_i():
            return 0
        if x.is_const_field():
            r = SC.compare("<", x)
            return -1 if r is True else (1 if SC.compare("<", -x) is True else 0)
        key = (x.key(), len(self.pm.pc))
        cache = self.__dict__.setdefault("_sign_cache", {})
        if key in cache:
            return cache[key]
        z = self.tr.sym(x)
        self._sync_side()
        out = 0
        self.pm.solver.push()
        self.pm.solver.add(z <= 0)
        if self.pm.solver.check() == z3.unsat:
            out = 1
        self.pm.solver.pop()
        if out == 0:
            self.pm.solver.push()
            self.pm.solver.add(z >= 0)
            if self.pm.solver.check() == z3.unsat:
                out = -1
            self.pm.solver.pop()
        cache[key] = out
        return out

    def side_condition(self, den):
        self.side_conditions.append(den)

    def hyps(self):
        """all hypotheses of the current path as z3"""
        out = list(self.pm.base) + list(self.pm.pc) + list(self.tr.side)
        for d in self.side_conditions:
            if not d.has_i():
                out.append(self.tr.sym(d) != 0)
        out += list(self.tr.side)
        return out

    def path_condition_syms(self):
        return list(self.decisions_log)

"""Path management and z3 translation for E2."""
import z3

from ..core.errors import Undecided, Unsupported
from ..core.paths import PathManager, DeadPath  # noqa
from . import scalar as SC
from .scalar import Sym, SymBool, T

_current = None


def current(optional=False):
    if _current is None and not optional:
        raise Unsupported("a symbolic boolean was used in a branch outside a verification run")
    return _current


def set_current(p):
    global _current
    _current = p


class Z3Tr:
    """Sym / SymBool -> z3 (reals).  Collects definitional constraints of the symbols used."""

    def __init__(self, abstract=False, linearize=False):
        self.linearize = linearize   # every nonlinear monomial becomes one fresh real: an LRA abstraction (sound for proving)
        self.mono_vars = {}
        self.vars = {}
        self.defs_done = set()
        self.side = []          # definitional constraints (always true)
        self.abstract = abstract
        self.abs_vars = {}      # normalised polynomial key -> fresh real (term abstraction, sound for PROVING only)

    def var(self, sid):
        v = self.vars.get(sid)
        if v is None:
            info = T.syms[sid]
            v = z3.Real(info.name)
            self.vars[sid] = v
            self._define(sid, info, v)
        return v

    def _define(self, sid, info, v):
        if info.kind == "root":
            if self.linearize:
                import math
                lo = int(math.isqrt(info.data * 10 ** 12))
                self.side.append(z3.And(v * (10 ** 6) >= lo, v * (10 ** 6) <= lo + 1))
            else:
                self.side.append(z3.And(v * v == info.data, v > 0))
        elif info.kind == "i":
            raise Unsupported("imaginary unit inside a real-valued solver term")
        elif info.kind.startswith("def:"):
            kind = info.kind[4:]
            d = info.data
            if kind == "ite":
                c, a, b = d
                self.side.append(v == z3.If(self.bool(c), self.sym(a), self.sym(b)))
            elif kind == "sqrt":
                if self.linearize:
                    self.side.append(v >= 0)
                else:
                    p = self.sym(d)
                    self.side.append(z3.And(v * v == p, v >= 0))
            elif kind == "const":
                self.side.append(v == z3.RealVal(repr(d)) if isinstance(d, (int, float)) else v == v)
            else:
                pass    # opaque: free real (hash-consed: equal arguments => same symbol)

    def poly(self, p):
        if not p:
            return z3.RealVal(0)
        if self.abstract:
            return self._poly_abstract(p)
        return self._poly_exact(p)

    def _is_def(self, sid):
        return T.syms[sid].kind.startswith("def:")

    def _poly_abstract(self, p):
        """p = (terms that are a constant times ONE defined ite/sqrt symbol) + rest;  the non-constant `rest`
        becomes q * t_key with a fresh real t_key (key = rest normalised by its leading coefficient).
        Every model of the original formula extends to a model of the abstraction (t := value of rest),
        so validity of the abstracted VC implies validity of the original: sound for PROVING only."""
        lin, rest = [], {}
        for mono, c in p.items():
            if len(mono) == 1 and mono[0][1] == 1 and T.syms[mono[0][0]].kind in ("def:ite", "def:sqrt"):
                lin.append(z3.RealVal(str(c)) * self.var(mono[0][0]))
            else:
                rest[mono] = c
        terms = list(lin)
        if rest:
            if len(rest) == 1 and () in rest:
                terms.append(z3.RealVal(str(rest[()])))
            else:
                const = rest.pop((), None)
                lead_m = min(rest)
                lead_c = rest[lead_m]
                key = frozenset((m, c / lead_c) for m, c in rest.items())
                t = self.abs_vars.get(key)
                if t is None:
                    if len(rest) == 1 and len(lead_m) == 1 and lead_m[0][1] == 1:
                        t = self.var(lead_m[0][0])       # a single symbol: keep it
                    else:
                        t = z3.Real(f"abs!{len(self.abs_vars)}")
                    self.abs_vars[key] = t
                terms.append(z3.RealVal(str(lead_c)) * t)
                if const is not None:
                    terms.append(z3.RealVal(str(const)))
        return terms[0] if len(terms) == 1 else z3.Sum(terms)

    def _poly_linear(self, p):
        terms = []
        for m, c in p.items():
            cv = z3.RealVal(str(c))
            if not m:
                terms.append(cv)
                continue
            if len(m) == 1 and m[0][1] == 1:
                t = self.var(m[0][0])
            else:
                t = self.mono_vars.get(m)
                if t is None:
                    t = z3.Real(f"mono!{len(self.mono_vars)}")
                    self.mono_vars[m] = t
                    for sid, _ in m:
                        self.var(sid)          # pull in definitions of the symbols involved
            terms.append(t if c == 1 else cv * t)
        return terms[0] if len(terms) == 1 else z3.Sum(terms)

    def _poly_exact(self, p):
        if self.linearize:
            return self._poly_linear(p)
        terms = []
        for m, c in p.items():
            t = None
            for s, e in m:
                v = self.var(s)
                for _ in range(e):
                    t = v if t is None else t * v
            cv = z3.RealVal(str(c))
            if t is None:
                terms.append(cv)
            elif c == 1:
                terms.append(t)
            else:
                terms.append(cv * t)
        return terms[0] if len(terms) == 1 else z3.Sum(terms)

    def sym(self, x):
        if x.has_i():
            raise Unsupported("complex scalar in a real-valued solver term")
        n = self.poly(x.n)
        if x.d is None:
            return n
        return n / self.poly(x.d)

    def bool(self, b):
        if b is True or b is False:
            return z3.BoolVal(b)
        if b.tag == "atom":
            x = b.b
            if b.a == "==":
                if x.has_i():
                    return z3.And(self.poly(x.real.n) == 0, self.poly(x.imag.n) == 0)
                return self.poly(x.n) == 0
            t = self.poly(x.n)
            return t < 0 if b.a == "<" else t <= 0
        if b.tag == "and":
            return z3.And([self.bool(x) for x in b.a])
        if b.tag == "or":
            return z3.Or([self.bool(x) for x in b.a])
        if b.tag == "not":
            return z3.Not(self.bool(b.a))
        if b.tag == "opaque":
            return z3.Bool(b.a)
        raise Unsupported(b.tag)


class SymPaths:
    """wraps core.PathManager for symbolic booleans"""

    def __init__(self, requires=(), max_paths=256):
        self.tr = Z3Tr()
        self.requires = list(requires)            # SymBool / bool
        base = [self.tr.bool(r) for r in self.requires]
        self.pm = PathManager(base, max_paths=max_paths, feas_timeout_ms=1500)
        self.side_conditions = []                 # denominators assumed non-zero
        self._n_side = 0
        self.decisions_log = []
        self.library = []                         # (SymBool, label): ASSUMED library contracts used on this path
        self.eigh_calls = []

    def has_next(self):
        return self.pm.has_next()

    def start_path(self):
        self.pm.start_path()
        self._n_side = 0
        self.side_conditions = []
        self.decisions_log = []
        self.library = []
        self.eigh_calls = []
        self._sign_cache = {}
        self._ent_cache = {}
        self.lin_tr = Z3Tr(linearize=True)
        self.lin = z3.Solver()
        self.lin.set("timeout", 1000)
        self._n_lin_side = 0
        for r in self.requires:
            if r is not True:
                try:
                    self.lin.add(self.lin_tr.bool(r))
                except Unsupported:
                    pass
        self._sync_side()

    def _sync_side(self):
        while self._n_side < len(self.tr.side):
            self.pm.solver.add(self.tr.side[self._n_side])
            self._n_side += 1

    def decide(self, b):
        if isinstance(b, bool):
            return b
        r = self._syntactic(b)       # implied by the bounds in requires / earlier decisions: no fork, no solver
        if r is None:
            r = self._lin_entailed(b)
        if r is not None:
            return r
        z = self.tr.bool(b)
        self._sync_side()
        import os, time as _t
        _t0 = _t.time()
        d = self.pm.branch(z)
        if os.environ.get("QVERIF_TRACE") and _t.time() - _t0 > 0.3:
            print("SLOW DECIDE", round(_t.time() - _t0, 2), repr(b)[:600], flush=True)
        self.decisions_log.append((b, d))
        self._lin_add(b if d else SC.bnot(b))
        self._bounds_at = None
        return d

    def assume(self, b):
        if b is True:
            return
        z = self.tr.bool(b)
        self._sync_side()
        self.pm.assume(z)
        self._lin_add(b)

    def _lin_add(self, b):
        try:
            self.lin.add(self.lin_tr.bool(b))
        except Unsupported:
            pass

    def _lin_entailed(self, b):
        """decide b in the LRA abstraction (nonlinear monomials as fresh reals): sound, fast, deterministic"""
        try:
            z = self.lin_tr.bool(b)
        except Unsupported:
            return None
        while self._n_lin_side < len(self.lin_tr.side):
            self.lin.add(self.lin_tr.side[self._n_lin_side])
            self._n_lin_side += 1
        self.lin.push()
        self.lin.add(z3.Not(z))
        r = self.lin.check()
        self.lin.pop()
        if r == z3.unsat:
            return True
        self.lin.push()
        self.lin.add(z)
        r = self.lin.check()
        self.lin.pop()
        if r == z3.unsat:
            return False
        return None

    def assume_library(self, b, label):
        if b is True:
            return
        self.library.append((b, label))
        self.assume(b)

    def register_eigh(self, m, w, V):
        self.eigh_calls.append((m, w, V))

    def entailed(self, b):
        """True / False when the hypotheses of the current path decide the symbolic boolean b, else None"""
        if isinstance(b, bool):
            return b
        key = (b.key(), len(self.pm.pc))
        cache = self.__dict__.setdefault("_ent_cache", {})
        if key in cache:
            return cache[key]
        out = self._syntactic(b)
        if out is None:
            out = self._lin_entailed(b)
        cache[key] = out
        return out

    # ---- syntactic bounds: hypotheses of the form  P >= c / P <= c  (P a polynomial normalised by its leading coefficient)
    @staticmethod
    def _norm_atom(op, x):
        """x op 0  ->  (key of normalised non-constant part, kind, constant):  P kind c  with kind in '<','<=','>','>=','=='"""
        if x.d is not None or x.has_i():
            return None
        n = dict(x.n)
        c0 = n.pop((), 0)
        if not n:
            return None
        lead = min(n)
        lc = n[lead]
        key = frozenset((m, c / lc) for m, c in n.items())
        c = -c0 / lc
        if op == "==":
            return key, "==", c
        if lc > 0:
            return key, op, c
        return key, {"<": ">", "<=": ">="}[op], c

    def _bounds(self):
        n = (len(self.pm.pc),)
        if self.__dict__.get("_bounds_at") == n:
            return self._bounds_val
        lo, hi = {}, {}       # key -> (value, strict)

        def add(b, positive=True):
            if isinstance(b, bool):
                return
            if b.tag == "not":
                return add(b.a, not positive)
            if b.tag == "and" and positive:
                for x in b.a:
                    add(x, True)
                return
            if b.tag == "or" and not positive:
                for x in b.a:
                    add(x, False)
                return
            if b.tag != "atom":
                return
            na = self._norm_atom(b.a, b.b)
            if na is None:
                return
            key, kind, c = na
            if not positive:
                if kind == "==":
                    return
                kind = {"<": ">=", "<=": ">", ">": "<=", ">=": "<"}[kind]
            if kind in ("<", "<=", "=="):
                cur = hi.get(key)
                cand = (c, kind == "<")
                if cur is None or cand[0] < cur[0] or (cand[0] == cur[0] and cand[1]):
                    hi[key] = cand
            if kind in (">", ">=", "=="):
                cur = lo.get(key)
                cand = (c, kind == ">")
                if cur is None or cand[0] > cur[0] or (cand[0] == cur[0] and cand[1]):
                    lo[key] = cand
        for r in self.requires:
            add(r)
        for b, d in self.decisions_log:
            add(b, d)
        for b, _ in self.library:
            add(b)
        self._bounds_at, self._bounds_val = n, (lo, hi)
        return lo, hi

    def _syntactic(self, b):
        """three-valued evaluation of b against the bounds known from the hypotheses"""
        if isinstance(b, bool):
            return b
        if b.tag == "not":
            r = self._syntactic(b.a)
            return None if r is None else (not r)
        if b.tag == "and":
            rs = [self._syntactic(x) for x in b.a]
            if any(r is False for r in rs):
                return False
            return True if all(r is True for r in rs) else None
        if b.tag == "or":
            rs = [self._syntactic(x) for x in b.a]
            if any(r is True for r in rs):
                return True
            return False if all(r is False for r in rs) else None
        if b.tag != "atom":
            return None
        na = self._norm_atom(b.a, b.b)
        if na is None:
            return None
        key, kind, c = na
        lo, hi = self._bounds()
        l, h = lo.get(key), hi.get(key)
        if kind in ("<", "<="):
            if h is not None and (h[0] < c or (h[0] == c and (h[1] or kind == "<="))):
                return True
            if l is not None and (l[0] > c or (l[0] == c and (l[1] or kind == "<"))):
                return False
        elif kind in (">", ">="):
            if l is not None and (l[0] > c or (l[0] == c and (l[1] or kind == ">="))):
                return True
            if h is not None and (h[0] < c or (h[0] == c and (h[1] or kind == ">"))):
                return False
        else:
            if (l is not None and (l[0] > c or (l[0] == c and l[1]))) or (h is not None and (h[0] < c or (h[0] == c and h[1]))):
                return False
        return None

    def _is_linear_bool(self, b):
        if isinstance(b, bool):
            return True
        if b.tag == "atom":
            x = b.b
            if x.d is not None:
                return False
            for m in x.n:
                if sum(e for _, e in m) > 1:
                    return False
                for sid, _ in m:
                    if T.syms[sid].kind.startswith("def:"):
                        return False
            return True
        if b.tag in ("and", "or"):
            return all(self._is_linear_bool(x) for x in b.a)
        if b.tag == "not":
            return self._is_linear_bool(b.a)
        return False

    def _cheap_unsat(self, extra):
        """deterministically bounded (rlimit) unsat test on the path solver; 'unknown' counts as not unsat"""
        s = self.pm.solver
        s.push()
        s.add(extra)
        s.set("rlimit", 300000)
        s.set("timeout", 1500)
        try:
            r = s.check()
        finally:
            s.set("rlimit", 0)
            s.set("timeout", self.pm.feas_timeout_ms)
            s.pop()
        return r == z3.unsat

    def _syms_of_bool(self, b):
        out = set()
        stack = [b]
        while stack:
            x = stack.pop()
            if isinstance(x, bool):
                continue
            if x.tag == "atom":
                for sid in x.b.symbols():
                    info = T.syms[sid]
                    if info.kind == "def:ite":
                        c, a, bb = info.data
                        stack.append(c)
                        out |= a.symbols() | bb.symbols()
                    elif info.kind == "def:sqrt":
                        out |= info.data.symbols()
                    else:
                        out.add(sid)
            elif x.tag in ("and", "or"):
                stack.extend(x.a)
            elif x.tag == "not":
                stack.append(x.a)
        return out

    def _hyp_syms(self):
        """symbols constrained by a hypothesis that mentions at least two symbols, or by a path decision / library fact"""
        n = (len(self.pm.pc), len(self.library))
        if self.__dict__.get("_hyp_syms_at") == n:
            return self._hyp_syms_val
        out = set()
        for r in self.requires:
            if r is True:
                continue
            ss = self._syms_of_bool(r)
            if len(ss) >= 2:
                out |= ss
        for b, _ in self.decisions_log:
            out |= self._syms_of_bool(b)
        for b, _ in self.library:
            out |= self._syms_of_bool(b)
        self._hyp_syms_at, self._hyp_syms_val = n, out
        return out

    def sign_of(self, x):
        """+1 / -1 when the hypotheses of the current path entail x > 0 / x < 0, else 0 (cheap, cached per path)"""
        if x.has_i():
            return 0
        if x.is_const_field():
            r = SC.compare("<", x)
            return -1 if r is True else (1 if SC.compare("<", -x) is True else 0)
        key = (x.key(), len(self.pm.pc))
        cache = self.__dict__.setdefault("_sign_cache", {})
        if key in cache:
            return cache[key]
        out = 0
        pos = self._syntactic(SC.compare("<", -x))        # x > 0 ?
        if pos is True:
            out = 1
        elif self._syntactic(SC.compare("<", x)) is True:
            out = -1
        else:
            r = self._lin_entailed(SC.compare("<", -x))
            if r is True:
                out = 1
            elif self._lin_entailed(SC.compare("<", x)) is True:
                out = -1
        cache[key] = out
        return out

    def side_condition(self, den):
        self.side_conditions.append(den)

    def hyps(self):
        """all hypotheses of the current path as z3"""
        out = list(self.pm.base) + list(self.pm.pc) + list(self.tr.side)
        for d in self.side_conditions:
            if not d.has_i():
                out.append(self.tr.sym(d) != 0)
        out += list(self.tr.side)
        return out

    def path_condition_syms(self):
        return list(self.decisions_log)

import argparse
import os
import shutil
import sys
import tempfile

VERIF = os.path.dirname(os.path.dirname(os.path.abspath(__file__)))
sys.path.insert(0, VERIF)


def main():
    ap = argparse.ArgumentParser(prog="vcheck")
    ap.add_argument("what", help="property id (C01..C20) | replay | selftest")
    ap.add_argument("path", nargs="?")
    ap.add_argument("--tier", default=os.environ.get("VERIF_TIER", "quick"), choices=["quick", "thorough"])
    ap.add_argument("--seed", type=int, default=int(os.environ.get("VERIF_SEED", "0") or 0))
    args = ap.parse_args()
    scratch = tempfile.mkdtemp(prefix="qverif-")
    os.environ["QVERIF_SCRATCH"] = scratch
    try:
        if args.what == "replay":
            from qverif.core.replay import replay_file
            return replay_file(args.path)
        if args.what == "selftest":
            from qverif.core.selftest import run_selftest
            return run_selftest()
        from qverif.core.runner import check_property
        return check_property(args.what, args.tier, args.seed)
    finally:
        shutil.rmtree(scratch, ignore_errors=True)


if __name__ == "__main__":
    sys.exit(main())

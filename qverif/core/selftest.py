"""./vcheck selftest: the checks must fire on deliberately broken code.  Each entry of selftest.json is one textual change to a scratch copy of
/repo (made under the system temp dir, removed afterwards); the named property's quick check must exit 1 there (and name the expected obligation)."""
import json
import os
import shutil
import subprocess
import sys
import tempfile

from .runner import VERIF


def run_selftest():
    entries = json.load(open(os.path.join(VERIF, "selftest.json")))
    repo = os.environ.get("QVERIF_REPO") or "/repo"
    bad = 0
    for m in entries:
        d = tempfile.mkdtemp(prefix="qverif-selftest-")
        try:
            subprocess.run(["rsync", "-a", "--exclude", ".git", repo + "/", d + "/"], check=True)
            path = os.path.join(d, m["file"])
            s = open(path, newline="").read()
            if m["old"] not in s:
                print(f"SELFTEST-SKIP {m['property']}: anchor not found in {m['file']} (the source moved on)")
                continue
            open(path, "w", newline="").write(s.replace(m["old"], m["new"], 1))
            env = dict(os.environ, QVERIF_REPO=d)
            r = subprocess.run([sys.executable, "-m", "qverif", m["property"], "--tier", "quick"], cwd=VERIF, env=env, capture_output=True, text=True)
            hit = r.returncode == 1 and "VIOLATION" in r.stdout and (m.get("expect", "") in r.stdout)
            print(f"{'ok  ' if hit else 'MISS'} {m['property']} {m['file']}: `{m['old'].strip()[:60]}` -> `{m['new'].strip()[:60]}`  exit={r.returncode}")
            bad += 0 if hit else 1
        finally:
            shutil.rmtree(d, ignore_errors=True)
    print(f"selftest: {len(entries) - bad}/{len(entries)} deliberate defects reported")
    return 0 if bad == 0 else 3

"""Solver bridge: z3 Python API first, then the same SMT-LIB text to cvc5 / z3 4.8 CLIs.

prove(hyps, goal) checks  hyps /\\ not goal.
  'unsat'   -> VC valid (discharged)
  'sat'     -> counter-model (a z3 model when z3 found it, else a dict parsed from cvc5)
  'unknown' -> undecided; never mapped to a violation.
"""
import os
import subprocess
import tempfile
import time

import z3

Z3_VERSION = "z3-" + z3.get_version_string()


def _cli_check(smt_text, timeout_s, which):
    if which == "cvc5":
        cmd = ["/usr/bin/cvc5", "--lang=smt2", f"--tlimit={int(timeout_s * 1000)}", "--produce-models"]
    else:
        cmd = ["/usr/bin/z3", f"-T:{int(timeout_s)}", "-smt2"]
    fd, path = tempfile.mkstemp(suffix=".smt2", dir=os.environ.get("QVERIF_SCRATCH"))
    try:
        with os.fdopen(fd, "w") as f:
            f.write(smt_text)
        try:
            out = subprocess.run(cmd + [path], capture_output=True, text=True, timeout=timeout_s + 5).stdout
        except subprocess.TimeoutExpired:
            return "unknown"
        first = out.strip().splitlines()[0] if out.strip() else "unknown"
        if first in ("sat", "unsat"):
            return first
        return "unknown"
    finally:
        try:
            os.unlink(path)
        except OSError:
            pass


def to_smt2(hyps, goal_neg):
    s = z3.Solver()
    for h in hyps:
        s.add(h)
    s.add(goal_neg)
    return s.to_smt2()


_MUL_UF = {}


def _abstract_products(exprs):
    """replace every nonlinear real/int product, division by a non-numeral and power by an application of an
    uninterpreted function.  Over-approximation: UNSAT of the abstraction implies UNSAT of the original (sound for proving only)."""
    cache = {}
    found = [False]

    def uf(kind, sorts, rng):
        key = (kind, tuple(str(x) for x in sorts), str(rng))
        if key not in _MUL_UF:
            _MUL_UF[key] = z3.Function(f"{kind}!abs{len(_MUL_UF)}", *(list(sorts) + [rng]))
        return _MUL_UF[key]

    def rec(e):
        k = e.get_id()
        if k in cache:
            return cache[k]
        if z3.is_quantifier(e) or not z3.is_app(e):
            cache[k] = e
            return e
        args = [rec(a) for a in e.children()]
        dk = e.decl().kind()
        out = None
        if dk == z3.Z3_OP_MUL:
            nonnum = [a for a in args if not (z3.is_int_value(a) or z3.is_rational_value(a))]
            if len(nonnum) >= 2:
                found[0] = True
                nums = [a for a in args if (z3.is_int_value(a) or z3.is_rational_value(a))]
                acc = nonnum[0]
                for a in nonnum[1:]:
                    acc = uf("mul", [acc.sort(), a.sort()], e.sort())(acc, a)
                for a in nums:
                    acc = a * acc
                out = acc
        elif dk in (z3.Z3_OP_DIV, z3.Z3_OP_IDIV, z3.Z3_OP_MOD, z3.Z3_OP_POWER) and not (z3.is_int_value(args[1]) or z3.is_rational_value(args[1])):
            found[0] = True
            out = uf({z3.Z3_OP_DIV: "div", z3.Z3_OP_IDIV: "idiv", z3.Z3_OP_MOD: "mod", z3.Z3_OP_POWER: "pow"}[dk], [a.sort() for a in args], e.sort())(*args)
        if out is None:
            out = e.decl()(*args) if args else e
        cache[k] = out
        return out
    return [rec(x) for x in exprs], found[0]


def prove(hyps, goal, timeout_s=10.0, want_model=True, fallback=True):
    """returns dict(status, model, backend, seconds, smt)"""
    t0 = time.time()
    try:
        abst, nonlinear = _abstract_products(list(hyps) + [z3.Not(goal)])
    except Exception:
        abst, nonlinear = None, False
    if nonlinear:
        sa = z3.Solver()
        sa.set("timeout", int(min(timeout_s, 4.0) * 1000))
        for h in abst:
            sa.add(h)
        if sa.check() == z3.unsat:
            return dict(status="unsat", model=None, backend=Z3_VERSION + " (products abstracted to uninterpreted functions)", seconds=time.time() - t0, smt="")
    s = z3.Solver()
    s.set("timeout", int(timeout_s * 1000))
    for h in hyps:
        s.add(h)
    s.add(z3.Not(goal))
    r = s.check()
    smt = ""
    if r == z3.unsat:
        return dict(status="unsat", model=None, backend=Z3_VERSION, seconds=time.time() - t0, smt=smt)
    if r == z3.sat:
        return dict(status="sat", model=s.model(), backend=Z3_VERSION, seconds=time.time() - t0, smt=smt)
    if fallback:
        try:
            smt = s.to_smt2()
        except Exception:
            smt = ""
        if smt:
            for which in ("cvc5",):
                rr = _cli_check(smt, min(timeout_s, 6.0), which)
                if rr == "unsat":
                    return dict(status="unsat", model=None, backend=which, seconds=time.time() - t0, smt="")
                if rr == "sat":
                    # no model object: caller treats as 'sat without model'
                    return dict(status="sat", model=None, backend=which, seconds=time.time() - t0, smt="")
    return dict(status="unknown", model=None, backend=Z3_VERSION, seconds=time.time() - t0,
                smt="", reason=s.reason_unknown())


def is_sat(constraints, timeout_s=5.0):
    s = z3.Solver()
    s.set("timeout", int(timeout_s * 1000))
    for c in constraints:
        s.add(c)
    r = s.check()
    if r == z3.sat:
        return "sat", s.model()
    if r == z3.unsat:
        return "unsat", None
    return "unknown", None


def model_value(model, expr):
    """python value (int / Fraction / bool / str) of expr in model, with completion"""
    from fractions import Fraction
    v = model.eval(expr, model_completion=True)
    if z3.is_int_value(v):
        return v.as_long()
    if z3.is_rational_value(v):
        return Fraction(v.numerator_as_long(), v.denominator_as_long())
    if z3.is_algebraic_value(v):
        a = v.approx(30)
        return Fraction(a.numerator_as_long(), a.denominator_as_long())
    if z3.is_true(v):
        return True
    if z3.is_false(v):
        return False
    return str(v)

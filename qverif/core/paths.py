"""Exhaustive depth-first path exploration by re-execution (shared by E1 and E2).

The program under verification is run from the start once per path.  Every
data-dependent decision asks `PathManager.branch(cond)`; the recorded prefix is
replayed, then the first feasible outcome is taken and the alternative queued.
A function counts as verified only when the queue is empty; exceeding the path
budget is *undecided*.
"""
import z3

from .errors import Undecided


class PathBudget(Undecided):
    pass


class PathManager:
    def __init__(self, base_constraints=(), max_paths=4000, feas_timeout_ms=2000):
        self.base = list(base_constraints)
        self.max_paths = max_paths
        self.feas_timeout_ms = feas_timeout_ms
        self.worklist = [[]]          # list of decision prefixes
        self.paths_done = 0
        self.prefix = []
        self.pos = 0
        self.pc = []                  # z3 constraints of the current path (besides base)
        self.decisions = []
        self.solver = None

    # ---- driver
    def has_next(self):
        return bool(self.worklist)

    def start_path(self):
        if self.paths_done >= self.max_paths:
            raise PathBudget(f"path budget of {self.max_paths} exhausted")
        self.prefix = self.worklist.pop()
        self.pos = 0
        self.pc = []
        self.decisions = []
        self.solver = z3.Solver()
        self.solver.set("timeout", self.feas_timeout_ms)
        for c in self.base:
            self.solver.add(c)
        self.paths_done += 1

    # ---- constraints
    def assume(self, cond):
        if cond is True:
            return
        self.pc.append(cond)
        self.solver.add(cond)

    def constraints(self):
        return self.base + self.pc

    def _feasible(self, cond):
        self.solver.push()
        self.solver.add(cond)
        r = self.solver.check()
        self.solver.pop()
        return r != z3.unsat      # unknown => treated as feasible (sound: more paths)

    # ---- decisions
    def branch(self, cond):
        """cond: z3 BoolRef or python bool. returns python bool, extends the path condition."""
        if isinstance(cond, bool):
            return cond
        cond = z3.simplify(cond)
        if z3.is_true(cond):
            return True
        if z3.is_false(cond):
            return False
        if self.pos < len(self.prefix):
            d = self.prefix[self.pos]
        else:
            ft = self._feasible(cond)
            ff = self._feasible(z3.Not(cond))
            if ft and ff:
                self.worklist.append(self.decisions + [False])
                d = True
            elif ft:
                d = True
            elif ff:
                d = False
            else:
                # path condition itself infeasible: arbitrary, path is dead
                raise DeadPath()
        self.pos += 1
        self.decisions.append(d)
        self.assume(cond if d else z3.Not(cond))
        return d

    def choice(self, n):
        """free non-deterministic choice among range(n) (used for loop cut points)"""
        if self.pos < len(self.prefix):
            d = self.prefix[self.pos]
        else:
            for alt in range(n - 1, 0, -1):
                self.worklist.append(self.decisions + [alt])
            d = 0
        self.pos += 1
        self.decisions.append(d)
        return d


class DeadPath(Exception):
    pass

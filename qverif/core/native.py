"""Native import of the real quara package from /repo's working tree.

scipy >= 1.18 has no scipy.linalg.kron; quara/objects/composite_system.py does
`from scipy.linalg import kron`.  The harness process (not /repo) binds
scipy.linalg.kron = numpy.kron before the first import (dense 2-D inputs only
in quara: same semantics as SciPy <= 1.17).  Listed as an assumption.
"""
import os
import sys

REPO = os.environ.get("QVERIF_REPO", "/repo")
KRON_SHIM_NOTE = ("scipy.linalg.kron is absent in the installed SciPy; the checker process binds "
                  "scipy.linalg.kron = numpy.kron before importing quara natively (replay / conformance only)")


def setup_native():
    if REPO not in sys.path:
        sys.path.insert(0, REPO)
    import warnings
    warnings.filterwarnings("ignore", category=SyntaxWarning)
    import numpy
    import scipy.linalg
    if not hasattr(scipy.linalg, "kron"):
        scipy.linalg.kron = numpy.kron
    # drop any quara imported from elsewhere
    return True


def native_import(modname):
    setup_native()
    import importlib
    return importlib.import_module(modname)


def resolve(target):
    """'quara.utils.index_util:index_serial_from_index_multi_dimensional' -> object"""
    mod, _, qual = target.partition(":")
    obj = native_import(mod)
    for part in qual.split("."):
        obj = getattr(obj, part)
    return obj


def source_path(modname):
    return os.path.join(REPO, *modname.split(".")) + ".py"

"""Result records shared by both VC generators."""
from dataclasses import dataclass, field, asdict
from typing import Any, Optional

DISCHARGED = "discharged"      # solver said unsat for the negated VC  (counted)
REFUTED = "refuted"            # counter-model found AND replayed natively
UNDECIDED = "undecided"        # solver unknown / unsupported construct / anchor moved
FAULT = "fault"                # engine disagrees with CPython, canary verified, crash
BOUNDED_OK = "bounded-ok"      # bounded stand-in passed (never counted as proved)
CANARY_OK = "canary-refuted"   # deliberately false clause was refuted, as it must be


@dataclass
class ObResult:
    name: str                       # Cxx/<function>/<clause>/<path or config>
    status: str
    prop: str = ""
    engine: str = ""                # E1-pyvc | E2-symtwin | lemma | native
    scope: str = ""                 # unbounded | all-inputs@config | bounded(...)
    backend: str = ""               # z3-5.1.0 | cvc5 | normaliser+z3 | ...
    seconds: float = 0.0
    detail: str = ""                # reason for undecided / fault, or summary
    clause: str = ""                # text of the clause
    function: str = ""              # module:qualname under contract
    witness: Optional[dict] = None  # failing input (refuted)
    replay: Optional[dict] = None   # native replay record
    smt: str = ""                   # (truncated) SMT-LIB of the negated VC
    extra: dict = field(default_factory=dict)

    def to_json(self):
        d = asdict(self)
        return d

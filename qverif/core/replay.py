"""./vcheck replay <replay file>: re-run, on the current /repo tree, the one job that produced the recorded violation and report whether the
obligation named in the file is still refuted (exit 1) or now holds (exit 0).  The job re-generates its VCs from the current source and replays
counter-models natively, exactly as in a full run; the recorded inputs are printed for manual use."""
import importlib
import json
import os

from . import result as R
from .runner import VERIF, _run_job


def replay_file(path):
    if not os.path.isabs(path) and not os.path.exists(path):
        path = os.path.join(VERIF, path)
    rec = json.load(open(path))
    prop, ob = rec["property"], rec["obligation"]
    jobname = (rec.get("extra") or {}).get("job")
    print(f"replay of {ob}\n  clause: {rec.get('clause')}\n  recorded witness: {json.dumps(rec.get('witness'), default=str)[:800]}")
    print(f"  recorded replay: {json.dumps(rec.get('replay'), default=str)[:800]}")
    mod = importlib.import_module(f"contracts.{prop}")
    hit = []
    for tier in ("quick", "thorough"):
        jobs = [j for j in mod.jobs(tier, 0) if j.name == jobname]
        if jobs:
            for j in jobs:
                j.prop = prop
                hit = _run_job(j)
            break
    if not hit:
        print(f"UNDECIDED: the job {jobname!r} that produced this file no longer exists")
        return 2
    mine = [r for r in hit if r.name == ob]
    if not mine:
        print("UNDECIDED: the job no longer generates this obligation: " + ", ".join(sorted({r.name for r in hit}))[:600])
        return 2
    r = mine[0]
    print(f"now: {r.status}  {r.detail[:600]}")
    if r.status == R.REFUTED:
        tail = "" if (r.replay and r.replay.get("confirmed")) else " no-failing-input-found"
        print(f"VIOLATION property={prop} replay={path}{tail}")
        return 1
    if r.status in (R.DISCHARGED, R.BOUNDED_OK):
        return 0
    return 2 if r.status == R.UNDECIDED else 3

class Undecided(Exception):
    """The engine cannot decide (unsupported construct, anchor moved, budget). Never a violation."""


class Unsupported(Undecided):
    pass


class EngineFault(Exception):
    """The engine disagrees with CPython / a canary verified: nothing may be claimed."""
